"""E-C: tokenizer + recursive-descent parser for the C subset used by dadi's hand-written kernels
(integration_shared.c, integration{1..5}D.c, tridiag.c, DFE/PDFs.c).

Subset: function definitions / prototypes, scalar and pointer declarations (with malloc initialisers and one
brace-initialised array), one file-scope pointer, object-like #define, for / if / else if / else / return, simple and
compound assignment, ++/--, calls, indexing, &a[i], arithmetic / comparison / logical operators, casts to scalar types,
block and line comments.  Anything else is an ANALYSIS-ERROR (never silently skipped).

Expressions are produced as Python `ast` expression nodes so that the algebra front end is shared."""
import ast, os, re
from .report import AnalysisError, REPO

C_FILES = ['dadi/integration_shared.c', 'dadi/integration1D.c', 'dadi/integration2D.c', 'dadi/integration3D.c',
           'dadi/integration4D.c', 'dadi/integration5D.c', 'dadi/tridiag.c', 'dadi/DFE/PDFs.c']
TYPES = {'double', 'float', 'int', 'void', 'long', 'unsigned', 'const', 'char', 'static', 'size_t', 'inline'}

TOKEN_RE = re.compile(r'''
    (?P<num>(?:\d+\.\d*(?:[eE][-+]?\d+)?|\.\d+(?:[eE][-+]?\d+)?|\d+[eE][-+]?\d+|\d+)[fFlLuU]*)
  | (?P<id>[A-Za-z_]\w*)
  | (?P<op>\+\+|--|\+=|-=|\*=|/=|==|!=|<=|>=|&&|\|\||->|[-+*/%<>=!&|(){}\[\];,.?:])
  | (?P<ws>\s+)
''', re.X)


class Tok:
    __slots__ = ('kind', 'val', 'line')

    def __init__(self, kind, val, line):
        self.kind, self.val, self.line = kind, val, line

    def __repr__(self):
        return '%s:%s@%d' % (self.kind, self.val, self.line)


def tokenize(src, rel):
    defines = {}
    # comments -> spaces (keep newlines)
    def blank(m):
        return re.sub(r'[^\n]', ' ', m.group(0))
    src = re.sub(r'/\*.*?\*/', blank, src, flags=re.S)
    src = re.sub(r'//[^\n]*', blank, src)
    lines = src.split('\n')
    for i, ln in enumerate(lines):
        st = ln.strip()
        if st.startswith('#'):
            md = re.match(r'#\s*define\s+(\w+)\s+(.+)$', st)
            if md:
                defines[md.group(1)] = md.group(2).strip()
            lines[i] = ''
    src = '\n'.join(lines)
    toks = []
    pos, line = 0, 1
    while pos < len(src):
        m = TOKEN_RE.match(src, pos)
        if not m:
            raise AnalysisError('%s:%d: cannot tokenize %r' % (rel, line, src[pos:pos + 20]))
        if m.lastgroup != 'ws':
            toks.append(Tok(m.lastgroup, m.group(0), line))
        line += m.group(0).count('\n')
        pos = m.end()
    toks.append(Tok('eof', '', line))
    return toks, defines


# ---- statement nodes -------------------------------------------------------------------------------------

class CDecl:
    def __init__(self, ctype, name, pointer, init, line, array=False, array_init=None):
        self.ctype, self.name, self.pointer, self.init, self.line = ctype, name, pointer, init, line
        self.array, self.array_init = array, array_init


class CAssign:
    def __init__(self, target, op, value, line):
        self.target, self.op, self.value, self.line = target, op, value, line


class CExpr:
    def __init__(self, expr, line):
        self.expr, self.line = expr, line


class CFor:
    def __init__(self, init, cond, step, body, line):
        self.init, self.cond, self.step, self.body, self.line = init, cond, step, body, line


class CWhile:
    """only between the parser and sa.cptr, which turns counted pointer walks into for loops; steps: statements of a for header that
    run at the end of every iteration (also after `continue`)"""
    def __init__(self, cond, body, line):
        self.cond, self.body, self.line = cond, body, line
        self.steps = []


class CIf:
    def __init__(self, cond, body, orelse, line):
        self.cond, self.body, self.orelse, self.line = cond, body, orelse, line


class CReturn:
    def __init__(self, value, line):
        self.value, self.line = value, line


class CJump:
    """break / continue"""
    def __init__(self, kind, line):
        self.kind, self.line = kind, line


class CFunc:
    def __init__(self, name, ret, params, body, line, rel):
        self.name, self.ret, self.params, self.body, self.line, self.rel = name, ret, params, body, line, rel

    def param_names(self):
        return [p[1] for p in self.params]

    def walk(self):
        """all statements, depth first"""
        def rec(stmts):
            for s in stmts:
                yield s
                if isinstance(s, (CFor, CWhile)):
                    yield from rec(s.body)
                    if isinstance(s, CWhile):
                        yield from rec(getattr(s, 'steps', None) or [])
                elif isinstance(s, CIf):
                    yield from rec(s.body)
                    yield from rec(s.orelse)
        yield from rec(self.body)


class Parser:
    def __init__(self, toks, rel, defines):
        self.t, self.i, self.rel, self.defines = toks, 0, rel, defines
        self.funcs, self.protos, self.globals = {}, {}, {}

    def peek(self, k=0):
        return self.t[self.i + k]

    def next(self):
        tok = self.t[self.i]
        self.i += 1
        return tok

    def expect(self, val):
        tok = self.next()
        if tok.val != val:
            raise AnalysisError('%s:%d: expected %r, found %r' % (self.rel, tok.line, val, tok.val))
        return tok

    def accept(self, val):
        if self.peek().val == val:
            return self.next()
        return None

    def is_type(self, tok):
        return tok.kind == 'id' and tok.val in TYPES

    # ---- top level ----------------------------------------------------------------------------------
    def parse_unit(self):
        while self.peek().kind != 'eof':
            self.top()
        return self

    def parse_type(self):
        words = []
        while self.is_type(self.peek()):
            words.append(self.next().val)
        if not words:
            tok = self.peek()
            raise AnalysisError('%s:%d: type expected, found %r' % (self.rel, tok.line, tok.val))
        return ' '.join(words)

    def top(self):
        line = self.peek().line
        ctype = self.parse_type()
        ptr = 0
        while self.accept('*'):
            ptr += 1
        name = self.next()
        if name.kind != 'id':
            raise AnalysisError('%s:%d: identifier expected' % (self.rel, name.line))
        if self.accept('('):
            params = []
            if not self.accept(')'):
                while True:
                    if self.peek().val == 'void' and self.peek(1).val == ')':
                        self.next()
                        self.expect(')')
                        break
                    pt = self.parse_type()
                    pp = 0
                    while self.accept('*'):
                        pp += 1
                    pn = self.next().val
                    if self.accept('['):
                        self.expect(']')
                        pp += 1
                    params.append((pt + '*' * pp, pn))
                    if self.accept(')'):
                        break
                    self.expect(',')
            if self.accept(';'):
                self.protos[name.val] = (ctype + '*' * ptr, params, line)
                return
            body = self.block()
            self.funcs[name.val] = CFunc(name.val, ctype + '*' * ptr, params, body, line, self.rel)
            return
        # file-scope variable
        init = None
        if self.accept('='):
            init = self.expr()
        self.expect(';')
        self.globals[name.val] = (ctype + '*' * ptr, init, line)

    # ---- statements ----------------------------------------------------------------------------------
    def block(self):
        self.expect('{')
        out = []
        while not self.accept('}'):
            out.extend(self.statement())
        return out

    def body_or_stmt(self):
        if self.peek().val == '{':
            return self.block()
        return self.statement()

    def statement(self):
        tok = self.peek()
        line = tok.line
        if tok.val == ';':
            self.next()
            return []
        if tok.val == '{':
            return self.block()
        if self.is_type(tok):
            return self.declaration()
        if tok.val == 'for':
            self.next()
            self.expect('(')
            inits = self.simple_list() if self.peek().val != ';' else []
            self.expect(';')
            cond = self.expr() if self.peek().val != ';' else None
            self.expect(';')
            steps = self.simple_list() if self.peek().val != ')' else []
            self.expect(')')
            body = self.body_or_stmt()
            cv0 = unparse(cond.left) if isinstance(cond, ast.Compare) else None
            counted = len(inits) == 1 and len(steps) == 1 and isinstance(inits[0], CAssign) and isinstance(steps[0], CAssign) and \
                unparse(inits[0].target) == cv0 and unparse(steps[0].target) == cv0
            if counted or (len(inits) <= 1 and len(steps) <= 1 and cond is None):
                return [CFor(inits[0] if inits else None, cond, steps[0] if steps else None, body, line)]
            if not [x for x in inits if isinstance(x, CAssign) and unparse(x.target) == cv0] or not [x for x in steps if isinstance(x, CAssign) and unparse(x.target) == cv0] \
                    or not all(isinstance(x, CAssign) for x in inits + steps):
                # not a loop over an integer it initialises itself (for (; p < end; p++, q++) ...): initialisers first, then a while
                # loop whose steps run at the end of every iteration, also after `continue` (sa.cptr turns counted walks into for loops)
                w = CWhile(cond, list(body), line)
                w.steps = list(steps)
                return list(inits) + [w]
            # for (i = 0, p = q; i < n; i++, p += m) body   ==   p = q; for (i = 0; i < n; i++) { body; p += m; }
            # (the loop's own variable is the one the condition tests; valid when the body has no `continue`)
            cv = unparse(cond.left) if isinstance(cond, ast.Compare) else None
            own_i = [x for x in inits if isinstance(x, CAssign) and unparse(x.target) == cv]
            own_s = [x for x in steps if isinstance(x, CAssign) and unparse(x.target) == cv]

            def has_continue(stmts):
                for st in stmts:
                    if isinstance(st, CJump) and st.kind == 'continue':
                        return True
                    if isinstance(st, CIf) and (has_continue(st.body) or has_continue(st.orelse)):
                        return True
                return False
            if len(own_i) != 1 or len(own_s) != 1 or has_continue(body):
                raise AnalysisError('%s:%d: for statement with several initialisers/steps is outside the supported C subset' % (self.rel, line))
            pre = [x for x in inits if x is not own_i[0]]
            tail = [x for x in steps if x is not own_s[0]]
            return pre + [CFor(own_i[0], cond, own_s[0], list(body) + tail, line)]
        if tok.val == 'while':
            self.next()
            self.expect('(')
            cond = self.expr()
            self.expect(')')
            body = self.body_or_stmt()
            return [CWhile(cond, body, line)]
        if tok.val == 'if':
            self.next()
            self.expect('(')
            cond = self.expr()
            self.expect(')')
            body = self.body_or_stmt()
            orelse = []
            if self.accept('else'):
                orelse = self.body_or_stmt()
            return [CIf(cond, body, orelse, line)]
        if tok.val == 'return':
            self.next()
            val = None if self.peek().val == ';' else self.expr()
            self.expect(';')
            return [CReturn(val, line)]
        if tok.val in ('break', 'continue'):
            self.next()
            self.expect(';')
            return [CJump(tok.val, line)]
        if tok.val in ('do', 'switch', 'goto', 'struct', 'typedef'):
            raise AnalysisError('%s:%d: construct %r is outside the supported C subset' % (self.rel, line, tok.val))
        s = self.simple()
        self.expect(';')
        return [s]

    def declaration(self):
        line = self.peek().line
        ctype = self.parse_type()
        out = []
        while True:
            ptr = 0
            while self.accept('*'):
                ptr += 1
            name = self.next().val
            array, array_init = False, None
            if self.accept('['):
                if self.peek().val != ']':
                    self.expr()
                self.expect(']')
                array = True
            init = None
            if self.accept('='):
                if self.peek().val == '{':
                    self.next()
                    array_init = []
                    while not self.accept('}'):
                        array_init.append(self.expr())
                        self.accept(',')
                else:
                    init = self.expr()
            out.append(CDecl(ctype, name, ptr, init, line, array, array_init))
            if self.accept(';'):
                break
            self.expect(',')
        return out

    def simple_list(self):
        out = [self.simple()]
        while self.accept(','):
            out.append(self.simple())
        return out

    def simple(self):
        """assignment, compound assignment, ++/--, or expression statement"""
        line = self.peek().line
        if self.peek().val in ('++', '--'):
            op = self.next().val
            tgt = self.unary()
            return CAssign(tgt, '+=' if op == '++' else '-=', ast.Constant(value=1), line)
        e = self.expr()
        tok = self.peek()
        if isinstance(e, ast.Call) and isinstance(e.func, ast.Name) and e.func.id in ('postinc', 'postdec') and tok.val not in ('=', '+=', '-=', '*=', '/='):
            # i++ as a statement
            return CAssign(e.args[0], '+=' if e.func.id == 'postinc' else '-=', ast.Constant(value=1), line)
        if tok.val in ('=', '+=', '-=', '*=', '/='):
            self.next()
            v = self.expr()
            return CAssign(e, tok.val, v, line)
        if tok.val in ('++', '--'):
            self.next()
            return CAssign(e, '+=' if tok.val == '++' else '-=', ast.Constant(value=1), line)
        return CExpr(e, line)

    # ---- expressions ----------------------------------------------------------------------------------
    def expr(self):
        return self.lor()

    def lor(self):
        l = self.land()
        while self.accept('||'):
            r = self.land()
            l = ast.BoolOp(op=ast.Or(), values=[l, r])
        return l

    def land(self):
        l = self.equality()
        while self.accept('&&'):
            r = self.equality()
            l = ast.BoolOp(op=ast.And(), values=[l, r])
        return l

    def equality(self):
        l = self.relational()
        while self.peek().val in ('==', '!='):
            op = self.next().val
            r = self.relational()
            l = ast.Compare(left=l, ops=[ast.Eq() if op == '==' else ast.NotEq()], comparators=[r])
        return l

    def relational(self):
        l = self.additive()
        while self.peek().val in ('<', '>', '<=', '>='):
            op = self.next().val
            r = self.additive()
            l = ast.Compare(left=l, ops=[{'<': ast.Lt, '>': ast.Gt, '<=': ast.LtE, '>=': ast.GtE}[op]()], comparators=[r])
        return l

    def additive(self):
        l = self.multiplicative()
        while self.peek().val in ('+', '-'):
            op = self.next().val
            r = self.multiplicative()
            l = ast.BinOp(left=l, op=ast.Add() if op == '+' else ast.Sub(), right=r)
        return l

    def multiplicative(self):
        l = self.unary()
        while self.peek().val in ('*', '/', '%'):
            op = self.next().val
            r = self.unary()
            l = ast.BinOp(left=l, op={'*': ast.Mult, '/': ast.Div, '%': ast.Mod}[op](), right=r)
        return l

    def unary(self):
        tok = self.peek()
        if tok.val == '-':
            self.next()
            return ast.UnaryOp(op=ast.USub(), operand=self.unary())
        if tok.val == '+':
            self.next()
            return self.unary()
        if tok.val == '!':
            self.next()
            return ast.UnaryOp(op=ast.Not(), operand=self.unary())
        if tok.val == '&':
            self.next()
            return ast.Call(func=ast.Name(id='addr', ctx=ast.Load()), args=[self.unary()], keywords=[])
        if tok.val == '*':
            self.next()
            return ast.Call(func=ast.Name(id='deref', ctx=ast.Load()), args=[self.unary()], keywords=[])
        if tok.val == '(' and self.is_type(self.peek(1)):
            # cast
            self.next()
            self.parse_type()
            while self.accept('*'):
                pass
            self.expect(')')
            return self.unary()
        return self.postfix()

    def postfix(self):
        e = self.primary()
        while True:
            if self.accept('['):
                idx = self.expr()
                self.expect(']')
                e = ast.Subscript(value=e, slice=idx, ctx=ast.Load())
            elif self.peek().val == '(' and isinstance(e, ast.Name):
                self.next()
                args = []
                if not self.accept(')'):
                    while True:
                        args.append(self.expr())
                        if self.accept(')'):
                            break
                        self.expect(',')
                e = ast.Call(func=e, args=args, keywords=[])
            elif self.peek().val in ('++', '--'):
                op = self.next().val
                e = ast.Call(func=ast.Name(id='postinc' if op == '++' else 'postdec', ctx=ast.Load()), args=[e], keywords=[])
            else:
                return e

    def primary(self):
        tok = self.next()
        if tok.kind == 'num':
            txt = tok.val.rstrip('fFlLuU')
            if re.fullmatch(r'\d+', txt):
                return ast.Constant(value=int(txt))
            return ast.Constant(value=float(txt))
        if tok.kind == 'id':
            if tok.val == 'sizeof':
                self.expect('(')
                depth = 1
                while depth:
                    t = self.next()
                    if t.val == '(':
                        depth += 1
                    elif t.val == ')':
                        depth -= 1
                return ast.Name(id='SIZEOF', ctx=ast.Load())
            if tok.val in self.defines:
                sub, _ = tokenize(self.defines[tok.val], self.rel)
                return Parser(sub, self.rel, {}).expr()
            return ast.Name(id=tok.val, ctx=ast.Load())
        if tok.val == '(':
            e = self.expr()
            self.expect(')')
            return e
        raise AnalysisError('%s:%d: unexpected token %r in expression' % (self.rel, tok.line, tok.val))


class CProgram:
    def __init__(self, root=None, files=None):
        self.root = root or REPO
        self.funcs, self.protos, self.globals, self.units = {}, {}, {}, {}
        for rel in (files or C_FILES):
            p = os.path.join(self.root, rel)
            if not os.path.exists(p):
                raise AnalysisError('anchor vanished: %s' % rel)
            src = open(p).read()
            try:
                toks, defines = tokenize(src, rel)
                pr = Parser(toks, rel, defines).parse_unit()
            except AnalysisError as e:
                # a file outside the parsed subset only concerns the rules that ask for its functions
                self.broken = getattr(self, 'broken', {})
                self.broken[rel] = str(e)
                continue
            self.units[rel] = pr
            for k, f in pr.funcs.items():
                self.funcs[k] = f
            self.protos.update(pr.protos)
            self.globals.update(pr.globals)
        if not os.environ.get('VERIF_NO_ALPHA'):
            # pointer walks / carved workspaces / new file-local helpers written back to the array-and-index form (sa.cptr), then
            # the renaming of locals
            from . import cptr
            table = _c_table()
            rec_funcs = set(table.get('__functions__') or [k for k in table if not k.startswith('__')])
            for k, f in list(self.funcs.items()):
                if k not in rec_funcs and table.get('__functions__'):
                    continue           # a helper the confirmed tree does not have: expanded at its call sites
                try:
                    cptr.normalise(f, self.funcs, rec_funcs, table.get(k), [g for g, (gt, _gi, _gl) in self.globals.items() if '*' in gt])
                except cptr.Unsupported as e:
                    f.ptr_error = str(e)
                except AnalysisError as e:
                    f.ptr_error = str(e)
                c_alpha_normalise(f)

    def func(self, name):
        f = self.funcs.get(name)
        if f is None:
            broken = getattr(self, 'broken', {})
            if broken:
                raise AnalysisError('C function %s not available: %s' % (name, '; '.join(sorted(broken.values()))[:200]))
            raise AnalysisError('anchor vanished: C function %s' % name)
        why = getattr(f, 'ptr_error', None) or unsupported_pointer_use(f)
        if why:
            raise AnalysisError('C function %s is outside the modelled C subset: %s' % (name, why))
        return f


def unsupported_pointer_use(f):
    """arrays carved out of another allocation by pointer arithmetic (double *b = ws + L), or pointers that are advanced (p++, p += n):
    the array model of the C rules (one malloc per array, index expressions) does not cover them"""
    ptrs = {pn for pt, pn in f.params if '*' in pt}
    for st in f.walk():
        if isinstance(st, CDecl) and st.pointer:
            ptrs.add(st.name)
    for st in f.walk():
        init = st.init if isinstance(st, CDecl) and st.pointer else (st.value if isinstance(st, CAssign) and isinstance(st.target, ast.Name) and st.target.id in ptrs and st.op == '=' else None)
        if isinstance(init, ast.AST):
            if isinstance(init, ast.BinOp) and any(isinstance(n, ast.Name) and n.id in ptrs for n in ast.walk(init)):
                return 'pointer %s is set to an offset into another array (line %d)' % (st.name if isinstance(st, CDecl) else st.target.id, st.line)
        if isinstance(st, CAssign) and isinstance(st.target, ast.Name) and st.target.id in ptrs and st.op in ('+=', '-='):
            return 'pointer %s is advanced (line %d)' % (st.target.id, st.line)
        if isinstance(st, CFor) and isinstance(st.step, CAssign) and isinstance(st.step.target, ast.Name) and st.step.target.id in ptrs:
            return 'pointer %s is advanced (line %d)' % (st.step.target.id, st.line)
    return None


# ---- alpha-normalisation of C locals (see sa/alpha.py for the argument: any bijective renaming of locals is behaviour-preserving)
_C_TABLE = None


def c_locals(f):
    out = []
    for st in f.walk():
        if isinstance(st, CDecl) and st.name not in out:
            out.append(st.name)
    return out


def _c_rename(f, mp):
    def fix(node):
        if isinstance(node, ast.AST):
            for n in ast.walk(node):
                if isinstance(n, ast.Name) and n.id in mp:
                    n.id = mp[n.id]
        elif isinstance(node, list):
            for x in node:
                fix(x)
    for st in f.walk():
        if isinstance(st, CDecl):
            if st.name in mp:
                st.name = mp[st.name]
            fix(st.init)
            fix(st.array_init)
            continue
        for k, v in vars(st).items():
            if k in ('body', 'orelse'):
                continue
            if isinstance(v, (ast.AST, list)):
                fix(v)
            elif hasattr(v, '__dict__') and not isinstance(v, (str, int)):
                for k2, v2 in vars(v).items():
                    if isinstance(v2, (ast.AST, list)):
                        fix(v2)


# ---- inlining of newly introduced scalar temporaries (hoisted invariants, offsets) ---------------------------------------
def _clone(node):
    if isinstance(node, list):
        return [_clone(x) for x in node]
    if not isinstance(node, ast.AST):
        return node
    new = type(node)()
    for fld in node._fields:
        if hasattr(node, fld):
            setattr(new, fld, _clone(getattr(node, fld)))
    return new


def _base_type(ctype):
    words = [w for w in ctype.replace('*', ' * ').split() if w not in ('const', 'static', 'inline', 'register', 'unsigned', 'signed', 'long', 'short')]
    if '*' in words:
        return None
    if 'double' in words or 'float' in words:
        return 'double'
    if 'int' in words or not words:
        return 'int'
    return None


def _expr_fields(st):
    """(holder, attribute) of every expression slot of a statement (not descending into bodies)"""
    out = []
    if isinstance(st, CDecl):
        out.append((st, 'init'))
    elif isinstance(st, CAssign):
        out += [(st, 'target'), (st, 'value')]
    elif isinstance(st, CExpr):
        out.append((st, 'expr'))
    elif isinstance(st, CFor):
        for part in (st.init, st.step):
            if part is not None:
                out += _expr_fields(part)
        out.append((st, 'cond'))
    elif isinstance(st, (CIf, CWhile)):
        out.append((st, 'cond'))
    elif isinstance(st, CReturn):
        out.append((st, 'value'))
    return out


def _nested(stmts):
    for st in stmts:
        yield st
        if isinstance(st, CFor):
            yield from _nested(st.body)
        elif isinstance(st, CWhile):
            yield from _nested(st.body)
            yield from _nested(getattr(st, 'steps', None) or [])
        elif isinstance(st, CIf):
            yield from _nested(st.body)
            yield from _nested(st.orelse)


def _assigned_in(stmts):
    """names assigned (or whose address is taken) by the statements, nested ones included"""
    out = set()
    for st in _nested(stmts):
        parts = [st] + ([p for p in (st.init, st.step) if p is not None] if isinstance(st, CFor) else [])
        for q in parts:
            if isinstance(q, CAssign) and isinstance(q.target, ast.Name):
                out.add(q.target.id)
            if isinstance(q, CDecl) and q.init is not None:
                out.add(q.name)
        for h, a in _expr_fields(st):
            e = getattr(h, a)
            if isinstance(e, ast.AST):
                for n in ast.walk(e):
                    if isinstance(n, ast.Call) and isinstance(n.func, ast.Name) and n.func.id in ('addr', 'postinc', 'postdec') and n.args and isinstance(n.args[0], ast.Name):
                        out.add(n.args[0].id)
    return out


def c_inline_new_scalars(f, recorded):
    """A scalar local that the confirmed form of the function does not have, that is assigned exactly once from a pure
    arithmetic expression of the same C type, whose operands do not change between the assignment and the uses, and that is
    only read after the assignment in the same block, is replaced by its defining expression (a hoisted loop invariant or a
    named offset: substitution of an expression of the same type for a single-assignment variable preserves every value)."""
    done = 0
    for _round in range(40):
        types = {pn: _base_type(pt) for pt, pn in f.params}
        decls = {}
        for st in f.walk():
            if isinstance(st, CDecl):
                decls[st.name] = st
                types[st.name] = None if (st.pointer or st.array) else _base_type(st.ctype)

        def ty(e):
            if isinstance(e, ast.Constant):
                return 'int' if isinstance(e.value, int) else 'double'
            if isinstance(e, ast.Name):
                return types.get(e.id)
            if isinstance(e, ast.UnaryOp) and isinstance(e.op, ast.USub):
                return ty(e.operand)
            if isinstance(e, ast.BinOp) and isinstance(e.op, (ast.Add, ast.Sub, ast.Mult, ast.Div)):
                a, b = ty(e.left), ty(e.right)
                if a is None or b is None:
                    return None
                return 'double' if 'double' in (a, b) else 'int'
            # comparisons and && || ! yield the int 0 or 1 in C
            if isinstance(e, ast.Compare) and len(e.ops) == 1 and ty(e.left) is not None and ty(e.comparators[0]) is not None:
                return 'int'
            if isinstance(e, ast.BoolOp) and all(ty(v) is not None for v in e.values):
                return 'int'
            if isinstance(e, ast.UnaryOp) and isinstance(e.op, ast.Not) and ty(e.operand) is not None:
                return 'int'
            if isinstance(e, ast.Subscript) and isinstance(e.value, ast.Name):
                return array_types.get(e.value.id)
            return None
        array_types = {pn: _base_type(pt.replace('*', ' ').replace('[]', ' ')) for pt, pn in f.params if '*' in pt or '[' in pt}
        for st_ in f.walk():
            if isinstance(st_, CDecl) and (st_.pointer or st_.array):
                array_types[st_.name] = _base_type(st_.ctype)
        cands = [n for n in decls if n not in recorded and types.get(n) in ('int', 'double')]
        progressed = False
        for name in cands:
            # the single definition
            defs = []

            def find(stmts):
                for i, st in enumerate(stmts):
                    if isinstance(st, CDecl) and st.name == name and st.init is not None:
                        defs.append((stmts, i, st.init))
                    if isinstance(st, CAssign) and isinstance(st.target, ast.Name) and st.target.id == name:
                        defs.append((stmts, i, st.value if st.op == '=' else None))
                    if isinstance(st, CFor):
                        for part in (st.init, st.step):
                            if isinstance(part, CAssign) and isinstance(part.target, ast.Name) and part.target.id == name:
                                defs.append((None, None, None))
                        find(st.body)
                    elif isinstance(st, CWhile):
                        find(st.body)
                        find(getattr(st, 'steps', None) or [])
                    elif isinstance(st, CIf):
                        find(st.body)
                        find(st.orelse)
            find(f.body)
            if len(defs) != 1 or defs[0][2] is None:
                continue
            blk, i, value = defs[0]
            if ty(value) != types[name]:
                continue
            operands = {n.id for n in ast.walk(value) if isinstance(n, ast.Name)}
            if name in operands:
                continue
            rest = blk[i + 1:]
            changed = _assigned_in(rest)
            if operands & changed or name in changed:
                continue
            # every read lies in the rest of the block
            def reads(stmts):
                c = 0
                for st in _nested(stmts):
                    for h, a in _expr_fields(st):
                        e = getattr(h, a)
                        if isinstance(e, ast.AST):
                            c += sum(1 for n in ast.walk(e) if isinstance(n, ast.Name) and n.id == name)
                return c
            total = reads(f.body)
            own = 1 if isinstance(blk[i], CAssign) else 0       # the target of the defining assignment
            if reads(rest) != total - own:
                continue

            class Sub(ast.NodeTransformer):
                def visit_Name(self, n):
                    return _clone(value) if n.id == name else n
            for st in _nested(rest):
                for h, a in _expr_fields(st):
                    e = getattr(h, a)
                    if isinstance(e, ast.AST):
                        setattr(h, a, Sub().visit(e))
            # remove the definition and the declaration
            del blk[i]

            def drop(stmts):
                for j, st in enumerate(list(stmts)):
                    if isinstance(st, CDecl) and st.name == name:
                        stmts.remove(st)
                    elif isinstance(st, (CFor, CWhile)):
                        drop(st.body)
                    elif isinstance(st, CIf):
                        drop(st.body)
                        drop(st.orelse)
            drop(f.body)
            done += 1
            progressed = True
            break
        if not progressed:
            break
    return done


def c_integer_abs_on_double(f, want='abs'):
    """calls of the integer abs() whose argument has floating type (C converts the argument to int first, so |x| < 1 becomes 0):
    list of (line, text)"""
    types = {pn: _base_type(pt) for pt, pn in f.params}
    ptr = {pn: ('double' if 'double' in pt or 'float' in pt else 'int') for pt, pn in f.params if '*' in pt}
    for st in f.walk():
        if isinstance(st, CDecl):
            if st.pointer or st.array:
                ptr[st.name] = 'double' if ('double' in st.ctype or 'float' in st.ctype) else 'int'
                types[st.name] = None
            else:
                types[st.name] = _base_type(st.ctype)

    def ty(e):
        if isinstance(e, ast.Constant):
            return 'int' if isinstance(e.value, int) else 'double'
        if isinstance(e, ast.Name):
            return types.get(e.id)
        if isinstance(e, ast.Subscript) and isinstance(e.value, ast.Name):
            return ptr.get(e.value.id)
        if isinstance(e, ast.UnaryOp):
            return ty(e.operand)
        if isinstance(e, ast.BinOp):
            a, b = ty(e.left), ty(e.right)
            if 'double' in (a, b):
                return 'double'
            return 'int' if a == b == 'int' else None
        if isinstance(e, ast.Call) and isinstance(e.func, ast.Name):
            if e.func.id in ('exp', 'log', 'sqrt', 'pow', 'fabs', 'floor', 'ceil', 'lgamma', 'tgamma', 'sin', 'cos', 'log1p', 'expm1', 'fmax', 'fmin'):
                return 'double'
        return None
    out = []
    if want == 'narrow':
        # single-precision storage, and floating values stored into integer variables (both lose what the double formula computed)
        for pt, pn in f.params:
            if re.search(r'\bfloat\b', pt):
                out.append((f.line, 'parameter `%s %s` is single precision' % (pt, pn)))
        if f.ret and re.search(r'\bfloat\b', f.ret):
            out.append((f.line, 'return type `%s` is single precision' % f.ret))
        for st in f.walk():
            if isinstance(st, CDecl):
                if re.search(r'\bfloat\b', st.ctype):
                    out.append((st.line, '`%s %s` is single precision' % (st.ctype, st.name)))
                elif not (st.pointer or st.array) and _base_type(st.ctype) == 'int' and isinstance(st.init, ast.AST) and ty(st.init) == 'double':
                    out.append((st.line, '`%s %s = %s` truncates a floating-point value' % (st.ctype, st.name, unparse(st.init)[:50])))
            elif isinstance(st, CAssign) and isinstance(st.target, ast.Name) and types.get(st.target.id) == 'int' and isinstance(st.value, ast.AST) and ty(st.value) == 'double':
                out.append((st.line, '`%s %s %s` truncates a floating-point value into an int' % (st.target.id, st.op, unparse(st.value)[:50])))
        return out
    for st in f.walk():
        for h, a in _expr_fields(st):
            e = getattr(h, a)
            if isinstance(e, ast.AST):
                for n in ast.walk(e):
                    if want == 'abs' and isinstance(n, ast.Call) and isinstance(n.func, ast.Name) and n.func.id in ('abs', 'labs') and len(n.args) == 1 and ty(n.args[0]) == 'double':
                        out.append((st.line, unparse(n)))
                    if want == 'div' and isinstance(n, ast.BinOp) and isinstance(n.op, ast.Div) and ty(n.left) == 'int' and ty(n.right) == 'int':
                        # exact quotients of literals (4/2) lose nothing
                        if isinstance(n.left, ast.Constant) and isinstance(n.right, ast.Constant) and n.right.value and n.left.value % n.right.value == 0:
                            continue
                        out.append((st.line, unparse(n)))
    return out


def c_narrow_storage(f):
    """single-precision (float) parameters, return types and locals, and floating-point values stored into int variables: (line, text)"""
    return c_integer_abs_on_double(f, want='narrow')


def c_integer_division(f):
    """quotients whose two operands both have integer type: C truncates them (1/2 == 0) before any conversion to double, whereas the
    algebra of the formula (and the Python reference) means the real quotient: list of (line, text)"""
    return c_integer_abs_on_double(f, want='div')


def _c_table():
    global _C_TABLE
    if _C_TABLE is None:
        import json
        tp = os.path.join(os.path.dirname(os.path.abspath(__file__)), 'alpha_names_c.json')
        _C_TABLE = json.load(open(tp)) if os.path.isfile(tp) else {}
    return _C_TABLE


def c_alpha_normalise(f):
    rec = _c_table().get(f.name)
    if not rec:
        return 0
    from .alpha import pairing
    if len(c_locals(f)) > len(rec):
        # more locals than the confirmed form: the new scalars are written out first (with as many locals as recorded there are no
        # new ones, whatever they are called - renamed locals are paired position by position)
        c_inline_new_scalars(f, set(rec))
    cur = c_locals(f)
    used = set(f.param_names())
    for st in f.walk():
        for v in vars(st).values():
            if isinstance(v, ast.AST):
                used |= {n.id for n in ast.walk(v) if isinstance(n, ast.Name)}
    mp = pairing(cur, rec, forbidden=(used - set(cur)))
    if mp:
        _c_rename(f, mp)
    return len(mp)


def parse_all(root=None):
    return len(CProgram(root).funcs)


def unparse(e):
    for n in ast.walk(e):
        if not hasattr(n, 'lineno'):
            n.lineno = 0
            n.col_offset = 0
    return ast.unparse(e)
