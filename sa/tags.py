"""Tag (typestate) analysis over the flow engine: every local variable carries one tag of a small
finite lattice (e.g. parameter space {nat, log}; array freshness {param, fresh, view}); expressions are
evaluated abstractly with a table of transfer functions for calls.  Branches on designated boolean
parameters are specialised ("worlds") instead of joined.  Used by R-SPACE (C07, C12), R-IO (C14),
R-LAYOUT / R-PURE (C20)."""
import ast
from .flow import Analysis, Engine
from .srcmodel import func_params, dotted

MIXED = 'mixed'
NONE = None


class FnRef(str):
    """tag of a variable that holds a function (`scale = numpy.log`): the dotted name of that function"""


class TagState(dict):
    def __hash__(self):
        return hash(frozenset(self.items()))


class TagAnalysis(Analysis):
    for_body_runs_at_least_once = True

    def __init__(self, fn, seeds=None, world=None, call_rule=None, default=None, attr_rule=None,
                 observe=None, elementwise=True, subscript_rule=None, binop_rule=None, fnref_rule=None):
        self.fn = fn
        self.fnref_rule = fnref_rule     # fnref_rule(expr, state) -> dotted name when the expression denotes a function, else None
        self.seeds = dict(seeds or {})
        self.world = dict(world or {})
        self.call_rule = call_rule
        self.attr_rule = attr_rule
        self.subscript_rule = subscript_rule
        self.binop_rule = binop_rule
        self.default = default
        self.observe = observe       # callback(node, tag_of, state) called on every statement / call
        self.calls = []              # (call node, [arg tags], {kw: tag}, state copy)
        self.returns = []            # (return node, tag)

    # -- lattice -----------------------------------------------------------
    def jt(self, a, b):
        if a == b:
            return a
        if a is None:
            return b
        if b is None:
            return a
        return MIXED

    def initial(self):
        s = TagState()
        for p in func_params(self.fn):
            s[p] = self.seeds.get(p, self.default)
        return s

    def copy(self, s):
        return TagState(s)

    def join(self, a, b):
        r = TagState()
        for k in set(a) | set(b):
            if k in a and k in b:
                r[k] = self.jt(a[k], b[k])
            else:
                r[k] = self.jt(a.get(k, self.default), b.get(k, self.default)) if (k in a or k in b) else None
        return r

    # -- abstract evaluation -----------------------------------------------
    def ev(self, e, s):
        if e is None:
            return None
        if isinstance(e, ast.Name):
            return s.get(e.id, self.seeds.get(e.id, self.default))
        if isinstance(e, ast.Constant):
            return self.const_tag(e)
        if isinstance(e, ast.Call):
            args = [self.ev(a.value if isinstance(a, ast.Starred) else a, s) for a in e.args]
            kws = {k.arg: self.ev(k.value, s) for k in e.keywords}
            self.calls.append((e, args, kws, self.copy(s)))
            if isinstance(e.func, ast.Name) and isinstance(s.get(e.func.id, self.seeds.get(e.func.id)), FnRef):
                # a call through a variable that holds a function is a call of that function
                e = ast.copy_location(ast.Call(func=ast.parse(str(s.get(e.func.id, self.seeds.get(e.func.id))), mode='eval').body, args=e.args, keywords=e.keywords), e)
                ast.fix_missing_locations(e)
            if self.call_rule:
                r = self.call_rule(self, e, args, kws, s)
                if r is not NotImplemented:
                    return r
            return self.default_call(e, args, kws, s)
        if isinstance(e, ast.Subscript):
            if self.subscript_rule:
                r = self.subscript_rule(self, e, s)
                if r is not NotImplemented:
                    return r
            return self.ev(e.value, s)
        if isinstance(e, ast.Attribute):
            if self.attr_rule:
                r = self.attr_rule(self, e, s)
                if r is not NotImplemented:
                    return r
            return self.default
        if isinstance(e, ast.BinOp):
            l, r = self.ev(e.left, s), self.ev(e.right, s)
            if self.binop_rule:
                x = self.binop_rule(self, e, l, r, s)
                if x is not NotImplemented:
                    return x
            return self.jt(l, r)
        if isinstance(e, ast.UnaryOp):
            return self.ev(e.operand, s)
        if isinstance(e, ast.IfExp):
            ct = self.const_truth(e.test)
            if ct is True:
                return self.ev(e.body, s)
            if ct is False:
                return self.ev(e.orelse, s)
            return self.jt(self.ev(e.body, s), self.ev(e.orelse, s))
        if isinstance(e, (ast.List, ast.Tuple, ast.Set)):
            t = None
            for x in e.elts:
                t = self.jt(t, self.ev(x.value if isinstance(x, ast.Starred) else x, s))
            return t
        if isinstance(e, (ast.ListComp, ast.GeneratorExp, ast.SetComp)):
            s2 = self.copy(s)
            for g in e.generators:
                it = self.ev(g.iter, s2)
                for n in ast.walk(g.target):
                    if isinstance(n, ast.Name):
                        s2[n.id] = it
            return self.ev(e.elt, s2)
        if isinstance(e, ast.Compare):
            self.ev(e.left, s)
            for c in e.comparators:
                self.ev(c, s)
            return self.default
        if isinstance(e, ast.BoolOp):
            t = None
            for v in e.values:
                t = self.jt(t, self.ev(v, s))
            return t
        if isinstance(e, ast.Lambda):
            return self.default
        if isinstance(e, ast.Starred):
            return self.ev(e.value, s)
        if isinstance(e, ast.Dict):
            for v in e.values:
                self.ev(v, s)
            return self.default
        if isinstance(e, ast.JoinedStr):
            return self.default
        return self.default

    def const_tag(self, e):
        return None

    def default_call(self, e, args, kws, s):
        return self.default

    # -- engine hooks --------------------------------------------------------
    def expr(self, e, s, st):
        t = self.ev(e, s)
        if isinstance(st, ast.Return) and st.value is e:
            self.returns.append((st, t, self.copy(s)))
        return s

    def assign(self, target, value, s, st):
        if isinstance(st, ast.AugAssign):
            t = self.jt(self.ev(st.target if False else ast.Name(id=getattr(st.target, 'id', '?'), ctx=ast.Load()), s), self.ev(st.value, s)) \
                if isinstance(st.target, ast.Name) else None
            if isinstance(target, ast.Name):
                s[target.id] = t
            return s
        if isinstance(st, (ast.For, ast.AsyncFor)) and target is st.target:
            t = self.ev(st.iter, s)
        elif value is None or isinstance(value, (ast.FunctionDef, ast.ClassDef, ast.AsyncFunctionDef)):
            t = self.default
            if self.observe is not None and value is not None:
                self.observe(value, None, self.copy(s))        # the state a nested definition closes over
        else:
            t = None
            if isinstance(target, (ast.Tuple, ast.List)) and isinstance(value, (ast.Tuple, ast.List)) \
                    and len(target.elts) == len(value.elts):
                for tt, vv in zip(target.elts, value.elts):
                    s = self.assign(tt, vv, s, st)
                return s
            t = self.ev(value, s)
            if self.fnref_rule is not None and isinstance(value, (ast.Name, ast.Attribute)) and not isinstance(t, FnRef):
                d = self.fnref_rule(value, s)
                if d:
                    t = FnRef(d)
        self._bind(target, t, s)
        return s

    def _bind(self, target, t, s):
        if isinstance(target, ast.Name):
            s[target.id] = t
        elif isinstance(target, (ast.Tuple, ast.List)):
            for x in target.elts:
                self._bind(x.value if isinstance(x, ast.Starred) else x, t, s)
        elif isinstance(target, ast.Subscript):
            self.store_subscript(target, t, s)
        elif isinstance(target, ast.Attribute):
            self.store_attr(target, t, s)

    def store_subscript(self, target, t, s):
        # x[i] = v : container tag is joined with the stored element's tag
        base = target.value
        if isinstance(base, ast.Name):
            s[base.id] = self.jt(s.get(base.id, self.default), t) if t is not None else s.get(base.id, self.default)

    def store_attr(self, target, t, s):
        pass

    def const_truth(self, test):
        if isinstance(test, ast.Constant):
            return bool(test.value)
        pol = True
        while isinstance(test, ast.UnaryOp) and isinstance(test.op, ast.Not):
            pol = not pol
            test = test.operand
        if isinstance(test, ast.Compare) and len(test.ops) == 1 and isinstance(test.comparators[0], ast.Constant) \
                and isinstance(test.comparators[0].value, bool) and isinstance(test.ops[0], (ast.Eq, ast.Is)):
            if not test.comparators[0].value:
                pol = not pol
            test = test.left
        if isinstance(test, ast.Name) and test.id in self.world:
            return self.world[test.id] == pol
        return None


def run_tags(fn, **kw):
    an = kw.pop('analysis_class', TagAnalysis)(fn, **kw)
    eng = Engine(an)
    exits = eng.run_function(fn, an.initial())
    return an, exits
