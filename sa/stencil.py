"""Stencil normal forms: array updates along one swept axis, from C loops and from numpy slice assignments.

An update is  (array, offset c, op, Rat)  meaning  array[j + 0] op= expr(j)  for j in a range, after shifting so that the
written element is at relative offset 0.  Array reads are atoms  `A@d`  (element j+d of A along the swept axis); reads at
fixed positions are atoms `A[0]`, `A[N-1]`, `A[N-2]` (end-relative indices are written N-k).  Scalars are plain atoms.
Both front ends produce the same normal form, so `compute_abc_nobc` (C) can be compared with the slice assembly of the
Python constant-parameter drivers and with the reference conservative scheme."""
import ast
from fractions import Fraction
from .algebra import Rat, Poly, Translator, AlgebraError
from .cfront import CFor, CAssign, CDecl, CIf, CExpr, unparse


class Update:
    def __init__(self, array, lo, hi, op, expr, line=0):
        # valid for j in [lo, hi) where lo is an int and hi is ('N', k) meaning N+k
        self.array, self.lo, self.hi, self.op, self.expr, self.line = array, lo, hi, op, expr, line

    def __repr__(self):
        if self.lo is None:
            return '%s %s %s' % (self.array, self.op, self.expr.canon())
        return '%s[j] %s %s  for j in [%s, N%+d)' % (self.array, self.op, self.expr.canon(), self.lo, self.hi)


def shift_atoms(r, delta, arrays=None):
    """rename every atom A@d to A@(d+delta)"""
    def ren(name):
        if '@' in name and not name.startswith(('exp(', 'log(', 'pow(')):
            a, d = name.rsplit('@', 1)
            return '%s@%d' % (a, int(d) + delta)
        return name

    def poly(p):
        out = {}
        for m, c in p.t.items():
            m2 = tuple(sorted((ren(k), e) for k, e in m))
            out[m2] = out.get(m2, 0) + c
        return Poly(out)
    res = Rat(poly(r.n))
    for f, k in r.d.items():
        res = res / (Rat(poly(f)) ** k)
    return res


# ---------------------------------------------------------------------------
# C front end
# ---------------------------------------------------------------------------

def _c_index(idx, loopvar, extent):
    """classify a C index expression: ('rel', d) for loopvar+d, ('abs', text) for constants / N-k"""
    try:
        r = Translator().tr(idx)
    except AlgebraError:
        return ('abs', unparse(idx))
    if loopvar is not None:
        lv = Rat.atom(loopvar)
        diff = r - lv
        if diff.is_const():
            return ('rel', int(diff.const_value()))
    if r.is_const():
        return ('abs', str(int(r.const_value())))
    if extent is not None:
        d2 = r - Rat.atom(extent)
        if d2.is_const():
            return ('abs', 'N%+d' % int(d2.const_value()))
    return ('abs', r.canon())


def c_translator(loopvar, extent, env, scalar_env=None):
    def index_hook(tr, e):
        base = tr._basename(e.value)
        kind, v = _c_index(e.slice, loopvar, extent)
        if kind == 'rel':
            return Rat.atom('%s@%d' % (base, v))
        return Rat.atom('%s[%s]' % (base, v))
    return Translator(env, index_hook=index_hook)


def c_loop_updates(stmts, extent, env=None):
    """normal-form updates of a sequence of C statements (top-level assignments to fixed elements and single for-loops)"""
    out = []
    env = dict(env or {})
    for st in stmts:
        if isinstance(st, CFor):
            lv = unparse(st.init.target)
            lo = Translator().tr(st.init.value)
            if not lo.is_const():
                raise AlgebraError('loop lower bound %s is not constant' % unparse(st.init.value))
            lo = int(lo.const_value())
            cond = st.cond
            if not (isinstance(cond, ast.Compare) and unparse(cond.left) == lv and isinstance(cond.ops[0], (ast.Lt, ast.LtE))):
                raise AlgebraError('unsupported loop condition %s' % unparse(cond))
            hi = Translator().tr(cond.comparators[0]) - Rat.atom(extent)
            if not hi.is_const():
                raise AlgebraError('loop upper bound %s is not extent+const' % unparse(cond.comparators[0]))
            hi = int(hi.const_value()) + (1 if isinstance(cond.ops[0], ast.LtE) else 0)
            lenv = dict(env)
            tr = c_translator(lv, extent, lenv)
            for b in st.body:
                if isinstance(b, CAssign) and isinstance(b.target, ast.Name):
                    tr.env[b.target.id] = tr.tr(b.value) if b.op == '=' else None
                    if tr.env[b.target.id] is None:
                        raise AlgebraError('compound assignment to scalar temporary in loop')
                elif isinstance(b, CAssign) and isinstance(b.target, ast.Subscript):
                    kind, v = _c_index(b.target.slice, lv, extent)
                    if kind != 'rel':
                        raise AlgebraError('loop writes a fixed element %s' % unparse(b.target))
                    expr = shift_atoms(tr.tr(b.value), -v)
                    out.append(Update(tr._basename(b.target.value), lo + v, hi + v, b.op, expr, b.line))
                else:
                    raise AlgebraError('unsupported statement in loop body (line %d)' % getattr(b, 'line', 0))
        elif isinstance(st, CAssign) and isinstance(st.target, ast.Subscript):
            tr = c_translator(None, extent, env)
            kind, v = _c_index(st.target.slice, None, extent)
            out.append(Update('%s[%s]' % (tr._basename(st.target.value), v), None, None, st.op, tr.tr(st.value), st.line))
        elif isinstance(st, CDecl):
            continue
        else:
            raise AlgebraError('unsupported top-level statement (line %d)' % getattr(st, 'line', 0))
    return out


# ---------------------------------------------------------------------------
# numpy slice front end
# ---------------------------------------------------------------------------

def _slice_start(s):
    """start offset of a slice component along the swept axis: [1:] -> 1, [:-1] -> 0, [:] -> 0"""
    if isinstance(s, ast.Slice):
        if s.lower is None or (isinstance(s.lower, ast.Name) and s.lower.id in ('nuax', 'newaxis')) or (isinstance(s.lower, ast.Constant) and s.lower.value is None):
            return 0     # `nuax:-1` is `None:-1`, i.e. `:-1` (numpy.newaxis is None)
        if isinstance(s.lower, ast.Constant) and isinstance(s.lower.value, int) and s.lower.value >= 0:
            return s.lower.value
        raise AlgebraError('unsupported slice start %s' % ast.unparse(s))
    raise AlgebraError('not a slice')


def _slice_len_delta(s):
    """length of the slice relative to the full extent: [1:] -> -1, [:-1] -> -1, [:] -> 0"""
    lo = 0 if s.lower is None else s.lower.value
    hi = 0
    if s.upper is not None:
        if isinstance(s.upper, ast.UnaryOp) and isinstance(s.upper.op, ast.USub) and isinstance(s.upper.operand, ast.Constant):
            hi = -s.upper.operand.value
        elif isinstance(s.upper, ast.Constant) and s.upper.value < 0:
            hi = s.upper.value
        else:
            raise AlgebraError('unsupported slice stop %s' % ast.unparse(s))
    return hi - lo


def swept_component(sub, nuax_names=('nuax', 'numpy.newaxis', 'None')):
    """for a subscript like A[1:], A[:,1:], A[nuax,:-1], A[:-1,nuax,nuax] return (axis position among the non-newaxis
    components, the ast.Slice) of the component that is a proper sub-range, or of the only non-newaxis component"""
    sl = sub.slice
    comps = list(sl.elts) if isinstance(sl, ast.Tuple) else [sl]
    real = [(i, c) for i, c in enumerate(comps) if not (isinstance(c, (ast.Name, ast.Attribute, ast.Constant)) and ast.unparse(c) in nuax_names)]
    proper = [(i, c) for i, c in real if isinstance(c, ast.Slice) and (c.lower is not None or c.upper is not None)]
    if not proper:
        # a component such as `nuax:-1` is a Slice whose lower bound is the newaxis name
        pass
    if len(proper) == 1:
        return proper[0]
    if len(real) == 1 and isinstance(real[0][1], ast.Slice):
        return real[0]
    if not proper and all(isinstance(c, ast.Slice) for _, c in real):
        return None    # full array
    raise AlgebraError('cannot identify the swept component of %s' % ast.unparse(sub))


def py_slice_update(st, arrays, role_of=None):
    """`X[sl] += expr` (AugAssign) or `X[sl] = expr` -> Update.  arrays: set of names that are arrays along the swept axis
    (bare occurrences mean the whole array, i.e. start 0)."""
    target = st.target if isinstance(st, ast.AugAssign) else st.targets[0]
    op = {ast.Add: '+=', ast.Sub: '-='}[type(st.op)] if isinstance(st, ast.AugAssign) else '='
    comp = swept_component(target)
    if comp is None:
        raise AlgebraError('target %s is not a sub-range' % ast.unparse(target))
    axis, tsl = comp
    s0 = _slice_start(tsl)
    ldelta = _slice_len_delta(tsl)
    role = role_of or (lambda n: n)

    def index_hook(tr, e):
        base = tr._basename(e.value)
        c = swept_component(e)
        if c is None:
            return Rat.atom('%s@%d' % (role(base), 0 - s0))
        _, sl = c
        return Rat.atom('%s@%d' % (role(base), _slice_start(sl) - s0))

    def name_hook(name):
        if name in arrays:
            return Rat.atom('%s@%d' % (role(name), 0 - s0))
        return None
    tr = Translator({}, index_hook=index_hook, name_hook=name_hook)
    expr = tr.tr(st.value)
    return Update(role(tr._basename(target.value)), s0, s0 + ldelta, op, expr, st.lineno), axis


def combine(updates):
    """sum the contributions per (array, range) into total expressions: returns dict array -> list of (lo, hi, Rat)"""
    out = {}
    for u in updates:
        out.setdefault(u.array, []).append(u)
    return out
