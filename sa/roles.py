"""Role flow: which inputs a stored value is made of, position by position.

A flow-insensitive may-analysis of one function.  Every value is abstracted to a *shape of role sets*:

    S(roles)            a scalar (or a sequence treated as a whole) computed from sources carrying these roles
    T([v0, v1, ...])    a tuple / list display with one abstract value per position

A *source* is an expression the rule recognises (`gt.count('0')` is the role REF; column 3 of the split line is COL3 ...); roles
travel through arithmetic, calls (union of the arguments' and the receiver's roles), slices, augmented assignments, tuple packing and
unpacking, containers (`d[k] = v` joins v into the element value of d; `d[k]`, `for k, v in d.items()`, `zip(a, b)` read it back) and
conditional expressions.  Joins are position-wise; a tuple joined with a scalar that carries no role (`(0, 0)` initialisers are tuples
of empty scalars, `None`/constants are empty scalars) stays a tuple.

The rules ask for the abstract value stored under a constant key (`snp['segregating'] = ...`, `snp['calls'] = calls`) and compare
the roles position by position: a pair stored in the wrong order has its roles exchanged, a pair mixed up in one of several arms has
both roles in one position.  Because the analysis is flow-insensitive it does not depend on statement order, temporaries, helper
variables or how loops are cut; because it is a may-analysis a position whose roles are exactly the expected singleton received
nothing else on any path."""
import ast


class S:
    def __init__(self, roles=()):
        self.roles = frozenset(roles)

    def __eq__(self, o):
        return isinstance(o, S) and self.roles == o.roles

    def __hash__(self):
        return hash(self.roles)

    def __repr__(self):
        return '{%s}' % ','.join(sorted(self.roles))


class T:
    def __init__(self, items):
        self.items = list(items)

    def __eq__(self, o):
        return isinstance(o, T) and self.items == o.items

    def __hash__(self):
        return hash(tuple(self.items))

    def __repr__(self):
        return '(%s)' % ', '.join(map(repr, self.items))


EMPTY = S()


def flat(v):
    """all roles of a value"""
    if isinstance(v, S):
        return v.roles
    out = frozenset()
    for x in v.items:
        out |= flat(x)
    return out


def join(a, b):
    if a is None:
        return b
    if b is None:
        return a
    if isinstance(a, S) and isinstance(b, S):
        return S(a.roles | b.roles)
    if isinstance(a, T) and isinstance(b, T) and len(a.items) == len(b.items):
        return T([join(x, y) for x, y in zip(a.items, b.items)])
    if isinstance(a, T) and isinstance(b, S) and not b.roles:
        return a
    if isinstance(b, T) and isinstance(a, S) and not a.roles:
        return b
    return S(flat(a) | flat(b))


class RoleFlow:
    def __init__(self, fn, source, seeds=None):
        """source(node, ev) -> iterable of roles, or None when the expression is not a source; ev(node) evaluates a sub-expression"""
        self.fn, self.source = fn, source
        self.env = dict(seeds or {})        # name -> abstract value
        self.elem = {}                      # container name -> abstract element value
        self.keyed = {}                     # (container name, constant key) -> abstract value
        self.links = {}                     # (container name, constant key) -> names of containers stored there
        self.keys = {}                      # container name -> roles of the non-constant keys it is stored under
        self.callargs = {}                  # (called name, position or keyword) -> abstract value handed over
        self.changed = False
        self.local = []                     # stack of name -> value overrides (comprehension items)

    # ---- evaluation -----------------------------------------------------------------------------------------------------
    def ev(self, e):
        if e is None:
            return EMPTY
        r = self.source(e, self.ev)
        if r is not None:
            return r if isinstance(r, (S, T)) else S(r)
        if isinstance(e, ast.Constant):
            return EMPTY
        if isinstance(e, ast.Name):
            for frame in reversed(self.local):
                if e.id in frame:
                    return frame[e.id]
            return self.env.get(e.id, EMPTY)
        if isinstance(e, (ast.Tuple, ast.List)):
            if any(isinstance(x, ast.Starred) for x in e.elts):
                return S(frozenset().union(*[flat(self.ev(x.value if isinstance(x, ast.Starred) else x)) for x in e.elts]))
            return T([self.ev(x) for x in e.elts])
        if isinstance(e, ast.IfExp):
            return join(self.ev(e.body), self.ev(e.orelse))
        if isinstance(e, ast.Subscript):
            base = e.value
            if isinstance(base, ast.Name) and base.id in self.elem and not isinstance(e.slice, ast.Slice):
                key = e.slice.value if isinstance(e.slice, ast.Constant) else None
                if key is not None and (base.id, key) in self.keyed:
                    return self.keyed[(base.id, key)]
                return self.elem[base.id]
            bv = self.ev(base)
            if isinstance(bv, T):
                if isinstance(e.slice, ast.Constant) and isinstance(e.slice.value, int) and -len(bv.items) <= e.slice.value < len(bv.items):
                    return bv.items[e.slice.value]
                return S(flat(bv))
            return bv                        # an element or a slice of a whole: the same roles
        if isinstance(e, ast.Attribute):
            return S(flat(self.ev(e.value)))
        if isinstance(e, ast.Call):
            roles = frozenset()
            if isinstance(e.func, ast.Attribute):
                roles |= flat(self.ev(e.func.value))
            fname = e.func.attr if isinstance(e.func, ast.Attribute) else (e.func.id if isinstance(e.func, ast.Name) else None)
            for k_, a in enumerate(e.args):
                v_ = self.ev(a.value if isinstance(a, ast.Starred) else a)
                roles |= flat(v_)
                if fname:
                    self.put(self.callargs, (fname, k_), v_)
            for k in e.keywords:
                v_ = self.ev(k.value)
                roles |= flat(v_)
                if fname and k.arg:
                    self.put(self.callargs, (fname, k.arg), v_)
            return S(roles)
        if isinstance(e, (ast.ListComp, ast.GeneratorExp)) and len(e.generators) == 1 and not e.generators[0].ifs and isinstance(e.generators[0].target, ast.Name):
            # a map over a sequence whose positions are known keeps the positions
            iv = self.ev(e.generators[0].iter)
            if isinstance(iv, T):
                out = []
                for item in iv.items:
                    self.local.append({e.generators[0].target.id: item})
                    try:
                        out.append(self.ev(e.elt))
                    finally:
                        self.local.pop()
                return T(out)
        if isinstance(e, (ast.ListComp, ast.GeneratorExp, ast.SetComp)):
            for g in e.generators:
                self.bind_iter(g.target, g.iter)
            return S(flat(self.ev(e.elt)))
        if isinstance(e, ast.DictComp):
            for g in e.generators:
                self.bind_iter(g.target, g.iter)
            return S(flat(self.ev(e.value)))
        if isinstance(e, ast.Dict):
            return EMPTY
        roles = frozenset()
        for c in ast.iter_child_nodes(e):
            if isinstance(c, ast.expr):
                roles |= flat(self.ev(c))
        return S(roles)

    # ---- binding --------------------------------------------------------------------------------------------------------
    def put(self, table, key, v):
        old = table.get(key)
        new = join(old, v)
        if new != old:
            table[key] = new
            self.changed = True

    def bind(self, target, v):
        if isinstance(target, ast.Name):
            self.put(self.env, target.id, v)
        elif isinstance(target, (ast.Tuple, ast.List)):
            if isinstance(v, T) and len(v.items) == len(target.elts) and not any(isinstance(x, ast.Starred) for x in target.elts):
                for t, x in zip(target.elts, v.items):
                    self.bind(t, x)
            else:
                for t in target.elts:
                    self.bind(t.value if isinstance(t, ast.Starred) else t, S(flat(v)))
        elif isinstance(target, ast.Subscript):
            base = target.value
            while isinstance(base, ast.Subscript):
                base = base.value
            if isinstance(base, ast.Name):
                self.put(self.elem, base.id, v)
                if target.value is base and isinstance(target.slice, ast.Constant):
                    self.put(self.keyed, (base.id, target.slice.value), v)
                elif target.value is base and not isinstance(target.slice, ast.Slice):
                    self.put(self.keys, base.id, S(flat(self.ev(target.slice))))
        elif isinstance(target, ast.Starred):
            self.bind(target.value, v)

    def element_of(self, it):
        """abstract value of one item of the iterable expression"""
        if isinstance(it, ast.Call):
            f = it.func
            if isinstance(f, ast.Attribute) and f.attr in ('items',) and isinstance(f.value, ast.Name):
                return T([EMPTY, self.elem.get(f.value.id, EMPTY)])
            if isinstance(f, ast.Attribute) and f.attr in ('values',) and isinstance(f.value, ast.Name):
                return self.elem.get(f.value.id, EMPTY)
            if isinstance(f, ast.Name) and f.id == 'zip':
                return T([self.element_of(a) for a in it.args])
            if isinstance(f, ast.Name) and f.id == 'enumerate' and it.args:
                return T([EMPTY, self.element_of(it.args[0])])
            if isinstance(f, ast.Name) and f.id in ('sorted', 'list', 'tuple', 'reversed', 'iter', 'set') and it.args:
                return self.element_of(it.args[0])
        if isinstance(it, ast.Name) and it.id in self.elem:
            return self.elem[it.id]
        v = self.ev(it)
        return S(flat(v)) if isinstance(v, T) else v

    def bind_iter(self, target, it):
        self.bind(target, self.element_of(it))

    # ---- statements -----------------------------------------------------------------------------------------------------
    def run(self, max_rounds=30):
        for _ in range(max_rounds):
            self.changed = False
            self.block(self.fn.body)
            if not self.changed:
                return self
        return self

    def block(self, stmts):
        for st in stmts:
            self.stmt(st)

    def dict_literal(self, name, d):
        """name = {'k': v, ...}: every constant key as a keyed store; a nested dictionary (literal or comprehension) as a container of its
        own, linked under the key"""
        for k, v in zip(d.keys, d.values):
            if not (isinstance(k, ast.Constant)):
                if k is not None:
                    self.put(self.elem, name, self.ev(v))
                    self.put(self.keys, name, S(flat(self.ev(k))))
                continue
            if isinstance(v, (ast.DictComp, ast.Dict)):
                syn = '%s[%r]' % (name, k.value)
                if isinstance(v, ast.DictComp):
                    for g in v.generators:
                        self.bind_iter(g.target, g.iter)
                    self.put(self.elem, syn, self.ev(v.value))
                    self.put(self.keys, syn, S(flat(self.ev(v.key))))
                else:
                    self.dict_literal(syn, v)
                self.links.setdefault((name, k.value), set()).add(syn)
            else:
                self.put(self.keyed, (name, k.value), self.ev(v))
                self.put(self.elem, name, self.ev(v))

    def stmt(self, st):
        if isinstance(st, ast.Assign) and isinstance(st.value, ast.Dict) and len(st.targets) == 1 and isinstance(st.targets[0], ast.Name):
            self.dict_literal(st.targets[0].id, st.value)
            return
        if isinstance(st, ast.Assign) and isinstance(st.value, ast.DictComp) and len(st.targets) == 1 and isinstance(st.targets[0], ast.Name):
            v = st.value
            for g in v.generators:
                self.bind_iter(g.target, g.iter)
            self.put(self.elem, st.targets[0].id, self.ev(v.value))
            self.put(self.keys, st.targets[0].id, S(flat(self.ev(v.key))))
            return
        if isinstance(st, ast.Assign):
            v = self.ev(st.value)
            # a container bound to another name shares its elements
            for t in st.targets:
                self.bind(t, v)
                if isinstance(t, ast.Name) and isinstance(st.value, ast.Name) and st.value.id in self.elem:
                    self.put(self.elem, t.id, self.elem[st.value.id])
                if isinstance(t, ast.Subscript) and isinstance(t.value, ast.Name) and isinstance(t.slice, ast.Constant) and isinstance(st.value, ast.Name):
                    # d[k] = container: remembered by name, its element value is read when the rule asks
                    self.links.setdefault((t.value.id, t.slice.value), set()).add(st.value.id)
        elif isinstance(st, ast.AnnAssign) and st.value is not None:
            self.bind(st.target, self.ev(st.value))
        elif isinstance(st, ast.AugAssign):
            v = self.ev(st.value)
            if isinstance(st.target, ast.Name):
                self.put(self.env, st.target.id, S(flat(v) | flat(self.env.get(st.target.id, EMPTY))) if not isinstance(self.env.get(st.target.id), T) else join(self.env[st.target.id], v))
            else:
                self.bind(st.target, v)
        elif isinstance(st, (ast.For, ast.AsyncFor)):
            self.bind_iter(st.target, st.iter)
            self.block(st.body)
            self.block(st.orelse)
        elif isinstance(st, ast.While):
            self.ev(st.test)
            self.block(st.body)
            self.block(st.orelse)
        elif isinstance(st, ast.If):
            self.ev(st.test)
            self.block(st.body)
            self.block(st.orelse)
        elif isinstance(st, (ast.With, ast.AsyncWith)):
            for it in st.items:
                if it.optional_vars is not None:
                    self.bind(it.optional_vars, self.ev(it.context_expr))
            self.block(st.body)
        elif isinstance(st, ast.Try):
            self.block(st.body)
            for h in st.handlers:
                self.block(h.body)
            self.block(st.orelse)
            self.block(st.finalbody)
        elif isinstance(st, ast.Expr):
            e = st.value
            # container mutators: d.append(v), d.setdefault(k, v), d.update({k: v}), d.extend(..)
            if isinstance(e, ast.Call) and isinstance(e.func, ast.Attribute) and e.func.attr in ('append', 'add', 'extend', 'setdefault', 'insert'):
                base = e.func.value
                while isinstance(base, ast.Subscript):
                    base = base.value
                if isinstance(base, ast.Name) and e.args:
                    v = self.ev(e.args[-1])
                    self.put(self.elem, base.id, v)
            else:
                self.ev(e)
        elif isinstance(st, ast.Return):
            self.put(self.env, '<return>', self.ev(st.value))
        # nested function definitions, imports, pass, break, continue, raise, assert, global: no flow


def stored_under(rf, key):
    """join of everything stored under the constant key in any container of the function"""
    out = None
    for (c, k), v in rf.keyed.items():
        if k == key:
            out = join(out, v)
    return out


def keys_stored_under(rf, key):
    """join of the key roles of the containers stored under the constant key"""
    out = None
    for (c, k), names in rf.links.items():
        if k == key:
            for n in names:
                out = join(out, rf.keys.get(n))
    return out


def elements_stored_under(rf, key):
    """join of the element values of the containers stored under the constant key"""
    out = None
    for (c, k), names in rf.links.items():
        if k == key:
            for n in names:
                out = join(out, rf.elem.get(n))
    return out
