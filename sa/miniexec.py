"""Finite-domain abstract execution of *dispatch* code.

Some obligations are about which implementation a function selects for each combination of a few discrete inputs (the
dimension of phi, whether an option is set, the number of grids).  How the selection is written - an if/elif chain, a table
of functions, a helper that returns the handler - is irrelevant to the property, so the rule must not depend on it.  This
module interprets the function's syntax tree (the program under analysis is never imported or run) over a value domain in
which the discrete inputs are concrete and everything else is an opaque symbol:

  concrete      Python ints / floats / strings / bools / None and tuples, lists, dicts of values
  Sym(text)     an unknown value, printed as the expression that denotes it; optional known length, truth value, attributes
  FuncRef       a function of the analysed program (or a closure); calling it records an event, or is entered when the
                caller asked for that (helpers the confirmed form does not have are always entered)

A test whose truth is unknown forks the execution (both outcomes are explored; the number of paths is bounded); a guard
whose body only raises is assumed not to fire when its truth is unknown (valid input).  Each path ends in
('return', value) / ('raise', exception type) / ('fall',) and carries the list of events: calls to program functions and
symbolic callables with their evaluated arguments, and attribute / item stores on symbols.

Anything outside the supported subset raises Undecidable (an analysis error, never a violation)."""
import ast
import re
from .report import AnalysisError


class Undecidable(AnalysisError):
    pass


class Sym:
    def __init__(self, text, length=None, truth=None, attrs=None, elems=None, struct=None):
        self.text, self.length, self.truth = text, length, truth
        self.attrs = attrs or {}
        self.elems = elems        # optional function index -> value
        # how the value was obtained: ('index', base, key) | ('binop', op, left, right) | ('call', name, args, kwargs) | ('attr', base, name)
        self.struct = struct

    def __repr__(self):
        return self.text


class FuncRef:
    def __init__(self, name, node=None, mod=None, env=None, cls=None):
        self.name, self.node, self.mod, self.env, self.cls = name, node, mod, env, cls

    def __repr__(self):
        return self.name


class BoundCall:
    """a symbolic callable with frozen leading arguments (functools.partial)"""
    def __init__(self, func, args, kwargs):
        self.func, self.args, self.kwargs = func, args, kwargs

    def __repr__(self):
        return 'partial(%s)' % show(self.func)


class Raised(Exception):
    def __init__(self, etype, detail=''):
        self.etype, self.detail = etype, detail


class _Return(Exception):
    def __init__(self, value):
        self.value = value


class _Fork(Exception):
    """raised at an undecided test: the driver restarts the path with the decision recorded"""
    def __init__(self, key):
        self.key = key


class _Break(Exception):
    pass


class _Continue(Exception):
    pass


def show(v):
    if isinstance(v, Sym):
        return v.text
    if isinstance(v, FuncRef):
        return v.name
    if isinstance(v, BoundCall):
        return repr(v)
    if isinstance(v, tuple):
        return '(' + ', '.join(show(x) for x in v) + (',' if len(v) == 1 else '') + ')'
    if isinstance(v, list):
        return '[' + ', '.join(show(x) for x in v) + ']'
    if isinstance(v, dict):
        return '{' + ', '.join('%s: %s' % (show(k), show(x)) for k, x in v.items()) + '}'
    if isinstance(v, slice):
        return 'slice(%s, %s, %s)' % (show(v.start), show(v.stop), show(v.step))
    if v is Ellipsis:
        return '...'
    return repr(v)


def is_concrete(v):
    if isinstance(v, (Sym, FuncRef, BoundCall)):
        return False
    if isinstance(v, (tuple, list)):
        return all(is_concrete(x) for x in v)
    if isinstance(v, dict):
        return all(is_concrete(x) for x in v.values())
    if isinstance(v, slice):
        return all(is_concrete(x) for x in (v.start, v.stop, v.step))
    return True


class Path:
    def __init__(self, decisions):
        self.decisions = list(decisions)     # truth values chosen at undecided tests, in order
        self.cursor = 0
        self.events = []
        self.notes = []
        self.symtab = {}                     # id(dict) -> {text of a symbolic key: value stored under it}


def subst(v, name, new):
    """the value with every leaf symbol called `name` replaced by `new` (structure rebuilt; texts recomputed from the structure)"""
    if isinstance(v, Sym):
        if not v.struct:
            return new if v.text == name else v
        st = v.struct
        kind = st[0]
        if kind == 'binop':
            l, r = subst(st[2], name, new), subst(st[3], name, new)
            if l is st[2] and r is st[3]:
                return v
            if is_concrete(l) and is_concrete(r):
                try:
                    return {'+': lambda: l + r, '-': lambda: l - r, '*': lambda: l * r, '/': lambda: l / r, '**': lambda: l ** r, '//': lambda: l // r, '%': lambda: l % r}[st[1]]()
                except Exception:
                    pass
            return Sym('(%s %s %s)' % (show(l), st[1], show(r)), struct=('binop', st[1], l, r))
        if kind == 'call':
            args = tuple(subst(a, name, new) for a in st[2])
            kws = {k: subst(x, name, new) for k, x in st[3].items()}
            rest = tuple(subst(x, name, new) if isinstance(x, Sym) else x for x in st[4:])
            if all(a is b for a, b in zip(args, st[2])) and all(kws[k] is st[3][k] for k in kws) and all(a is b for a, b in zip(rest, st[4:])):
                return v
            fname = show(rest[0]) if rest and isinstance(rest[0], Sym) and rest[0].struct and rest[0].struct[0] == 'attr' else st[1]
            return Sym('%s(%s)' % (fname, ', '.join([show(a) for a in args] + ['%s=%s' % (k, show(x)) for k, x in kws.items()])), attrs=dict(v.attrs), struct=('call', st[1], args, kws) + rest)
        if kind == 'index':
            b, k = subst(st[1], name, new), subst(st[2], name, new)
            if b is st[1] and k is st[2]:
                return v
            return Sym('%s[%s]' % (show(b), show(k) if not isinstance(k, tuple) else ', '.join(show(x) for x in k)), struct=('index', b, k))
        if kind == 'attr':
            b = subst(st[1], name, new)
            return v if b is st[1] else Sym('%s.%s' % (show(b), st[2]), struct=('attr', b, st[2]))
        if kind == 'compare':
            l, r = subst(st[2], name, new), subst(st[3], name, new)
            return v if (l is st[2] and r is st[3]) else Sym('(%s %s %s)' % (show(l), st[1], show(r)), struct=('compare', st[1], l, r))
        if kind in ('comp', 'dictcomp'):
            parts = tuple(subst(x, name, new) if isinstance(x, Sym) else x for x in st[1:])
            return v if all(a is b for a, b in zip(parts, st[1:])) else Sym(v.text, struct=(kind,) + parts)
        raise Undecidable('substitution into %s' % kind)
    if isinstance(v, tuple):
        out = tuple(subst(x, name, new) for x in v)
        return v if all(a is b for a, b in zip(out, v)) else out
    if isinstance(v, list):
        out = [subst(x, name, new) for x in v]
        return v if all(a is b for a, b in zip(out, v)) else out
    if isinstance(v, slice):
        a, b, c = subst(v.start, name, new), subst(v.stop, name, new), subst(v.step, name, new)
        return v if (a is v.start and b is v.stop and c is v.step) else slice(a, b, c)
    return v


def replace(v, pred, new):
    """the value with every sub-value satisfying pred replaced by `new` (structure rebuilt)"""
    if pred(v):
        return new
    if isinstance(v, Sym) and v.struct:
        st = v.struct
        kind = st[0]
        if kind == 'binop':
            l, r = replace(st[2], pred, new), replace(st[3], pred, new)
            return v if (l is st[2] and r is st[3]) else Sym('(%s %s %s)' % (show(l), st[1], show(r)), struct=('binop', st[1], l, r))
        if kind == 'call':
            args = tuple(replace(a, pred, new) for a in st[2])
            kws = {k: replace(x, pred, new) for k, x in st[3].items()}
            rest = tuple(replace(x, pred, new) if isinstance(x, Sym) else x for x in st[4:])
            if all(a is b for a, b in zip(args, st[2])) and all(kws[k] is st[3][k] for k in kws) and all(a is b for a, b in zip(rest, st[4:])):
                return v
            fname = show(rest[0]) if rest and isinstance(rest[0], Sym) and rest[0].struct and rest[0].struct[0] == 'attr' else st[1]
            return Sym('%s(%s)' % (fname, ', '.join([show(a) for a in args] + ['%s=%s' % (k, show(x)) for k, x in kws.items()])), attrs=dict(v.attrs), struct=('call', st[1], args, kws) + rest)
        if kind == 'index':
            b, k = replace(st[1], pred, new), replace(st[2], pred, new)
            return v if (b is st[1] and k is st[2]) else Sym('%s[%s]' % (show(b), show(k) if not isinstance(k, tuple) else ', '.join(show(x) for x in k)), struct=('index', b, k))
        if kind == 'attr':
            b = replace(st[1], pred, new)
            return v if b is st[1] else Sym('%s.%s' % (show(b), st[2]), struct=('attr', b, st[2]))
        return v
    if isinstance(v, tuple):
        out = tuple(replace(x, pred, new) for x in v)
        return v if all(a is b for a, b in zip(out, v)) else out
    if isinstance(v, list):
        out = [replace(x, pred, new) for x in v]
        return v if all(a is b for a, b in zip(out, v)) else out
    return v


def comp_element(v, index):
    """element number `index` (a value) of a symbolic comprehension over range(lo, ...) with unit step, else None"""
    if isinstance(v, Sym) and v.struct and v.struct[0] == 'comp':
        elt, itv, var = v.struct[1], v.struct[2], v.struct[3]
        c = call_of(itv, 'range')
        if c is not None and not c[1] and len(c[0]) in (1, 2) and re.fullmatch(r'[A-Za-z_]\w*', var or ''):
            lo = c[0][0] if len(c[0]) == 2 else 0
            pos = index if lo == 0 else Sym('(%s + %s)' % (show(index), show(lo)), struct=('binop', '+', index, lo))
            return subst(elt, var, pos), (c[0][-1] if lo == 0 else None)
    return None


class Interp:
    """prog: srcmodel.Program; enter: names of program functions to step into (others are recorded as call events);
    call_hook(name_text, args, kwargs) -> value or NotImplemented, consulted for calls that are not program functions"""

    MAX_PATHS = 256
    MAX_STEPS = 20000

    def __init__(self, prog, mod, enter=(), call_hook=None, attr_hook=None, known_functions=None, symbolic_loops=False, index_hook=None, func_hook=None):
        self.prog, self.mod = prog, mod
        self.index_hook = index_hook      # index_hook(base, key) -> value or NotImplemented, consulted before a subscript is evaluated
        self.symbolic_loops = symbolic_loops      # a loop over an iterable of unknown length is executed once with symbolic targets
        self.enter = set(enter)
        self.call_hook, self.attr_hook = call_hook, attr_hook
        self.array_rows = False         # set by a rule: enumerate over symbolic arrays binds the k-th rows (T[k]) instead of fresh symbols
        self.func_hook = func_hook      # func_hook(name, args, kwargs): the value of a call of a program function that is not entered (the call event is recorded first)
        self.known_functions = known_functions
        self.path = None
        self.steps = 0

    # ---- driver ------------------------------------------------------------------------------------------
    def run(self, fn, args, cls=None, closure_env=None):
        """all paths of fn called with the dict args (parameter -> value); returns [(outcome, events, decisions)]"""
        return self.run_thunk(lambda: self.call_function(fn, dict((k, _fresh(v)) for k, v in args.items()), cls, closure_env), fn.name)

    def run_thunk(self, thunk, label='?'):
        """all paths of thunk() (a computation that uses this interpreter); returns [(outcome, events, decisions)]"""
        results = []
        pending = [[]]
        while pending:
            if len(results) + len(pending) > self.MAX_PATHS:
                raise Undecidable('more than %d paths through %s' % (self.MAX_PATHS, label))
            dec = pending.pop()
            self.path = Path(dec)
            self.steps = 0
            try:
                out = thunk()
                outcome = ('return', out)
            except Raised as r:
                outcome = ('raise', r.etype)
            except _Fork:
                # the undecided test is explored with both outcomes
                pending.append(dec + [True])
                pending.append(dec + [False])
                continue
            results.append((outcome, self.path.events, list(self.path.decisions)))
        return results

    def decide(self, what):
        p = self.path
        if p.cursor < len(p.decisions):
            v = p.decisions[p.cursor]
            p.cursor += 1
            return v
        raise _Fork(what)

    # ---- functions ---------------------------------------------------------------------------------------
    def call_function(self, fn, env, cls=None, closure_env=None):
        frame = Env(env, closure_env)
        frame.cls = cls
        try:
            self.block(fn.body, frame)
        except _Return as r:
            return r.value
        return None

    def bind(self, fn, args, kwargs, skip_first=False):
        a = fn.args
        names = [x.arg for x in a.posonlyargs + a.args]
        if skip_first and names:
            names = names[1:]
        env = {}
        pos = list(args)
        for n in names:
            if pos:
                env[n] = pos.pop(0)
        if pos:
            if a.vararg is None:
                raise Undecidable('too many positional arguments for %s' % fn.name)
        if a.vararg is not None:
            env[a.vararg.arg] = tuple(pos)
        kw = dict(kwargs)
        for n in names + [x.arg for x in a.kwonlyargs]:
            if n in kw:
                env[n] = kw.pop(n)
        if a.kwarg is not None:
            env[a.kwarg.arg] = kw
        elif kw:
            raise Undecidable('unexpected keyword %s for %s' % (sorted(kw), fn.name))
        # defaults (evaluated in an empty frame: the repository's defaults are literals)
        defaults = a.defaults
        all_pos = [x.arg for x in a.posonlyargs + a.args]
        for n, d in zip(all_pos[len(all_pos) - len(defaults):], defaults):
            if n not in env and n in names:
                env[n] = self.ev(d, Env({}, None))
        for x, d in zip(a.kwonlyargs, a.kw_defaults):
            if x.arg not in env and d is not None:
                env[x.arg] = self.ev(d, Env({}, None))
        for n in names:
            if n not in env:
                raise Undecidable('argument %s of %s is not supplied' % (n, fn.name))
        return env

    # ---- statements --------------------------------------------------------------------------------------
    def block(self, stmts, env):
        for st in stmts:
            self.steps += 1
            if self.steps > self.MAX_STEPS:
                raise Undecidable('execution does not terminate within %d steps' % self.MAX_STEPS)
            self.stmt(st, env)

    def only_raises(self, body):
        return all(isinstance(s, ast.Raise) or (isinstance(s, ast.Assign) and isinstance(s.value, (ast.Constant, ast.JoinedStr, ast.BinOp, ast.Call)) and
                                                 any(isinstance(x, ast.Raise) for x in body)) or
                   (isinstance(s, ast.Expr) and isinstance(s.value, ast.Constant)) for s in body) and any(isinstance(s, ast.Raise) for s in body)

    def truth(self, v, what):
        if isinstance(v, Sym):
            if v.truth is not None:
                return v.truth
            if v.length is not None:
                return v.length > 0
            return None
        if isinstance(v, (FuncRef, BoundCall)):
            return True
        return bool(v)

    def stmt(self, st, env):
        if isinstance(st, ast.Expr):
            if isinstance(st.value, ast.Constant):
                return
            self.ev(st.value, env)
            return
        if isinstance(st, ast.Pass):
            return
        if isinstance(st, (ast.Import, ast.ImportFrom)):
            for al in st.names:
                nm = (al.asname or al.name).split('.')[0]
                env.set(nm, Sym(nm))
            return
        if isinstance(st, ast.Assign):
            v = self.ev(st.value, env)
            for t in st.targets:
                self.assign(t, v, env)
            return
        if isinstance(st, ast.AnnAssign):
            if st.value is not None:
                self.assign(st.target, self.ev(st.value, env), env)
            return
        if isinstance(st, ast.AugAssign):
            cur = self.ev(_as_load(st.target), env)
            v = self.binop(st.op, cur, self.ev(st.value, env), st)
            if isinstance(st.target, ast.Name):
                # `row = A[i]; row += x` with A an array of more dimensions than the index consumes: row is a view, the update is in
                # place (recorded as an update of A[i]); otherwise the name is simply re-bound
                if isinstance(cur, Sym) and cur.struct and cur.struct[0] == 'index' and isinstance(cur.struct[1], Sym) and \
                        isinstance(cur.struct[1].attrs.get('__ndim__'), int) and _index_rank(cur.struct[2]) < cur.struct[1].attrs['__ndim__']:
                    self.path.events.append(('augitem', cur.struct[1], cur.struct[2], type(st.op).__name__, self.ev(st.value, env)))
                    return
                env.set(st.target.id, v)
            elif isinstance(st.target, ast.Subscript):
                base = self.ev(st.target.value, env)
                key = self.ev_slice(st.target.slice, env)
                if isinstance(base, (list, dict)) and is_concrete(key) and not isinstance(key, (list, dict)):
                    base[key] = v
                else:
                    self.path.events.append(('augitem', base, key, type(st.op).__name__, self.ev(st.value, env)))
            elif isinstance(st.target, ast.Attribute):
                base = self.ev(st.target.value, env)
                if isinstance(base, Sym):
                    base.attrs[st.target.attr] = v
                self.path.events.append(('setattr', show(base), st.target.attr, v))
            else:
                raise Undecidable('augmented assignment to %s' % ast.unparse(st.target)[:40])
            return
        if isinstance(st, ast.Return):
            raise _Return(None if st.value is None else self.ev(st.value, env))
        if isinstance(st, ast.Raise):
            et = 'Exception'
            if st.exc is not None:
                e = st.exc.func if isinstance(st.exc, ast.Call) else st.exc
                et = ast.unparse(e)
            raise Raised(et)
        if isinstance(st, ast.If):
            v = self.ev(st.test, env)
            t = self.truth(v, st.test)
            if t is None:
                if self.only_raises(st.body) and not st.orelse:
                    return            # a validity guard on an unknown value: valid input is assumed
                t = self.decide(ast.unparse(st.test))
                self.path.notes.append('%s := %s' % (ast.unparse(st.test)[:60], t))
            self.block(st.body if t else st.orelse, env)
            return
        if isinstance(st, ast.For):
            itv = self.ev(st.iter, env)
            try:
                it = self.iterate(itv, st.iter)
            except Undecidable:
                if not self.symbolic_loops:
                    raise
                # one symbolic iteration: every name of the target denotes "the value in an arbitrary iteration"
                en = call_of(itv, 'enumerate') if isinstance(itv, Sym) else None
                if en is not None and len(en[0]) == 1 and not en[1] and isinstance(st.target, ast.Tuple) and len(st.target.elts) == 2 and isinstance(st.target.elts[0], ast.Name):
                    # for k, x in enumerate([f(i) for i in range(n)]):  x is f(k), k runs over range(n)
                    idx = Sym(st.target.elts[0].id)
                    ce = comp_element(en[0][0], idx)
                    if ce is not None and ce[1] is not None:
                        self.path.events.append(('loop', 'range(%s)' % show(ce[1]), st.target.elts[0].id, Sym('range(%s)' % show(ce[1]), struct=('call', 'range', (ce[1],), {}))))
                        env.set(st.target.elts[0].id, idx)
                        self.assign(st.target.elts[1], ce[0], env)
                        try:
                            self.block(st.body, env)
                        except (_Break, _Continue):
                            pass
                        return
                if self.array_rows and en is not None and len(en[0]) == 1 and not en[1] and isinstance(st.target, ast.Tuple) and len(st.target.elts) == 2 and isinstance(st.target.elts[0], ast.Name):
                    # (opt-in) for k, row in enumerate(T) / for k, (a, b) in enumerate(zip(A, B)) over arrays of unknown length: the k-th rows
                    X = en[0][0]
                    zc = call_of(X, 'zip') if isinstance(X, Sym) else None
                    srcs = list(zc[0]) if zc is not None and not zc[1] else ([X] if isinstance(X, Sym) and not (X.struct and X.struct[0] == 'comp') else None)
                    if srcs and all(isinstance(a_, Sym) for a_ in srcs):
                        idx = Sym(st.target.elts[0].id)
                        rows = [self.index(a_, idx, None) for a_ in srcs]
                        self.path.events.append(('loop', 'rows of %s' % ', '.join(show(a_) for a_ in srcs), st.target.elts[0].id,
                                                 Sym('rows(%s)' % show(srcs[0]), struct=('call', 'rows', tuple(srcs), {}))))
                        env.set(st.target.elts[0].id, idx)
                        self.assign(st.target.elts[1], tuple(rows) if zc is not None else rows[0], env)
                        try:
                            self.block(st.body, env)
                        except (_Break, _Continue):
                            pass
                        return
                if self.array_rows and isinstance(itv, Sym):
                    # (opt-in) for (a, b) in zip(A, B) / for x in A over arrays of unknown length: the rows A[k], B[k] of one fresh position k
                    zc = call_of(itv, 'zip')
                    srcs = list(zc[0]) if zc is not None and not zc[1] else ([itv] if not (itv.struct and itv.struct[0] == 'comp') and call_of(itv, 'enumerate') is None and
                                                                             call_of(itv, 'range') is None and call_of(itv, 'ndindex') is None and not itv.attrs.get('__item_length__') else None)
                    if srcs and all(isinstance(a_, Sym) for a_ in srcs) and (zc is None or (isinstance(st.target, ast.Tuple) and len(st.target.elts) == len(srcs))):
                        self._row_counter = getattr(self, '_row_counter', 0) + 1
                        idx = Sym('_k%d' % self._row_counter)
                        rows = [self.index(a_, idx, None) for a_ in srcs]
                        self.path.events.append(('loop', 'rows of %s' % ', '.join(show(a_) for a_ in srcs), idx.text, Sym('rows(%s)' % show(srcs[0]), struct=('call', 'rows', tuple(srcs), {}))))
                        self.assign(st.target, tuple(rows) if zc is not None else rows[0], env)
                        try:
                            self.block(st.body, env)
                        except (_Break, _Continue):
                            pass
                        return
                self.path.events.append(('loop', show(itv), ast.unparse(st.target), itv))
                item_len = itv.attrs.get('__item_length__') if isinstance(itv, Sym) else None
                for nm in ast.walk(st.target):
                    if isinstance(nm, ast.Name):
                        env.set(nm.id, Sym(nm.id, length=item_len if nm is st.target else None))
                try:
                    self.block(st.body, env)
                except (_Break, _Continue):
                    pass
                return
            broke = False
            for x in it:
                self.assign(st.target, x, env)
                try:
                    self.block(st.body, env)
                except _Break:
                    broke = True
                    break
                except _Continue:
                    continue
            if not broke:
                self.block(st.orelse, env)
            return
        if isinstance(st, ast.While):
            n = 0
            while True:
                t = self.truth(self.ev(st.test, env), st.test)
                if t is None:
                    raise Undecidable('loop condition %s is not decided' % ast.unparse(st.test)[:60])
                if not t:
                    break
                n += 1
                if n > 200:
                    raise Undecidable('loop %s does not terminate' % ast.unparse(st.test)[:60])
                try:
                    self.block(st.body, env)
                except _Break:
                    break
                except _Continue:
                    continue
            return
        if isinstance(st, ast.Break):
            raise _Break()
        if isinstance(st, ast.Continue):
            raise _Continue()
        if isinstance(st, ast.Delete):
            for t in st.targets:
                if isinstance(t, ast.Name):
                    env.delete(t.id)
                elif isinstance(t, ast.Subscript):
                    c = self.ev(t.value, env)
                    k = self.ev(t.slice, env)
                    if isinstance(c, (dict, list)) and is_concrete(k):
                        try:
                            del c[k]
                        except (KeyError, IndexError):
                            raise Raised('KeyError')
                    else:
                        raise Undecidable('del %s' % ast.unparse(t))
                else:
                    raise Undecidable('del %s' % ast.unparse(t))
            return
        if isinstance(st, ast.Assert):
            return
        if isinstance(st, (ast.FunctionDef, ast.AsyncFunctionDef)):
            env.set(st.name, FuncRef(st.name, node=st, mod=self.mod, env=env, cls=getattr(env, 'cls', None)))
            return
        if isinstance(st, ast.Try):
            try:
                self.block(st.body, env)
            except Raised as r:
                for h in st.handlers:
                    names = [] if h.type is None else [ast.unparse(x) for x in (h.type.elts if isinstance(h.type, ast.Tuple) else [h.type])]
                    if h.type is None or r.etype in names or 'Exception' in names or 'BaseException' in names:
                        if h.name:
                            env.set(h.name, Sym(h.name))
                        self.block(h.body, env)
                        break
                else:
                    self.block(st.finalbody, env)
                    raise
            else:
                self.block(st.orelse, env)
            self.block(st.finalbody, env)
            return
        if isinstance(st, ast.With):
            for it in st.items:
                v = self.ev(it.context_expr, env)
                if it.optional_vars is not None:
                    self.assign(it.optional_vars, Sym(ast.unparse(it.optional_vars)), env)
            self.block(st.body, env)
            return
        if isinstance(st, (ast.Global, ast.Nonlocal)):
            return
        raise Undecidable('statement %s is outside the interpreted subset' % ast.unparse(st)[:60])

    def assign(self, t, v, env):
        if isinstance(t, ast.Name):
            env.set(t.id, v)
            return
        if isinstance(t, (ast.Tuple, ast.List)):
            if isinstance(v, Sym) and v.length is None and not any(isinstance(e, ast.Starred) for e in t.elts):
                # an opaque value unpacked into k targets: its k components
                vals = [self.index(v, i, None) for i in range(len(t.elts))]
            else:
                vals = self.iterate(v, t)
            star = [i for i, e in enumerate(t.elts) if isinstance(e, ast.Starred)]
            if star:
                i = star[0]
                after = len(t.elts) - i - 1
                self_vals = list(vals)
                if len(self_vals) < len(t.elts) - 1:
                    raise Raised('ValueError')
                for e, x in zip(t.elts[:i], self_vals[:i]):
                    self.assign(e, x, env)
                self.assign(t.elts[i].value, list(self_vals[i:len(self_vals) - after]), env)
                for e, x in zip(t.elts[i + 1:], self_vals[len(self_vals) - after:]):
                    self.assign(e, x, env)
                return
            vals = list(vals)
            if len(vals) != len(t.elts):
                raise Raised('ValueError')
            for e, x in zip(t.elts, vals):
                self.assign(e, x, env)
            return
        if isinstance(t, ast.Attribute):
            base = self.ev(t.value, env)
            if isinstance(base, Sym):
                base.attrs[t.attr] = v
            self.path.events.append(('setattr', show(base), t.attr, v))
            return
        if isinstance(t, ast.Subscript):
            base = self.ev(t.value, env)
            k = self.ev(t.slice, env)
            if isinstance(base, (dict, list)) and is_concrete(k) and not isinstance(k, (list, dict)):
                try:
                    base[k] = v
                except (IndexError, TypeError):
                    raise Raised('IndexError')
                return
            self.path.events.append(('setitem', show(base), k, v, base))
            if isinstance(base, dict):
                # a table filled under a symbolic key ("for every i: d[n, i] = f(i)"): a later lookup under the same key expression
                # reads f at that key
                self.path.symtab.setdefault(id(base), {})[show(k)] = v
            return
        raise Undecidable('assignment to %s' % ast.unparse(t)[:50])

    def iterate(self, v, node):
        if isinstance(v, (tuple, list)):
            return list(v)
        if isinstance(v, dict):
            return list(v.keys())
        if isinstance(v, range):
            return list(v)
        if isinstance(v, str):
            return list(v)
        if isinstance(v, Sym) and v.length is not None:
            return [self.index(v, i, None) for i in range(v.length)]
        raise Undecidable('iteration over %s, whose length is not known' % (ast.unparse(node)[:50] if isinstance(node, ast.AST) else show(v)))

    # ---- expressions -------------------------------------------------------------------------------------
    def index(self, base, k, node):
        if self.index_hook is not None:
            r = self.index_hook(base, k)
            if r is not NotImplemented:
                return r
        if isinstance(base, Sym):
            if isinstance(k, slice):
                if base.length is not None and all(isinstance(x, (int, type(None))) for x in (k.start, k.stop, k.step)):
                    return [self.index(base, i, None) for i in range(base.length)[k]]
                return Sym('%s[%s:%s]' % (base.text, '' if k.start is None else show(k.start), '' if k.stop is None else show(k.stop)), struct=('index', base, k))
            if isinstance(k, int) and base.length is not None:
                if not -base.length <= k < base.length:
                    raise Raised('IndexError')
                if k < 0:
                    k += base.length
            if base.elems is not None and isinstance(k, int):
                return base.elems(k)
            return Sym('%s[%s]' % (base.text, show(k) if not isinstance(k, tuple) else ', '.join(show(x) for x in k)), struct=('index', base, k))
        if isinstance(base, (tuple, list, str)):
            if isinstance(k, (int, slice)) and not isinstance(k, bool) and is_concrete(k):
                try:
                    return base[k]
                except IndexError:
                    raise Raised('IndexError')
            if isinstance(k, (Sym, slice)):
                return Sym('%s[%s]' % (show(base), show(k)), struct=('index', base, k))
            raise Raised('TypeError')
        if isinstance(base, dict):
            if is_concrete(k) and not isinstance(k, (list, dict)):
                if k in base or getattr(base, 'default_factory', None) is not None:      # collections.defaultdict creates the entry
                    return base[k]
                raise Raised('KeyError')
            ent = self.path.symtab.get(id(base), {})
            if show(k) in ent:
                return ent[show(k)]
            return Sym('%s[%s]' % (show(base), show(k)))
        if isinstance(base, range):
            return base[k]
        raise Undecidable('subscript of %s' % show(base)[:50])

    def binop(self, op, l, r, node):
        if is_concrete(l) and is_concrete(r):
            try:
                if isinstance(op, ast.Add):
                    return l + r
                if isinstance(op, ast.Sub):
                    return l - r
                if isinstance(op, ast.Mult):
                    return l * r
                if isinstance(op, ast.Div):
                    return l / r
                if isinstance(op, ast.FloorDiv):
                    return l // r
                if isinstance(op, ast.Mod):
                    return l % r
                if isinstance(op, ast.Pow):
                    return l ** r
            except ZeroDivisionError:
                raise Raised('ZeroDivisionError')
            except TypeError:
                raise Raised('TypeError')
        # sequences with symbolic elements
        if isinstance(op, ast.Add) and isinstance(l, tuple) and isinstance(r, tuple):
            return l + r
        if isinstance(op, ast.Add) and isinstance(l, list) and isinstance(r, list):
            return l + r
        if isinstance(op, ast.Mult) and isinstance(l, (tuple, list)) and isinstance(r, int):
            return l * r
        if isinstance(op, ast.Mult) and isinstance(r, (tuple, list)) and isinstance(l, int):
            return r * l
        sym = {ast.Add: '+', ast.Sub: '-', ast.Mult: '*', ast.Div: '/', ast.FloorDiv: '//', ast.Mod: '%', ast.Pow: '**', ast.MatMult: '@',
               ast.BitAnd: '&', ast.BitOr: '|', ast.BitXor: '^', ast.LShift: '<<', ast.RShift: '>>'}[type(op)]
        return Sym('(%s %s %s)' % (show(l), sym, show(r)), struct=('binop', sym, l, r))

    def compare(self, op, l, r):
        if isinstance(op, (ast.Is, ast.IsNot)):
            if r is None or l is None:
                other = l if r is None else r
                if isinstance(other, Sym):
                    res = False if other.truth is not None or other.length is not None or other.attrs.get('__notnone__', True) else None
                else:
                    res = other is None
                return res if isinstance(op, ast.Is) else (None if res is None else not res)
            if is_concrete(l) and is_concrete(r):
                res = l is r or (isinstance(l, (bool, int, str)) and type(l) is type(r) and l == r)
                return res if isinstance(op, ast.Is) else not res
            return None
        if isinstance(op, (ast.In, ast.NotIn)):
            if isinstance(r, (tuple, list, dict, str, range)) and is_concrete(l) and (isinstance(r, (dict, str, range)) or is_concrete(r)):
                try:
                    res = l in r
                except TypeError:
                    raise Raised('TypeError')
                return res if isinstance(op, ast.In) else not res
            return None
        if isinstance(op, (ast.Eq, ast.NotEq)) and isinstance(l, Sym) and isinstance(r, Sym) and (l.attrs.get('__type__') or r.attrs.get('__type__')) and \
                l.text in _TYPE_NAMES and r.text in _TYPE_NAMES:
            # type(x) == list
            return (l.text == r.text) if isinstance(op, ast.Eq) else (l.text != r.text)
        if is_concrete(l) and is_concrete(r):
            try:
                res = {ast.Eq: lambda: l == r, ast.NotEq: lambda: l != r, ast.Lt: lambda: l < r, ast.LtE: lambda: l <= r,
                       ast.Gt: lambda: l > r, ast.GtE: lambda: l >= r}[type(op)]()
            except TypeError:
                raise Raised('TypeError')
            return res
        return None

    def ev(self, e, env):
        if isinstance(e, ast.Constant):
            return e.value
        if isinstance(e, ast.Name):
            return self.name(e.id, env)
        if isinstance(e, ast.Tuple):
            return tuple(self.elements(e.elts, env))
        if isinstance(e, ast.List):
            return list(self.elements(e.elts, env))
        if isinstance(e, ast.Set):
            return tuple(self.elements(e.elts, env))
        if isinstance(e, ast.Dict):
            d = {}
            for k, v in zip(e.keys, e.values):
                if k is None:
                    x = self.ev(v, env)
                    if not isinstance(x, dict):
                        raise Undecidable('**%s' % ast.unparse(v)[:40])
                    d.update(x)
                else:
                    kk = self.ev(k, env)
                    if not is_concrete(kk):
                        raise Undecidable('dictionary key %s' % ast.unparse(k)[:40])
                    d[kk] = self.ev(v, env)
            return d
        if isinstance(e, ast.Attribute):
            base = self.ev(e.value, env)
            return self.attribute(base, e.attr, e)
        if isinstance(e, ast.Subscript):
            base = self.ev(e.value, env)
            k = self.ev_slice(e.slice, env)
            return self.index(base, k, e)
        if isinstance(e, ast.Slice):
            return self.ev_slice(e, env)
        if isinstance(e, ast.BoolOp):
            last = None
            unknown = []
            for v in e.values:
                last = self.ev(v, env)
                t = self.truth(last, v)
                if t is None:
                    unknown.append(last)
                    continue
                if isinstance(e.op, ast.And) and not t:
                    return last if not unknown else False
                if isinstance(e.op, ast.Or) and t:
                    return last if not unknown else _true_or_unknown(unknown, last)
            if unknown:
                return Sym('(%s)' % (' and ' if isinstance(e.op, ast.And) else ' or ').join(show(u) for u in unknown))
            return last
        if isinstance(e, ast.UnaryOp):
            v = self.ev(e.operand, env)
            if isinstance(e.op, ast.Not):
                t = self.truth(v, e.operand)
                return Sym('(not %s)' % show(v)) if t is None else (not t)
            if is_concrete(v):
                try:
                    return -v if isinstance(e.op, ast.USub) else +v if isinstance(e.op, ast.UAdd) else ~v
                except TypeError:
                    raise Raised('TypeError')
            return Sym('(-%s)' % show(v), struct=('binop', '-', 0, v)) if isinstance(e.op, ast.USub) else Sym('(+%s)' % show(v))
        if isinstance(e, ast.BinOp):
            return self.binop(e.op, self.ev(e.left, env), self.ev(e.right, env), e)
        if isinstance(e, ast.Compare):
            l = self.ev(e.left, env)
            l0 = l
            result = True
            texts = [show(l)]
            unknown = False
            for op, c in zip(e.ops, e.comparators):
                r = self.ev(c, env)
                res = self.compare(op, l, r)
                texts.append(show(r))
                if res is None:
                    unknown = True
                elif not res:
                    return False
                l = r
            if unknown:
                syms = {ast.Eq: '==', ast.NotEq: '!=', ast.Lt: '<', ast.LtE: '<=', ast.Gt: '>', ast.GtE: '>=', ast.Is: 'is', ast.IsNot: 'is not', ast.In: 'in', ast.NotIn: 'not in'}
                out = texts[0]
                for op, t_ in zip(e.ops, texts[1:]):
                    out += ' %s %s' % (syms[type(op)], t_)
                if len(e.ops) == 1:
                    return Sym('(%s)' % out, struct=('compare', syms[type(e.ops[0])], l0, r))
                return Sym('(%s)' % out)
            return result
        if isinstance(e, ast.IfExp):
            t = self.truth(self.ev(e.test, env), e.test)
            if t is None:
                t = self.decide(ast.unparse(e.test))
            return self.ev(e.body if t else e.orelse, env)
        if isinstance(e, ast.Call):
            return self.call(e, env)
        if isinstance(e, (ast.ListComp, ast.GeneratorExp, ast.SetComp)):
            out = []
            try:
                self.comprehension(e.generators, 0, env, lambda env2: out.append(self.ev(e.elt, env2)))
            except Undecidable:
                if not (self.symbolic_loops and len(e.generators) == 1 and not e.generators[0].ifs):
                    raise
                # an iterable of unknown length: the comprehension as a symbol that records its element for symbolic targets
                g = e.generators[0]
                itv = self.ev(g.iter, env)
                env2 = Env({}, env)
                for nm in ast.walk(g.target):
                    if isinstance(nm, ast.Name):
                        env2.set(nm.id, Sym(nm.id, attrs={'__notnone__': False}))      # an element of an unknown iterable may be None
                elt = self.ev(e.elt, env2)
                return Sym('[%s for %s in %s]' % (show(elt), ast.unparse(g.target), show(itv)), struct=('comp', elt, itv, ast.unparse(g.target)))
            return out
        if isinstance(e, ast.DictComp):
            out = {}

            def put(env2):
                k = self.ev(e.key, env2)
                if not is_concrete(k):
                    raise Undecidable('dictionary key %s' % ast.unparse(e.key)[:40])
                out[k] = self.ev(e.value, env2)
            try:
                self.comprehension(e.generators, 0, env, put)
            except Undecidable:
                if not (self.symbolic_loops and len(e.generators) == 1 and not e.generators[0].ifs):
                    raise
                g = e.generators[0]
                itv = self.ev(g.iter, env)
                env2 = Env({}, env)
                for nm in ast.walk(g.target):
                    if isinstance(nm, ast.Name):
                        env2.set(nm.id, Sym(nm.id, attrs={'__notnone__': False}))      # an element of an unknown iterable may be None
                k, v = self.ev(e.key, env2), self.ev(e.value, env2)
                return Sym('{%s: %s for %s in %s}' % (show(k), show(v), ast.unparse(g.target), show(itv)), struct=('dictcomp', k, v, itv, ast.unparse(g.target)))
            return out
        if isinstance(e, ast.JoinedStr):
            parts = []
            for v in e.values:
                if isinstance(v, ast.Constant) and isinstance(v.value, str):
                    parts.append(v.value)
                elif isinstance(v, ast.FormattedValue) and v.conversion == -1 and v.format_spec is None:
                    x = self.ev(v.value, env)
                    if isinstance(x, (int, str)) and not isinstance(x, bool):
                        parts.append(str(x))
                    else:
                        return Sym('f-string', truth=True)
                else:
                    return Sym('f-string', truth=True)
            return ''.join(parts)
        if isinstance(e, ast.Lambda):
            fn = ast.FunctionDef(name='<lambda>', args=e.args, body=[ast.Return(value=e.body)], decorator_list=[])
            return FuncRef('<lambda>', node=fn, mod=self.mod, env=env)
        if isinstance(e, ast.Starred):
            raise Undecidable('starred expression %s' % ast.unparse(e)[:40])
        if isinstance(e, ast.NamedExpr):
            v = self.ev(e.value, env)
            env.set(e.target.id, v)
            return v
        raise Undecidable('expression %s is outside the interpreted subset' % ast.unparse(e)[:60])

    def ev_slice(self, s, env):
        if isinstance(s, ast.Slice):
            parts = [None if x is None else self.ev(x, env) for x in (s.lower, s.upper, s.step)]
            if all(p is None or isinstance(p, int) for p in parts):
                return slice(*parts)
            return Sym('%s:%s' % tuple('' if p is None else show(p) for p in parts[:2]))
        return self.ev(s, env)

    def elements(self, elts, env):
        out = []
        for x in elts:
            if isinstance(x, ast.Starred):
                out.extend(self.iterate(self.ev(x.value, env), x.value))
            else:
                out.append(self.ev(x, env))
        return out

    def comprehension(self, gens, i, env, emit):
        if i == len(gens):
            emit(env)
            return
        g = gens[i]
        for x in self.iterate(self.ev(g.iter, env), g.iter):
            env2 = Env({}, env)
            self.assign(g.target, x, env2)
            ok = True
            for c in g.ifs:
                t = self.truth(self.ev(c, env2), c)
                if t is None:
                    raise Undecidable('comprehension filter %s' % ast.unparse(c)[:40])
                if not t:
                    ok = False
                    break
            if ok:
                self.comprehension(gens, i + 1, env2, emit)

    def name(self, nm, env):
        found, v = env.get(nm)
        if found:
            return v
        # module level: functions and classes of the analysed module
        ref = self.lookup_global(nm)
        if ref is not None:
            return ref
        if nm in ('True', 'False', 'None'):
            return {'True': True, 'False': False, 'None': None}[nm]
        return Sym(nm, truth=True if nm in _BUILTIN_FUNCS else None)

    def lookup_global(self, nm):
        m = self.mod
        f = m.funcs.get(nm)
        if f is not None:
            return FuncRef(nm, node=f, mod=m)
        cl = m.classes.get(nm)
        if cl is not None:
            return Sym(nm, truth=True, attrs={'__class__': cl})
        return self.module_constant(nm)

    _MUTATING = ('append', 'extend', 'insert', 'pop', 'remove', 'clear', 'sort', 'reverse', 'update', 'setdefault', 'popitem', 'add', 'discard')

    def module_constant(self, nm):
        """a module-level table: a name bound once, at module level, to a non-empty display (tuple / list / dict) that no statement of the
        module stores into or mutates through a method; evaluated in module scope.  A fresh copy for every use."""
        cache = self.__dict__.setdefault('_modconst', {})
        if nm not in cache:
            cache[nm] = None
            vals = self.mod.toplevel.get(nm) or []
            if len(vals) == 1 and isinstance(vals[0], (ast.Tuple, ast.List, ast.Dict)) and (getattr(vals[0], 'elts', None) or getattr(vals[0], 'keys', None)):
                ok = True
                for n in ast.walk(self.mod.tree):
                    if isinstance(n, ast.Subscript) and isinstance(n.ctx, (ast.Store, ast.Del)) and isinstance(n.value, ast.Name) and n.value.id == nm:
                        ok = False
                    elif isinstance(n, ast.Call) and isinstance(n.func, ast.Attribute) and isinstance(n.func.value, ast.Name) and n.func.value.id == nm and n.func.attr in self._MUTATING:
                        ok = False
                    elif isinstance(n, ast.Global) and nm in n.names:
                        ok = False
                    elif isinstance(n, ast.AugAssign) and isinstance(n.target, ast.Name) and n.target.id == nm:
                        ok = False
                if ok:
                    cache[nm] = vals[0]
        node = cache[nm]
        if node is None:
            return None
        try:
            return self.ev(node, Env({}, None))
        except Undecidable:
            return None

    def attribute(self, base, attr, node):
        if self.attr_hook is not None:
            r = self.attr_hook(base, attr)
            if r is not NotImplemented:
                return r
        if isinstance(base, Sym):
            if attr in base.attrs:
                return base.attrs[attr]
            cl = base.attrs.get('__class__')
            if cl is not None:
                for st in cl.body:
                    if isinstance(st, (ast.FunctionDef, ast.AsyncFunctionDef)) and st.name == attr:
                        return FuncRef('%s.%s' % (cl.name, attr), node=st, mod=self.mod, cls=cl)
                return Sym('%s.%s' % (base.text, attr), struct=('attr', base, attr))
            return Sym('%s.%s' % (base.text, attr), struct=('attr', base, attr))
        if isinstance(base, dict) and attr in ('pop', 'get', 'items', 'keys', 'values', 'setdefault', 'update', 'copy'):
            return _Method(base, attr)
        if isinstance(base, list) and attr in ('append', 'extend', 'index', 'pop', 'insert', 'copy', 'count', 'reverse', 'sort', 'remove', 'clear'):
            return _Method(base, attr)
        if isinstance(base, tuple) and attr in ('index', 'count'):
            return _Method(base, attr)
        if isinstance(base, str):
            return _Method(base, attr)
        if isinstance(base, FuncRef):
            return Sym('%s.%s' % (base.name, attr))
        raise Undecidable('attribute %s of %s' % (attr, show(base)[:40]))

    def call(self, e, env):
        f = self.ev(e.func, env)
        args = self.elements(e.args, env)
        kwargs = {}
        for k in e.keywords:
            v = self.ev(k.value, env)
            if k.arg is None:
                if not isinstance(v, dict):
                    raise Undecidable('**%s' % ast.unparse(k.value)[:40])
                kwargs.update(v)
            else:
                kwargs[k.arg] = v
        return self.apply(f, args, kwargs, e)

    def apply(self, f, args, kwargs, node=None):
        if isinstance(f, _Method):
            return f(self, args, kwargs)
        if isinstance(f, BoundCall):
            return self.apply(f.func, list(f.args) + list(args), dict(f.kwargs, **kwargs), node)
        if isinstance(f, FuncRef):
            known = self.known_functions
            is_new = known is not None and f.node is not None and f.env is None and f.name not in known
            if f.node is not None and (f.name in self.enter or f.env is not None or is_new):
                bound = self.bind(f.node, args, kwargs, skip_first=False)
                return self.call_function(f.node, bound, f.cls, f.env)
            self.path.events.append(('call', f.name, tuple(args), dict(kwargs)))
            if self.func_hook is not None:
                r = self.func_hook(f.name, args, kwargs)
                if r is not NotImplemented:
                    return r
            return Sym('%s(%s)' % (f.name, ', '.join([show(a) for a in args] + ['%s=%s' % (k, show(v)) for k, v in kwargs.items()])), struct=('call', f.name, tuple(args), dict(kwargs)))
        if isinstance(f, Sym):
            nm = f.text
            if self.call_hook is not None:
                r = self.call_hook(nm, args, kwargs)
                if r is not NotImplemented:
                    return r
            if nm in _BUILTIN_FUNCS:
                return _BUILTIN_FUNCS[nm](self, args, kwargs)
            if nm == 'functools.partial' and args:
                return BoundCall(args[0], args[1:], kwargs)
            if nm.split('.')[-1] in ('zeros', 'empty', 'ones', 'full') and nm.split('.')[0] in ('numpy', 'np') and (args or 'shape' in kwargs):
                shp = kwargs.get('shape', args[0] if args else None)
                self.path.events.append(('call', nm, tuple(args), dict(kwargs)))
                nd_ = len(shp) if isinstance(shp, (tuple, list)) else (1 if isinstance(shp, (int, Sym)) and not (isinstance(shp, Sym) and shp.length) else (shp.length if isinstance(shp, Sym) else None))
                return Sym('%s(%s)' % (nm, ', '.join([show(a) for a in args] + ['%s=%s' % (k, show(v)) for k, v in kwargs.items()])), attrs={'__ndim__': nd_},
                           struct=('call', nm, tuple(args), dict(kwargs), f))
            if nm in ('itertools.product', 'itertools.combinations', 'itertools.combinations_with_replacement', 'itertools.permutations', 'itertools.chain') and \
                    all(isinstance(a, (list, tuple, range, int)) for a in args) and all(isinstance(v_, int) for v_ in kwargs.values()):
                import itertools as _it
                try:
                    return [tuple(x) if isinstance(x, tuple) else x for x in getattr(_it, nm.split('.')[1])(*args, **kwargs)]
                except TypeError:
                    raise Raised('TypeError')
            if nm == 'itertools.count' and len(args) <= 2 and all(isinstance(a, int) for a in args):
                return _Counter(*(list(args) + [0, 1][len(args):]))
            if nm in _OPERATOR and len(args) == 2 and not kwargs:
                return self.binop(_OPERATOR[nm](), args[0], args[1], node)
            if nm in ('functools.reduce', 'reduce') and len(args) in (2, 3) and not kwargs:
                seq = self.iterate(args[1], None)
                if len(args) == 3:
                    seq = [args[2]] + seq
                if not seq:
                    raise Raised('TypeError')
                acc = seq[0]
                for x in seq[1:]:
                    acc = self.apply(args[0], [acc, x], {}, node)
                return acc
            self.path.events.append(('call', nm, tuple(args), dict(kwargs)))
            return Sym('%s(%s)' % (nm, ', '.join([show(a) for a in args] + ['%s=%s' % (k, show(v)) for k, v in kwargs.items()])), struct=('call', nm, tuple(args), dict(kwargs), f))
        raise Raised('TypeError')


def _fresh(v):
    """symbols carry mutable attribute tables: every path starts from a copy"""
    if isinstance(v, Sym):
        return Sym(v.text, v.length, v.truth, dict(v.attrs), v.elems)
    if isinstance(v, list):
        return [_fresh(x) for x in v]
    if isinstance(v, tuple):
        return tuple(_fresh(x) for x in v)
    if isinstance(v, dict):
        return {k: _fresh(x) for k, x in v.items()}
    return v


def _index_rank(key):
    """number of axes an index consumes (integers and symbols; slices and new axes consume none)"""
    key = key if isinstance(key, tuple) else (key,)
    return sum(1 for k in key if not isinstance(k, slice) and k is not None and k is not Ellipsis and not (isinstance(k, Sym) and k.text.endswith('newaxis')))


def _true_or_unknown(unknown, last):
    return Sym('(%s)' % ' or '.join(show(u) for u in unknown + [last]), truth=True)


def _as_load(t):
    from .srcmodel import clone
    n = clone(t)
    for x in ast.walk(n):
        if hasattr(x, 'ctx'):
            x.ctx = ast.Load()
    return n


class Env:
    def __init__(self, vars_, parent):
        self.vars, self.parent = vars_, parent
        self.cls = None

    def get(self, nm):
        e = self
        while e is not None:
            if nm in e.vars:
                return True, e.vars[nm]
            e = e.parent
        return False, None

    def set(self, nm, v):
        self.vars[nm] = v

    def delete(self, nm):
        self.vars.pop(nm, None)


class _Counter:
    """itertools.count(start, step)"""
    def __init__(self, start=0, step=1):
        self.value, self.step = start, step

    def take(self):
        v = self.value
        self.value += self.step
        return v


class _Method:
    def __init__(self, obj, name):
        self.obj, self.name = obj, name

    def __call__(self, it, args, kwargs):
        o, n = self.obj, self.name
        if isinstance(o, dict):
            if n == 'pop':
                if not is_concrete(args[0]):
                    raise Undecidable('dict.pop of a symbolic key')
                if args[0] in o:
                    return o.pop(args[0])
                if len(args) > 1:
                    return args[1]
                raise Raised('KeyError')
            if n == 'get':
                if not is_concrete(args[0]):
                    # a symbolic key: present or absent, both explored
                    if it.decide('%s in the dictionary' % show(args[0])):
                        return it.index(o, args[0], None)
                    return args[1] if len(args) > 1 else None
                return o.get(args[0], args[1] if len(args) > 1 else None)
            if n == 'items':
                return [(k, v) for k, v in o.items()]
            if n == 'keys':
                return list(o.keys())
            if n == 'values':
                return list(o.values())
            if n == 'setdefault':
                return o.setdefault(args[0], args[1] if len(args) > 1 else None)
            if n == 'update':
                o.update(args[0] if args else {}, **kwargs)
                return None
            if n == 'copy':
                return dict(o)
        if isinstance(o, list):
            if n == 'append':
                o.append(args[0])
                return None
            if n == 'extend':
                o.extend(it.iterate(args[0], None))
                return None
            if n == 'insert':
                o.insert(args[0], args[1])
                return None
            if n == 'pop':
                if args and not (isinstance(args[0], int) and not isinstance(args[0], bool)):
                    if is_concrete(args[0]):
                        raise Raised('TypeError')
                    raise Undecidable('list.pop at a symbolic position')
                try:
                    return o.pop(*args)
                except IndexError:
                    raise Raised('IndexError')
            if n == 'copy':
                return list(o)
            if n == 'reverse':
                o.reverse()
                return None
            if n == 'clear':
                del o[:]
                return None
            if n == 'remove' and is_concrete(o) and is_concrete(args[0]):
                try:
                    o.remove(args[0])
                except ValueError:
                    raise Raised('ValueError')
                return None
            if n == 'sort' and is_concrete(o) and not kwargs:
                o.sort()
                return None
        if isinstance(o, (list, tuple)) and n in ('index', 'count') and is_concrete(list(o)) and is_concrete(args[0]):
            try:
                return getattr(o, n)(args[0])
            except ValueError:
                raise Raised('ValueError')
        if isinstance(o, str) and all(is_concrete(a) for a in args):
            try:
                return getattr(o, n)(*args, **kwargs)
            except Exception:
                raise Undecidable('str.%s' % n)
        if isinstance(o, str):
            return Sym('%s.%s(%s)' % (repr(o)[:40], n, ', '.join(show(a) for a in args)), truth=True, struct=('call', 'str.' + n, (o,) + tuple(args), dict(kwargs)))
        raise Undecidable('method %s of %s' % (n, type(o).__name__))


def _b_len(it, args, kw):
    v = args[0]
    if isinstance(v, Sym):
        return v.length if v.length is not None else Sym('len(%s)' % v.text, struct=('call', 'len', (v,), {}))
    if isinstance(v, (tuple, list, dict, str, range)):
        return len(v)
    raise Raised('TypeError')


def _b_range(it, args, kw):
    if all(isinstance(a, int) for a in args):
        return range(*args)
    return Sym('range(%s)' % ', '.join(show(a) for a in args), struct=('call', 'range', tuple(args), {}))


def _b_slice(it, args, kw):
    a = list(args)
    if len(a) == 1:
        return slice(None, a[0], None)
    return slice(*a)


def _b_seq(kind):
    def f(it, args, kw):
        if not args:
            return kind()
        try:
            return kind(it.iterate(args[0], None))
        except Undecidable:
            return Sym('%s(%s)' % (kind.__name__, show(args[0])), struct=('call', kind.__name__, tuple(args), {}))
    return f


def _b_set(it, args, kw):
    """set(x) / frozenset(x): concrete elements lose their duplicates (first occurrences kept, as a tuple); with symbolic elements the
    elements are kept as they are (two symbols may or may not be equal: rules that depend on it must not iterate such a set)"""
    if not args:
        return ()
    try:
        vals = it.iterate(args[0], None)
    except Undecidable:
        return Sym('set(%s)' % show(args[0]), struct=('call', 'set', tuple(args), {}))
    if is_concrete(vals):
        out = []
        for v in vals:
            try:
                if v not in out:
                    out.append(v)
            except TypeError:
                out.append(v)
        return tuple(out)
    return tuple(vals)


def _b_dict(it, args, kw):
    d = {}
    if args:
        if isinstance(args[0], dict):
            d.update(args[0])
        else:
            for k, v in it.iterate(args[0], None):
                d[k] = v
    d.update(kw)
    return d


def _b_enumerate(it, args, kw):
    start = args[1] if len(args) > 1 else kw.get('start', 0)
    try:
        seq = it.iterate(args[0], None)
    except Undecidable:
        return Sym('enumerate(%s)' % show(args[0]), struct=('call', 'enumerate', tuple(args), dict(kw)))
    return [(i + start, x) for i, x in enumerate(seq)]


def _b_zip(it, args, kw):
    # operands whose length is not known are taken to be as long as those whose length is known (the callers pass sequences of
    # one length; zip would otherwise stop at the shortest)
    known = []
    for a in args:
        try:
            known.append(len(it.iterate(a, None)))
        except Undecidable:
            known.append(None)
    if all(k is None for k in known):
        return Sym('zip(%s)' % ', '.join(show(a) for a in args), struct=('call', 'zip', tuple(args), {}))
    n = min(k for k in known if k is not None)
    cols = []
    for a, k in zip(args, known):
        cols.append(it.iterate(a, None)[:n] if k is not None else [it.index(a, i, None) for i in range(n)])
    return [tuple(t) for t in zip(*cols)]


def _b_map(it, args, kw):
    seqs = [it.iterate(a, None) for a in args[1:]]
    return [it.apply(args[0], list(t), {}) for t in zip(*seqs)]


def _b_minmax(fn):
    def f(it, args, kw):
        vals = args if len(args) > 1 else it.iterate(args[0], None)
        if is_concrete(list(vals)) and not kw:
            return fn(vals)
        return Sym('%s(%s)' % (fn.__name__, ', '.join(show(a) for a in args)), struct=('call', fn.__name__, tuple(args), dict(kw)))
    return f


def _b_isinstance(it, args, kw):
    v, t = args
    names = [show(x) for x in (t if isinstance(t, tuple) else (t,))]
    if is_concrete(v):
        table = {'int': int, 'float': float, 'str': str, 'list': list, 'tuple': tuple, 'dict': dict, 'bool': bool}
        if all(n in table for n in names):
            return isinstance(v, tuple(table[n] for n in names))
    return Sym('isinstance(%s, %s)' % (show(v), '/'.join(names)))


def _b_conv(kind):
    def f(it, args, kw):
        if args and is_concrete(args[0]):
            try:
                return kind(args[0])
            except (TypeError, ValueError):
                raise Raised('ValueError')
        return Sym('%s(%s)' % (kind.__name__, ', '.join(show(a) for a in args)))
    return f


def _b_sorted(it, args, kw):
    vals = it.iterate(args[0], None)
    if is_concrete(vals) and set(kw) <= {'reverse'} and isinstance(kw.get('reverse', False), bool):
        try:
            return sorted(vals, reverse=kw.get('reverse', False))
        except TypeError:
            raise Raised('TypeError')
    if is_concrete(vals) and set(kw) <= {'reverse', 'key'} and isinstance(kw.get('reverse', False), bool) and kw.get('key') is not None:
        # sort keys are computed by the interpreter, element by element; decided only when every key is concrete
        keys = [it.apply(kw['key'], [v], {}) for v in vals]
        if all(is_concrete(k) for k in keys):
            try:
                order = sorted(range(len(vals)), key=lambda i: keys[i], reverse=kw.get('reverse', False))
            except TypeError:
                raise Raised('TypeError')
            return [vals[i] for i in order]
    return Sym('sorted(%s)' % show(args[0]))


def _b_allany(which):
    def f(it, args, kw):
        """all(x) / any(x) over a sequence whose elements have known truth values"""
        if len(args) != 1 or kw:
            raise Undecidable('%s(...)' % which.__name__)
        try:
            vals = it.iterate(args[0], None)
        except Undecidable:
            return Sym('%s(%s)' % (which.__name__, show(args[0])))
        ts = [it.truth(v, None) for v in vals]
        if which is all:
            if any(t is False for t in ts):
                return False
            return True if all(t is True for t in ts) else Sym('all(%s)' % show(args[0]))
        if any(t is True for t in ts):
            return True
        return False if all(t is False for t in ts) else Sym('any(%s)' % show(args[0]))
    return f


def _b_sum(it, args, kw):
    vals = it.iterate(args[0], None) if not isinstance(args[0], Sym) or args[0].length is not None else None
    if vals is not None and is_concrete(vals):
        return sum(vals, *args[1:])
    return Sym('sum(%s)' % show(args[0]), struct=('call', 'sum', tuple(args), {}))


def _b_next(it, args, kw):
    if args and isinstance(args[0], _Counter):
        return args[0].take()
    if args and isinstance(args[0], list) and args[0]:
        return args[0].pop(0)
    raise Undecidable('next(%s)' % ', '.join(show(a) for a in args))


def _b_iter(it, args, kw):
    return list(it.iterate(args[0], None))


def _b_callable(it, args, kw):
    return isinstance(args[0], (FuncRef, BoundCall)) or Sym('callable(%s)' % show(args[0]))


_OPERATOR = {'operator.mul': ast.Mult, 'operator.add': ast.Add, 'operator.sub': ast.Sub, 'operator.truediv': ast.Div, 'operator.floordiv': ast.FloorDiv,
             'operator.pow': ast.Pow, 'operator.mod': ast.Mod}

_TYPE_NAMES = ('list', 'tuple', 'dict', 'str', 'int', 'float', 'bool', 'NoneType')


def _b_type(it, args, kw):
    v = args[0]
    if len(args) == 1 and isinstance(v, Sym) and v.attrs.get('__pytype__') in _TYPE_NAMES:
        return Sym(v.attrs['__pytype__'], truth=True, attrs={'__type__': True})
    if len(args) == 1 and (is_concrete(v) or isinstance(v, (list, tuple, dict))) and type(v).__name__ in _TYPE_NAMES:
        return Sym(type(v).__name__, truth=True, attrs={'__type__': True})
    return Sym('type(%s)' % show(v), truth=True)


def _b_getattr(it, args, kw):
    if len(args) == 2 and isinstance(args[1], str):
        try:
            return it.attribute(args[0], args[1], None)
        except Undecidable:
            pass
    it.path.events.append(('call', 'getattr', tuple(args), dict(kw)))
    return Sym('getattr(%s)' % ', '.join(show(a) for a in args), struct=('call', 'getattr', tuple(args), dict(kw)))


_BUILTIN_FUNCS = {
    'type': _b_type, 'getattr': _b_getattr,
    'len': _b_len, 'range': _b_range, 'slice': _b_slice, 'next': _b_next, 'iter': _b_iter, 'tuple': _b_seq(tuple), 'list': _b_seq(list), 'dict': _b_dict, 'enumerate': _b_enumerate,
    'zip': _b_zip, 'map': _b_map, 'min': _b_minmax(min), 'max': _b_minmax(max), 'isinstance': _b_isinstance, 'int': _b_conv(int),
    'float': _b_conv(float), 'str': _b_conv(str), 'bool': _b_conv(bool), 'sorted': _b_sorted, 'sum': _b_sum, 'callable': _b_callable,
    'abs': _b_conv(abs), 'reversed': lambda it, a, k: list(reversed(it.iterate(a[0], None))), 'set': _b_set, 'frozenset': _b_set, 'all': _b_allany(all), 'any': _b_allany(any),
}


# ---- helpers for rules that inspect the structure of symbolic values ---------------------------------------------------------
def factors(v, op='*'):
    """operands of a (nested, any association) product / sum"""
    if isinstance(v, Sym) and v.struct and v.struct[0] == 'binop' and v.struct[1] == op:
        return factors(v.struct[2], op) + factors(v.struct[3], op)
    return [v]


def is_newaxis(v):
    return v is None or (isinstance(v, Sym) and v.text in ('numpy.newaxis', 'np.newaxis', 'nuax', 'newaxis'))


def is_full_slice(v):
    return isinstance(v, slice) and v.start is None and v.stop is None and v.step in (None, 1)


def call_of(v, name):
    """(args, kwargs) when v is the value of a call of `name` (last dotted component), else None"""
    if isinstance(v, Sym) and v.struct and v.struct[0] == 'call' and v.struct[1].split('.')[-1] == name:
        return v.struct[2], v.struct[3]
    return None


def method_call(v, name):
    """the receiver when v is `receiver.name(...)`, else None"""
    if isinstance(v, Sym) and v.struct and v.struct[0] == 'call' and len(v.struct) > 4:
        f = v.struct[4]
        if isinstance(f, Sym) and f.struct and f.struct[0] == 'attr' and f.struct[2] == name:
            return f.struct[1]
    return None


def to_rat(v, leaf):
    """the exact rational function a structured value denotes: + - * / and integer powers are interpreted, everything else is
    handed to leaf(value) -> Rat (an atom, typically) or None (then AlgebraError is raised)"""
    from .algebra import Rat, AlgebraError
    from fractions import Fraction
    if isinstance(v, bool):
        raise AlgebraError('boolean')
    if isinstance(v, int):
        return Rat.const(v)
    if isinstance(v, float):
        return Rat.const(Fraction(v).limit_denominator(10 ** 12) if v == v and abs(v) != float('inf') else 0) if v == v and abs(v) != float('inf') else leaf_fail(v)
    if isinstance(v, Sym) and v.struct and v.struct[0] == 'binop' and v.struct[1] in ('+', '-', '*', '/', '**'):
        op, l, r = v.struct[1], v.struct[2], v.struct[3]
        if op == '**':
            if isinstance(r, int) and not isinstance(r, bool) and abs(r) <= 12:
                base = to_rat(l, leaf)
                out = Rat.const(1)
                for _ in range(abs(r)):
                    out = out * base
                return out if r >= 0 else Rat.const(1) / out
        else:
            a, b = to_rat(l, leaf), to_rat(r, leaf)
            return a + b if op == '+' else a - b if op == '-' else a * b if op == '*' else a / b
    if isinstance(v, Sym) and v.text.startswith('(-') and v.struct is None:
        pass
    r = leaf(v)
    if r is None:
        raise AlgebraError('value %s has no algebraic meaning here' % show(v)[:60])
    return r


def leaf_fail(v):
    from .algebra import AlgebraError
    raise AlgebraError('non-finite constant %r' % (v,))
