"""E-SRC: Python program model of /repo/dadi (DESIGN.md 1.1).

Parses every dadi/**/*.py with `ast` (never imports dadi), indexes modules, functions,
classes, module-level bindings and imports, and resolves names / attribute chains to
repository definitions (through `from . import X`, `import dadi.X as Y`, `from dadi.X
import f`, star imports, and module-level aliases such as `snm = snm_1d`).
The two `exec` templates of Spectrum_mod.py are expanded into real method ASTs.
"""
import ast, builtins, os, re, symtable, copy
from .report import AnalysisError, REPO, norm_text

PKG = 'dadi'


def relpath(p):
    return os.path.relpath(p, REPO)


class Module:
    def __init__(self, name, path, is_pkg):
        self.name, self.path, self.is_pkg = name, path, is_pkg
        self.rel = relpath(path)
        with open(path, encoding='utf-8') as f:
            self.src = f.read()
        try:
            self.tree = ast.parse(self.src, filename=path)
        except SyntaxError as e:
            raise AnalysisError('cannot parse %s: %s' % (self.rel, e))
        self.lines = self.src.splitlines()
        self.funcs = {}     # qualname -> FunctionDef   (nested: outer.inner, methods: Class.meth)
        self.classes = {}   # name -> ClassDef
        self.imports = {}   # local name -> ('module', dotted) | ('symbol', dotted_module, name)
        self.star = []      # dotted module names star-imported
        self.toplevel = {}  # module-level name -> list of value nodes (assignments)
        self.bound = set()  # every name bound at module level (any statement kind)
        # undo behaviour-preserving renamings of local variables (sa/alpha.py): rules are written with the confirmed names
        if not os.environ.get('VERIF_NO_ALPHA'):
            from . import alpha
            self.alpha_renamed = alpha.normalise_module(self.rel, self.tree)
        self._index()

    # -- indexing -------------------------------------------------------------
    def _pkg_base(self, level):
        parts = self.name.split('.')
        if not self.is_pkg:
            parts = parts[:-1]
        if level > 1:
            parts = parts[:-(level - 1)]
        return '.'.join(parts)

    def _record_import(self, node, table, bound):
        if isinstance(node, ast.Import):
            for a in node.names:
                if a.asname:
                    table[a.asname] = ('module', a.name)
                    bound.add(a.asname)
                else:
                    top = a.name.split('.')[0]
                    table.setdefault(top, ('module', top))
                    bound.add(top)
        else:
            base = node.module or ''
            if node.level:
                pb = self._pkg_base(node.level)
                base = (pb + '.' + base) if base else pb
            for a in node.names:
                if a.name == '*':
                    self.star.append(base)
                    continue
                table[a.asname or a.name] = ('symbol', base, a.name)
                bound.add(a.asname or a.name)

    def _index(self):
        def set_parents(node, parent=None):
            for ch in ast.iter_child_nodes(node):
                ch._parent = node
                set_parents(ch, node)
        self.tree._parent = None
        set_parents(self.tree)

        def visit_defs(body, prefix, cls=None):
            for st in body:
                if isinstance(st, (ast.FunctionDef, ast.AsyncFunctionDef)):
                    q = prefix + st.name
                    st._qualname = q
                    st._module = self
                    st._class = cls
                    self.funcs[q] = st   # later definitions override (as at run time)
                    visit_defs(st.body, q + '.', None)
                elif isinstance(st, ast.ClassDef):
                    if not prefix:
                        self.classes[st.name] = st
                    st._module = self
                    visit_defs(st.body, prefix + st.name + '.', st)
                else:
                    for fld in ('body', 'orelse', 'finalbody', 'handlers'):
                        sub = getattr(st, fld, None)
                        if isinstance(sub, list):
                            inner = []
                            for s in sub:
                                if isinstance(s, ast.ExceptHandler):
                                    inner.extend(s.body)
                                elif isinstance(s, ast.stmt):
                                    inner.append(s)
                            visit_defs(inner, prefix, cls)
        visit_defs(self.tree.body, '')

        def visit_top(body):
            for st in body:
                if isinstance(st, (ast.Import, ast.ImportFrom)):
                    self._record_import(st, self.imports, self.bound)
                elif isinstance(st, (ast.FunctionDef, ast.AsyncFunctionDef, ast.ClassDef)):
                    self.bound.add(st.name)
                elif isinstance(st, ast.Assign):
                    for t in st.targets:
                        for n in ast.walk(t):
                            if isinstance(n, ast.Name):
                                self.bound.add(n.id)
                        if isinstance(t, ast.Name):
                            self.toplevel.setdefault(t.id, []).append(st.value)
                elif isinstance(st, (ast.AugAssign, ast.AnnAssign)):
                    if isinstance(st.target, ast.Name):
                        self.bound.add(st.target.id)
                elif isinstance(st, (ast.For, ast.While, ast.If, ast.With, ast.Try)):
                    if isinstance(st, ast.For):
                        for n in ast.walk(st.target):
                            if isinstance(n, ast.Name):
                                self.bound.add(n.id)
                    if isinstance(st, ast.With):
                        for it in st.items:
                            if it.optional_vars is not None:
                                for n in ast.walk(it.optional_vars):
                                    if isinstance(n, ast.Name):
                                        self.bound.add(n.id)
                    for fld in ('body', 'orelse', 'finalbody'):
                        visit_top(getattr(st, fld, []) or [])
                    for h in getattr(st, 'handlers', []) or []:
                        if h.name:
                            self.bound.add(h.name)
                        visit_top(h.body)
        visit_top(self.tree.body)
        # names declared global inside functions and assigned there
        for fn in self.funcs.values():
            gl = set()
            for n in ast.walk(fn):
                if isinstance(n, ast.Global):
                    gl.update(n.names)
            if gl:
                for n in ast.walk(fn):
                    if isinstance(n, ast.Name) and isinstance(n.ctx, ast.Store) and n.id in gl:
                        self.bound.add(n.id)
                    elif isinstance(n, (ast.Import, ast.ImportFrom)):
                        for al in n.names:
                            nm = (al.asname or al.name).split('.')[0]
                            if nm in gl:
                                self.bound.add(nm)
                                t = {}
                                self._record_import(n, t, set())
                                if nm in t:
                                    self.imports.setdefault(nm, t[nm])

    def seg(self, node):
        try:
            return norm_text(ast.get_source_segment(self.src, node) or ast.unparse(node))
        except Exception:
            return norm_text(ast.unparse(node))


class Program:
    def __init__(self, root=None):
        self.root = root or REPO
        self.modules = {}
        pk = os.path.join(self.root, PKG)
        if not os.path.isdir(pk):
            raise AnalysisError('package directory %s not found' % pk)
        for dp, dn, fn in os.walk(pk):
            dn[:] = [d for d in dn if d != '__pycache__']
            for f in sorted(fn):
                if not f.endswith('.py'):
                    continue
                p = os.path.join(dp, f)
                rel = os.path.relpath(p, self.root)[:-3].replace(os.sep, '.')
                is_pkg = False
                if rel.endswith('.__init__'):
                    rel = rel[:-9]
                    is_pkg = True
                self.modules[rel] = Module(rel, p, is_pkg)
        self._expand_exec_templates()

    # -- lookups --------------------------------------------------------------
    def mod(self, dotted):
        m = self.modules.get(dotted)
        if m is None:
            raise AnalysisError('anchor vanished: module %s' % dotted)
        return m

    def func(self, dotted_mod, qualname):
        m = self.mod(dotted_mod)
        f = m.funcs.get(qualname)
        if f is None:
            raise AnalysisError('anchor vanished: function %s in %s' % (qualname, m.rel))
        return f

    def has_func(self, dotted_mod, qualname):
        m = self.modules.get(dotted_mod)
        return bool(m and qualname in m.funcs)

    # -- resolution -----------------------------------------------------------
    def module_names(self, m, _seen=None):
        """all names visible at module level of m (own bindings + star imports from repo modules).
        Returns (names, open) where open=True when a star import from outside the repo was seen."""
        _seen = _seen or set()
        if m.name in _seen:
            return set(), False
        _seen.add(m.name)
        names = set(m.bound)
        opn = False
        for s in m.star:
            sm = self.modules.get(s)
            if sm is None:
                opn = True
                continue
            sub, o = self.module_names(sm, _seen)
            allv = None
            for v in sm.toplevel.get('__all__', []):
                try:
                    allv = set(ast.literal_eval(v))
                except Exception:
                    pass
            names |= (allv if allv is not None else {n for n in sub if not n.startswith('_')})
            opn |= o
        return names, opn

    def resolve_in_module(self, m, name, depth=0):
        """('func', FunctionDef) | ('class', ClassDef) | ('module', Module) | ('extmodule', dotted)
        | ('value', Module, [nodes]) | ('ext', dotted) | None"""
        if depth > 8:
            return None
        if name in m.funcs and '.' not in name and (name in m.bound):
            # a later module-level alias may rebind, but defs win in this code base
            return ('func', m.funcs[name])
        if name in m.classes:
            return ('class', m.classes[name])
        if name in m.imports:
            imp = m.imports[name]
            if imp[0] == 'module':
                tgt = self.modules.get(imp[1])
                return ('module', tgt) if tgt else ('extmodule', imp[1])
            base, sym = imp[1], imp[2]
            sub = self.modules.get(base + '.' + sym)
            if sub is not None:
                return ('module', sub)
            bm = self.modules.get(base)
            if bm is None:
                return ('ext', base + '.' + sym)
            return self.resolve_in_module(bm, sym, depth + 1)
        if name in m.toplevel:
            vals = m.toplevel[name]
            v = vals[-1]
            if isinstance(v, ast.Name) and v.id != name:
                r = self.resolve_in_module(m, v.id, depth + 1)
                if r:
                    return r
            if isinstance(v, ast.Attribute):
                r = self.resolve_expr(m, v, depth + 1)
                if r:
                    return r
            return ('value', m, vals)
        if name in m.bound:
            return ('value', m, [])
        for s in m.star:
            sm = self.modules.get(s)
            if sm is None:
                continue
            r = self.resolve_in_module(sm, name, depth + 1)
            if r:
                return r
        return None

    def resolve_expr(self, m, expr, depth=0, scope=None):
        """resolve Name / dotted Attribute chain appearing in module m (function scope `scope` gives
        function-local imports)."""
        if isinstance(expr, ast.Name):
            if scope is not None:
                li = local_imports(m, scope)
                if expr.id in li:
                    imp = li[expr.id]
                    if imp[0] == 'module':
                        tgt = self.modules.get(imp[1])
                        return ('module', tgt) if tgt else ('extmodule', imp[1])
                    sub = self.modules.get(imp[1] + '.' + imp[2])
                    if sub is not None:
                        return ('module', sub)
                    bm = self.modules.get(imp[1])
                    if bm is None:
                        return ('ext', imp[1] + '.' + imp[2])
                    return self.resolve_in_module(bm, imp[2], depth + 1)
            return self.resolve_in_module(m, expr.id, depth)
        if isinstance(expr, ast.Attribute):
            base = self.resolve_expr(m, expr.value, depth, scope)
            if base is None:
                return None
            if base[0] == 'module':
                bm = base[1]
                sub = self.modules.get(bm.name + '.' + expr.attr)
                r = self.resolve_in_module(bm, expr.attr, depth + 1)
                if r:
                    return r
                if sub is not None:
                    return ('module', sub)
                return ('missing', bm, expr.attr)
            if base[0] == 'extmodule':
                dotted = base[1] + '.' + expr.attr
                if dotted in self.modules:
                    return ('module', self.modules[dotted])
                if dotted.split('.')[0] == PKG:
                    # e.g. dadi.tridiag_cython (compiled) -- external to the python model
                    return ('extmodule', dotted)
                return ('extmodule', dotted)
            if base[0] == 'class':
                cls = base[1]
                q = cls.name + '.' + expr.attr
                if q in cls._module.funcs:
                    return ('func', cls._module.funcs[q])
                return ('classattr', cls, expr.attr)
            return None
        return None

    def resolve_call(self, m, call, scope=None):
        r = self.resolve_expr(m, call.func, scope=scope)
        if r and r[0] == 'func':
            return r[1]
        return None

    # -- exec templates in Spectrum_mod ----------------------------------------
    def _expand_exec_templates(self):
        """for method in [...]: exec(\"\"\"template\"\"\" % {'method':method}) inside class Spectrum"""
        m = self.modules.get('dadi.Spectrum_mod')
        if m is None:
            return
        cls = m.classes.get('Spectrum')
        if cls is None:
            return
        m.generated = {}
        for st in cls.body:
            if not isinstance(st, ast.For):
                continue
            try:
                names = ast.literal_eval(st.iter)
            except Exception:
                continue
            for sub in st.body:
                # locals()[method] = factory(method): the factory returns a closure over the method name
                if isinstance(sub, ast.Assign) and len(sub.targets) == 1 and isinstance(sub.targets[0], ast.Subscript) and isinstance(sub.targets[0].value, ast.Call) \
                        and isinstance(sub.targets[0].value.func, ast.Name) and sub.targets[0].value.func.id in ('locals', 'vars') and isinstance(st.target, ast.Name) \
                        and isinstance(sub.targets[0].slice, ast.Name) and sub.targets[0].slice.id == st.target.id and isinstance(sub.value, ast.Call) \
                        and isinstance(sub.value.func, ast.Name) and len(sub.value.args) == 1 and not sub.value.keywords and isinstance(sub.value.args[0], ast.Name) \
                        and sub.value.args[0].id == st.target.id:
                    fac = m.funcs.get(sub.value.func.id)
                    inner = self._closure_of_factory(fac)
                    if inner is None:
                        raise AnalysisError('method factory %s in Spectrum_mod has an unexpected form (line %d)' % (sub.value.func.id, sub.lineno))
                    par = fac.args.args[0].arg
                    for meth in names:
                        g = clone(inner)
                        g.name = meth

                        class Spec(ast.NodeTransformer):
                            def visit_Name(self, n):
                                if n.id == par and isinstance(n.ctx, ast.Load):
                                    return ast.copy_location(ast.Constant(value=meth), n)
                                return n

                            def visit_Call(self, n):
                                self.generic_visit(n)
                                if isinstance(n.func, ast.Name) and n.func.id == 'getattr' and len(n.args) == 2 and isinstance(n.args[1], ast.Constant) and isinstance(n.args[1].value, str):
                                    return ast.copy_location(ast.Attribute(value=n.args[0], attr=n.args[1].value, ctx=ast.Load()), n)
                                return n
                        g = Spec().visit(g)
                        for n in ast.walk(g):
                            if hasattr(n, 'lineno'):
                                n.lineno = sub.lineno
                        g._qualname = 'Spectrum.' + g.name
                        g._module = m
                        g._class = cls
                        g._generated = True
                        m.funcs[g._qualname] = g
                        m.generated[g._qualname] = (g, ast.unparse(g))
                    continue
                call = sub.value if isinstance(sub, ast.Expr) else None
                if not (isinstance(call, ast.Call) and isinstance(call.func, ast.Name) and call.func.id == 'exec'):
                    continue
                arg = call.args[0]
                if not (isinstance(arg, ast.BinOp) and isinstance(arg.op, ast.Mod)
                        and isinstance(arg.left, ast.Constant) and isinstance(arg.left.value, str)):
                    raise AnalysisError('exec template in Spectrum_mod has an unexpected form (line %d)' % sub.lineno)
                tmpl = arg.left.value
                for meth in names:
                    try:
                        val = {'method': meth}
                        if isinstance(arg.right, ast.Dict):
                            val = {}
                            for k, v in zip(arg.right.keys, arg.right.values):
                                val[ast.literal_eval(k)] = meth if (isinstance(v, ast.Name) and v.id == st.target.id) else ast.literal_eval(v)
                        text = tmpl % val
                        import textwrap
                        gen = ast.parse(textwrap.dedent(text))
                    except Exception as e:
                        raise AnalysisError('cannot expand exec template for %s: %s' % (meth, e))
                    for g in gen.body:
                        if isinstance(g, ast.FunctionDef):
                            for n in ast.walk(g):
                                if hasattr(n, 'lineno'):
                                    n.lineno = sub.lineno
                            g._qualname = 'Spectrum.' + g.name
                            g._module = m
                            g._class = cls
                            g._generated = True
                            m.funcs[g._qualname] = g
                            m.generated[g._qualname] = (g, text)


    @staticmethod
    def _closure_of_factory(fac):
        """the inner function of `def factory(name): def inner(...): ...; inner.__name__ = name; return inner`"""
        if fac is None or len(fac.args.args) != 1:
            return None
        body = [x for x in fac.body if not (isinstance(x, ast.Expr) and isinstance(x.value, ast.Constant))]
        inner = [x for x in body if isinstance(x, ast.FunctionDef)]
        rets = [x for x in body if isinstance(x, ast.Return)]
        rest = [x for x in body if not isinstance(x, (ast.FunctionDef, ast.Return))]
        if len(inner) != 1 or len(rets) != 1 or not (isinstance(rets[0].value, ast.Name) and rets[0].value.id == inner[0].name):
            return None
        for x in rest:
            # only attribute assignments on the closure (inner.__name__ = ...)
            if not (isinstance(x, ast.Assign) and all(isinstance(t, ast.Attribute) and isinstance(t.value, ast.Name) and t.value.id == inner[0].name for t in x.targets)):
                return None
        return inner[0]


_LOCAL_IMPORTS = {}


def local_imports(m, fn):
    key = (m.name, id(fn))
    if key not in _LOCAL_IMPORTS:
        t, b = {}, set()
        for n in ast.walk(fn):
            if isinstance(n, (ast.Import, ast.ImportFrom)):
                m._record_import(n, t, b)
        _LOCAL_IMPORTS[key] = t
    return _LOCAL_IMPORTS[key]


# ---------------------------------------------------------------------------
# scopes: which names are local to a function (params, assignments, ...)
# ---------------------------------------------------------------------------

def func_params(fn):
    a = fn.args
    names = [x.arg for x in a.posonlyargs + a.args]
    if a.vararg:
        names.append(a.vararg.arg)
    names += [x.arg for x in a.kwonlyargs]
    if a.kwarg:
        names.append(a.kwarg.arg)
    return names


def positional_params(fn):
    a = fn.args
    return [x.arg for x in a.posonlyargs + a.args]


def param_defaults(fn):
    """name -> default node for positional params with defaults and kwonly"""
    a = fn.args
    pos = a.posonlyargs + a.args
    d = {}
    for p, dv in zip(pos[len(pos) - len(a.defaults):], a.defaults):
        d[p.arg] = dv
    for p, dv in zip(a.kwonlyargs, a.kw_defaults):
        if dv is not None:
            d[p.arg] = dv
    return d


def own_nodes(fn):
    """walk the body of fn without descending into nested function / class / lambda bodies
    (comprehensions are descended: their targets are reported with ctx Store but are scoped)"""
    stack = list(reversed(fn.body)) if isinstance(fn, (ast.FunctionDef, ast.AsyncFunctionDef, ast.Module)) else [fn]
    while stack:
        n = stack.pop()
        yield n
        if isinstance(n, (ast.FunctionDef, ast.AsyncFunctionDef, ast.ClassDef, ast.Lambda)):
            # the def statement itself binds a name; its body is another scope
            if not isinstance(n, ast.Lambda):
                for d in n.decorator_list:
                    stack.append(d)
            continue
        for ch in reversed(list(ast.iter_child_nodes(n))):
            stack.append(ch)


def bound_locals(fn):
    """names bound in fn's own scope (excluding those declared global/nonlocal)"""
    names = set(func_params(fn))
    outer = set()
    comp_targets = set()
    for n in own_nodes(fn):
        if isinstance(n, (ast.Global, ast.Nonlocal)):
            outer.update(n.names)
        elif isinstance(n, ast.Name) and isinstance(n.ctx, (ast.Store, ast.Del)):
            names.add(n.id)
        elif isinstance(n, (ast.FunctionDef, ast.AsyncFunctionDef, ast.ClassDef)):
            names.add(n.name)
        elif isinstance(n, (ast.Import, ast.ImportFrom)):
            for a in n.names:
                if a.name != '*':
                    names.add((a.asname or a.name).split('.')[0])
        elif isinstance(n, ast.ExceptHandler) and n.name:
            names.add(n.name)
        elif isinstance(n, (ast.ListComp, ast.SetComp, ast.DictComp, ast.GeneratorExp)):
            for g in n.generators:
                for t in ast.walk(g.target):
                    if isinstance(t, ast.Name):
                        comp_targets.add(t.id)
    return (names - outer), outer, comp_targets


BUILTINS = set(dir(builtins)) | {'__file__', '__name__', '__doc__', '__builtins__', '__package__', '__spec__',
                                 '__loader__', '__path__'}


def enclosing_function(node):
    p = getattr(node, '_parent', None)
    while p is not None and not isinstance(p, (ast.FunctionDef, ast.AsyncFunctionDef, ast.Lambda)):
        p = getattr(p, '_parent', None)
    return p


def enclosing_chain(node):
    out = []
    p = enclosing_function(node)
    while p is not None:
        out.append(p)
        p = enclosing_function(p)
    return out


def clone(node):
    """structural copy of an AST that follows _fields only (never the _parent back-links)"""
    if isinstance(node, list):
        return [clone(x) for x in node]
    if not isinstance(node, ast.AST):
        return node
    new = type(node)()
    for f in node._fields:
        if hasattr(node, f):
            setattr(new, f, clone(getattr(node, f)))
    for a in ('lineno', 'col_offset', 'end_lineno', 'end_col_offset'):
        if hasattr(node, a):
            setattr(new, a, getattr(node, a))
    return new


def call_name(call):
    """dotted textual name of a call's callee ('numpy.exp', 'phi.copy', 'f')"""
    return dotted(call.func)


def dotted(e):
    if isinstance(e, ast.Name):
        return e.id
    if isinstance(e, ast.Attribute):
        b = dotted(e.value)
        return (b + '.' + e.attr) if b else None
    return None


def expand_star_kwargs(call, scope):
    """`f(..., **name)` where name is bound exactly once in scope to a dictionary display / dict(k=v, ...) with constant string keys:
    the equivalent call with the entries written as keyword arguments (a structural copy; the tree is not modified)"""
    if scope is None or not any(k.arg is None for k in call.keywords):
        return call
    defs = {}
    for n in ast.walk(scope):
        if isinstance(n, ast.Assign) and len(n.targets) == 1 and isinstance(n.targets[0], ast.Name):
            defs.setdefault(n.targets[0].id, []).append(n.value)
        elif isinstance(n, (ast.AugAssign, ast.For)) and isinstance(getattr(n, 'target', None), ast.Name):
            defs.setdefault(n.target.id, []).append(None)
    kws = []
    for k in call.keywords:
        if k.arg is not None:
            kws.append(k)
            continue
        v = k.value
        if isinstance(v, ast.Name) and len(defs.get(v.id, [])) == 1 and defs[v.id][0] is not None:
            v = defs[v.id][0]
        if isinstance(v, ast.Dict) and all(isinstance(x, ast.Constant) and isinstance(x.value, str) for x in v.keys):
            kws.extend(ast.keyword(arg=x.value, value=y) for x, y in zip(v.keys, v.values))
        elif isinstance(v, ast.Call) and isinstance(v.func, ast.Name) and v.func.id == 'dict' and not v.args and all(x.arg is not None for x in v.keywords):
            kws.extend(v.keywords)
        else:
            kws.append(k)
    new = ast.Call(func=call.func, args=call.args, keywords=kws)
    return ast.copy_location(new, call)


def bind_call(fn, call, skip_self=False, scope=None):
    """map a call's arguments to the parameter names of fn.
    returns (binding: name -> arg node, problems: [str])"""
    call = expand_star_kwargs(call, scope)
    a = fn.args
    pos = [x.arg for x in a.posonlyargs + a.args]
    if skip_self and pos:
        pos = pos[1:]
    kwonly = [x.arg for x in a.kwonlyargs]
    binding, problems = {}, []
    star = any(isinstance(x, ast.Starred) for x in call.args)
    dstar = any(k.arg is None for k in call.keywords)
    for i, arg in enumerate(call.args):
        if isinstance(arg, ast.Starred):
            break
        if i < len(pos):
            binding[pos[i]] = arg
        elif a.vararg is None:
            problems.append('too many positional arguments (%d given, %d accepted)' % (len(call.args), len(pos)))
            break
    for k in call.keywords:
        if k.arg is None:
            continue
        if k.arg in binding:
            problems.append('multiple values for parameter %r' % k.arg)
        elif k.arg in pos or k.arg in kwonly:
            binding[k.arg] = k.value
        elif a.kwarg is None:
            problems.append('unexpected keyword %r' % k.arg)
    if not star and not dstar:
        ndef = len(a.defaults)
        required = pos[:len(pos) - ndef] if ndef else pos
        for r in required:
            if r not in binding:
                problems.append('missing required argument %r' % r)
        for p, dv in zip(a.kwonlyargs, a.kw_defaults):
            if dv is None and p.arg not in binding:
                problems.append('missing required keyword-only argument %r' % p.arg)
    return binding, problems
