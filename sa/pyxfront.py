"""E-PYX: front end for the thin Cython glue (`cdef extern` prototypes and `def` wrappers that forward to one C call).
No Cython is available; the .pyx files in scope use a tiny subset which is parsed here directly."""
import os, re
from .report import AnalysisError, REPO


class PyxWrapper:
    def __init__(self, name, params, ptypes, line):
        self.name, self.params, self.ptypes, self.line = name, params, ptypes, line
        self.c_call = None      # (c alias name, [arg texts])
        self.returns = None     # text of the returned expression
        self.locals = {}


class PyxExtern:
    def __init__(self, alias, cname, params, line, ret='void'):
        self.alias, self.cname, self.params, self.line, self.ret = alias, cname, params, line, ret


class PyxModule:
    def __init__(self, rel):
        self.rel = rel
        path = os.path.join(REPO, rel)
        if not os.path.exists(path):
            raise AnalysisError('anchor vanished: %s' % rel)
        self.src = open(path).read()
        self.externs = {}
        self.wrappers = {}
        self.header = None
        self._parse()

    def _strip_comments(self, s):
        return re.sub(r'#[^\n]*', '', s)

    def _parse(self):
        src = self._strip_comments(self.src)
        mh = re.search(r'cdef\s+extern\s+from\s+"([^"]+)"', src)
        if mh:
            self.header = mh.group(1)
        # extern prototypes:  <type> alias "cname" ( params )
        for mm in re.finditer(r'^\s+(void|double|int|float)\s+(\w+)\s+"(\w+)"\s*\(([^)]*)\)', src, re.M | re.S):
            ret, alias, cname, plist = mm.groups()
            params = []
            for p in plist.split(','):
                p = ' '.join(p.split())
                if not p:
                    continue
                mt = re.match(r'(.*?)(\w+)$', p)
                params.append((mt.group(1).strip().replace(' *', '*').replace('* ', '*'), mt.group(2)))
            self.externs[alias] = PyxExtern(alias, cname, params, src[:mm.start()].count('\n') + 1, ret)
        # def wrappers
        for mm in re.finditer(r'^def\s+(\w+)\s*\(([^)]*)\)\s*:\s*\n((?:[ \t]+[^\n]*\n?|\s*\n)+)', src, re.M):
            name, plist, body = mm.groups()
            params, ptypes = [], {}
            for p in plist.split(','):
                p = ' '.join(p.split())
                if not p:
                    continue
                toks = p.split()
                pn = toks[-1]
                if '=' in pn:
                    pn = pn.split('=')[0]
                params.append(pn)
                ptypes[pn] = ' '.join(toks[:-1])
            w = PyxWrapper(name, params, ptypes, src[:mm.start()].count('\n') + 1)
            mc = None
            for alias in self.externs:
                mc2 = re.search(r'(?<!\w)%s\s*\(' % re.escape(alias), body)
                if mc2:
                    mc = (alias, mc2)
                    break
            if mc:
                alias, m2 = mc
                i = m2.end()
                depth, j = 1, i
                while j < len(body) and depth:
                    if body[j] == '(':
                        depth += 1
                    elif body[j] == ')':
                        depth -= 1
                    j += 1
                argtxt = body[i:j - 1]
                args, cur, depth = [], '', 0
                for ch in argtxt:
                    if ch in '([':
                        depth += 1
                    elif ch in ')]':
                        depth -= 1
                    if ch == ',' and depth == 0:
                        args.append(' '.join(cur.split()))
                        cur = ''
                    else:
                        cur += ch
                if cur.strip():
                    args.append(' '.join(cur.split()))
                w.c_call = (alias, args)
            mr = re.search(r'^\s+return\s+(.+)$', body, re.M)
            if mr:
                w.returns = mr.group(1).strip()
            for ml in re.finditer(r'cdef\s+[^\n]*?[\]\s](\w+)\s*=\s*((?:np|numpy)\.[^\n]+)', body):
                w.locals[ml.group(1)] = ml.group(2).strip()
            self.wrappers[name] = w


def ext_table():
    """library facts for E-EFF derived from the .pyx sources: python-visible name -> effects"""
    table = {}
    ic = PyxModule('dadi/integration_c.pyx')
    for name, w in ic.wrappers.items():
        ent = {}
        if w.returns in w.params:
            ent['returns'] = w.params.index(w.returns)
            # the wrapper hands <double*> X.data of the returned parameter to C and returns the same object:
            # it is updated in place (checked against the C sources by C02/C20's C rules)
            ent['mutates'] = (w.params.index(w.returns),)
            ent['kernel'] = True
        for prefix in ('int_c.', 'dadi.integration_c.', 'integration_c.'):
            table[prefix + name] = ent
    tc = PyxModule('dadi/tridiag_cython.pyx')
    for name, w in tc.wrappers.items():
        ent = {'fresh': True}
        if w.returns in w.params:
            ent = {'returns': w.params.index(w.returns), 'mutates': (w.params.index(w.returns),), 'kernel': True}
        for prefix in ('tridiag.', 'dadi.tridiag_cython.', 'tridiag_cython.'):
            table[prefix + name] = ent
    return table, ic, tc
