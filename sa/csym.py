"""What a C function writes into its output arrays, as expressions of its inputs (loop nests over independent cells).

The compiled densities (dadi/DFE/PDFs.c) fill auxiliary arrays in one loop each and the output in a double loop; how the work is
split into temporaries, which invariants are hoisted and whether the output is addressed by index or by a walking pointer (already
written back to index form by sa.cptr) are free.  The content of output cell (i, j) is not: this module computes it.

  * scalars are exact rational expressions (sa.algebra) of the parameters; transcendental calls are opaque atoms with canonical
    arguments;
  * a store `A[index] = value` inside a nest of counted loops defines A over that nest; a later read `A[e]` of an array defined over
    ONE loop with index `v + c` is replaced by the defining value at v = e - c (an array comprehension); reads of input arrays are
    atoms `xx[<index>]`;
  * `if` on a comparison of known constants is decided, any other `if` forks the path;
  * every path yields its stores: (array, nest [(variable, lo, hi)], index, operator, value).

Not modelled (AlgebraError): loops that are not counted, stores whose value reads the array being defined at another cell
(recurrences), compound stores into cells other loops also write."""
import ast
import re
from .algebra import Rat, Translator, AlgebraError
from .cfront import CFor, CAssign, CDecl, CIf, CExpr, CReturn, CJump, unparse


class Store:
    def __init__(self, array, nest, index, op, value, line):
        # nest entries are _Loop tuples (variable, lo, hi) that also carry the identity of their for statement
        self.array, self.nest, self.index, self.op, self.value, self.line = array, [tuple(x) for x in nest], index, op, value, line
        self.loop_ids = [getattr(x, 'loop_id', None) for x in nest]


class _Loop(tuple):
    pass


def _ids(nest):
    return [getattr(x, 'loop_id', None) for x in nest]

    def __repr__(self):
        return '%s[%s] %s %s over %s' % (self.array, self.index.canon(), self.op, self.value.canon()[:80], [(v, lo.canon(), hi.canon()) for v, lo, hi in self.nest])


class Path:
    def __init__(self):
        self.conds, self.stores, self.env, self.returned, self.calls = [], [], {}, None, []


def run(cf, scalars=None, max_paths=64):
    """all paths of cf; scalars: initial values of parameters (name -> Rat), e.g. a parameter count fixed to a constant"""
    out = []
    p0 = Path()
    p0.env = dict(scalars or {})
    _block(list(cf.body), p0, [], out, max_paths)
    return out


def _translator(path, nest):
    defs = {}
    for s in path.stores:
        defs.setdefault(s.array, []).append(s)

    def index_hook(tr, e):
        base = tr._basename(e.value)
        idx = tr.tr(e.slice)
        ds = defs.get(base)
        if ds:
            # the definition that covers the cell: a single-loop definition with unit stride, or a constant cell
            for s in reversed(ds):
                if s.op != '=':
                    raise AlgebraError('read of %s, which is accumulated into' % base)
                if len(s.nest) == 1:
                    v = s.nest[0][0]
                    c = s.index - Rat.atom(v)
                    if v not in c.atoms():
                        # the definition is final only once its loop is closed, or for the cell of the current iteration
                        if any(s.loop_ids and lid == s.loop_ids[0] for lid in _ids(nest)) and not (idx - s.index).is_zero():
                            raise AlgebraError('%s read at another cell inside the loop that defines it' % base)
                        target = idx - c
                        ats = list(target.atoms())
                        if len(ats) == 1 and target.equals(Rat.atom(ats[0])):
                            return rename_loopvars(s.value, {v: ats[0]}) if ats[0] != v else s.value
                        if any('[' in a and re.search(r'\b%s\b' % re.escape(v), a) for a in s.value.atoms()):
                            raise AlgebraError('%s read at a shifted cell %s' % (base, idx.canon()))
                        return s.value.subs({v: target})
                elif not s.nest and (idx - s.index).is_zero():
                    return s.value
            raise AlgebraError('read of %s[%s] does not match how %s is defined' % (base, idx.canon(), base))
        return Rat.atom('%s[%s]' % (base, idx.canon()))
    return Translator(dict(path.env), index_hook=index_hook)


def _fork(path):
    q = Path()
    q.conds, q.stores, q.env, q.returned, q.calls = list(path.conds), list(path.stores), dict(path.env), path.returned, list(path.calls)
    return q


def _cond(e, tr):
    """True / False when decided by constants, else a text key"""
    if isinstance(e, ast.BoolOp):
        vals = [_cond(v, tr) for v in e.values]
        if isinstance(e.op, ast.Or):
            if any(v is True for v in vals):
                return True
            if all(v is False for v in vals):
                return False
        else:
            if any(v is False for v in vals):
                return False
            if all(v is True for v in vals):
                return True
        return unparse(e)
    if isinstance(e, ast.UnaryOp) and isinstance(e.op, ast.Not):
        v = _cond(e.operand, tr)
        return (not v) if isinstance(v, bool) else unparse(e)
    if isinstance(e, ast.Compare) and len(e.ops) == 1:
        try:
            d = tr.tr(e.left) - tr.tr(e.comparators[0])
        except AlgebraError:
            return unparse(e)
        if d.is_const():
            c = d.const_value()
            return {ast.Eq: c == 0, ast.NotEq: c != 0, ast.Lt: c < 0, ast.LtE: c <= 0, ast.Gt: c > 0, ast.GtE: c >= 0}[type(e.ops[0])]
    return unparse(e)


def _block(stmts, path, nest, out, max_paths):
    """runs stmts on path (mutating it); forks append finished paths to out only at the top level (nest == [] and the caller is run)"""
    i = 0
    while i < len(stmts):
        st = stmts[i]
        i += 1
        if isinstance(st, CDecl):
            if st.init is not None and not st.pointer and not st.array:
                path.env[st.name] = _translator(path, nest).tr(st.init)
            continue
        if isinstance(st, CAssign):
            tr = _translator(path, nest)
            if isinstance(st.target, ast.Name):
                nm = st.target.id
                if isinstance(st.value, ast.Call) and unparse(st.value.func) in ('malloc', 'calloc'):
                    continue
                v = tr.tr(st.value)
                if st.op == '=':
                    path.env[nm] = v
                else:
                    cur = path.env.get(nm)
                    if cur is None:
                        raise AlgebraError('compound assignment to %s, which has no value' % nm)
                    path.env[nm] = {'+=': cur + v, '-=': cur - v, '*=': cur * v, '/=': cur / v}[st.op]
                continue
            if isinstance(st.target, ast.Subscript):
                base = tr._basename(st.target.value)
                idx = Translator(dict(path.env)).tr(st.target.slice)
                val = tr.tr(st.value)
                if any(a.startswith(base + '[') for a in val.atoms()):
                    raise AlgebraError('%s is defined from its own cells (line %d)' % (base, st.line))
                path.stores.append(Store(base, list(nest), idx, st.op, val, st.line))
                continue
            raise AlgebraError('assignment to %s' % unparse(st.target)[:30])
        if isinstance(st, CExpr):
            if isinstance(st.expr, ast.Call):
                path.calls.append((unparse(st.expr.func), [unparse(a) for a in st.expr.args], st.line))
                continue
            raise AlgebraError('expression statement (line %d)' % st.line)
        if isinstance(st, CReturn):
            path.returned = _translator(path, nest).tr(st.value) if st.value is not None else True
            if nest:
                raise AlgebraError('return inside a loop')
            out.append(path)
            return 'returned'
        if isinstance(st, CJump):
            raise AlgebraError('%s (line %d)' % (st.kind, st.line))
        if isinstance(st, CIf):
            c = _cond(st.cond, _translator(path, nest))
            rest = stmts[i:]
            if isinstance(c, bool):
                r = _block((st.body if c else st.orelse) + rest, path, nest, out, max_paths)
                return r
            known = dict(path.conds)
            if c in known:
                return _block((st.body if known[c] else st.orelse) + rest, path, nest, out, max_paths)
            if nest:
                raise AlgebraError('data-dependent test inside a loop (line %d)' % st.line)
            if len(out) > max_paths:
                raise AlgebraError('too many paths')
            q = _fork(path)
            q.conds.append((c, False))
            path.conds.append((c, True))
            _block(st.body + rest, path, nest, out, max_paths)
            _block(st.orelse + rest, q, nest, out, max_paths)
            return 'forked'
        if isinstance(st, CFor):
            lv = unparse(st.init.target)
            t0 = Translator(dict(path.env))
            c = st.cond
            if not (isinstance(st.init, CAssign) and st.init.op == '=' and isinstance(c, ast.Compare) and unparse(c.left) == lv and isinstance(c.ops[0], (ast.Lt, ast.LtE)) and
                    isinstance(st.step, CAssign) and unparse(st.step.target) == lv and st.step.op == '+=' and unparse(st.step.value) == '1'):
                raise AlgebraError('loop of line %d is not a counted loop' % st.line)
            lo, hi = t0.tr(st.init.value), t0.tr(c.comparators[0])
            if isinstance(c.ops[0], ast.LtE):
                hi = hi + Rat.const(1)
            saved = dict(path.env)
            path.env.pop(lv, None)
            # scalars the body assigns are local to the iteration unless they are accumulated (then: not modelled)
            for s_ in _walk(st.body):
                if isinstance(s_, CAssign) and isinstance(s_.target, ast.Name) and s_.op != '=' and s_.target.id in saved:
                    raise AlgebraError('scalar %s is accumulated over the loop of line %d' % (s_.target.id, st.line))
            n_out = len(out)
            entry = _Loop((lv, lo, hi))
            entry.loop_id = id(st)
            r = _block(list(st.body), path, nest + [entry], out, max_paths)
            if r is not None or len(out) != n_out:
                raise AlgebraError('the loop of line %d does not run straight through' % st.line)
            assigned = {s_.target.id for s_ in _walk(st.body) if isinstance(s_, CAssign) and isinstance(s_.target, ast.Name)} | {s_.name for s_ in _walk(st.body) if isinstance(s_, CDecl)}
            path.env = {k: v for k, v in path.env.items() if k not in assigned and k != lv}
            for k in assigned:
                if k in saved and k not in path.env:
                    pass        # a scalar of the enclosing scope reassigned per iteration: its value after the loop is not used by the rules
            continue
        raise AlgebraError('unsupported statement %s' % type(st).__name__)
    if not nest:
        out.append(path)
    return None


def _walk(stmts):
    for s in stmts:
        yield s
        if isinstance(s, CFor):
            yield from _walk(s.body)
        elif isinstance(s, CIf):
            yield from _walk(s.body)
            yield from _walk(s.orelse)


def rename_loopvars(r, mapping):
    """loop variables renamed inside expressions and inside the index text of array-read atoms"""
    from .cellflow import rename_atoms
    rx = re.compile(r'\b(%s)\b' % '|'.join(re.escape(k) for k in mapping)) if mapping else None
    if rx is None:
        return r
    return rename_atoms(r, lambda n: rx.sub(lambda m: mapping[m.group(1)], n))
