"""Index semantics of array expressions (structured symbols of sa.miniexec): which element of which array an element of a view is.

`at(v, idx, is_root)` follows an element of the array-valued symbol v at the full index list idx (one value per axis of v) through
subscripts with integers, slices, newaxis, through `.T`, `.transpose(perm)`, `numpy.transpose`, `numpy.moveaxis` / `swapaxes` back to
a root array (is_root(v) true) and returns (root, index list for the root).  `store_positions(key, shape_of_axis)` turns the key of a
store `R[key] = ...` into one index per axis of R, with an implicit position variable for every sliced axis, and the extents of those
variables.  With these a block statement `R[i:i+n, :] = R[i:i+n, :] + A[i, :, :].T` is the family of element statements
`R[i + t0, t1] += A[i, t1, t0]`, t0 in [0, n), t1 over the whole axis - the same fact as the double loop it replaces."""
from . import miniexec as mx


class Unfollowed(Exception):
    pass


def _add(a, b):
    if isinstance(a, int) and isinstance(b, int):
        return a + b
    if a == 0:
        return b
    if b == 0:
        return a
    return mx.Sym('(%s + %s)' % (mx.show(a), mx.show(b)), struct=('binop', '+', a, b))


def _sub(a, b):
    if isinstance(a, int) and isinstance(b, int):
        return a - b
    if b == 0:
        return a
    return mx.Sym('(%s - %s)' % (mx.show(a), mx.show(b)), struct=('binop', '-', a, b))


def _perm_of(v):
    """(receiver, perm) when v is a transposition with an explicit permutation, (receiver, None) for a full reversal, else None"""
    if isinstance(v, mx.Sym) and v.struct and v.struct[0] == 'attr' and v.struct[2] == 'T':
        return v.struct[1], None
    rec = mx.method_call(v, 'transpose')
    if rec is not None and mx.show(rec) not in ('numpy', 'np'):
        perm = v.struct[2]
        perm = perm[0] if len(perm) == 1 and isinstance(perm[0], (tuple, list)) else perm
        return rec, (list(perm) if perm else None)
    c = mx.call_of(v, 'transpose')
    if c is not None and v.struct[1].split('.')[0] in ('numpy', 'np') and c[0]:
        perm = c[0][1] if len(c[0]) > 1 else c[1].get('axes')
        return c[0][0], (list(perm) if isinstance(perm, (tuple, list)) else None)
    return None


def at(v, idx, is_root):
    idx = list(idx)
    if is_root(v):
        return v, idx
    tp = _perm_of(v)
    if tp is not None:
        rec, perm = tp
        if perm is None:
            return at(rec, idx[::-1], is_root)
        if not all(isinstance(p, int) for p in perm) or sorted(perm) != list(range(len(idx))):
            raise Unfollowed('transposition %s of a %d-dimensional element' % (perm, len(idx)))
        new = [None] * len(idx)
        for pos, ax in enumerate(perm):
            new[ax] = idx[pos]
        return at(rec, new, is_root)
    c = mx.call_of(v, 'moveaxis') if isinstance(v, mx.Sym) else None
    if c is not None and len(c[0]) == 3 and all(isinstance(x, int) for x in c[0][1:]):
        n = len(idx)
        src, dst = c[0][1] % n, c[0][2] % n
        order = [k for k in range(n) if k != src]
        order.insert(dst, src)              # axis order[p] of the argument is axis p of the result
        new = [None] * n
        for pos, ax in enumerate(order):
            new[ax] = idx[pos]
        return at(c[0][0], new, is_root)
    c = mx.call_of(v, 'swapaxes') if isinstance(v, mx.Sym) else None
    rec = mx.method_call(v, 'swapaxes') if isinstance(v, mx.Sym) else None
    if rec is not None and mx.show(rec) in ('numpy', 'np'):
        rec = None
    if rec is not None or (c is not None and len(c[0]) == 3):
        a_, b_ = (v.struct[2][0], v.struct[2][1]) if rec is not None else (c[0][1], c[0][2])
        base = rec if rec is not None else c[0][0]
        if isinstance(a_, int) and isinstance(b_, int):
            n = len(idx)
            new = list(idx)
            new[a_ % n], new[b_ % n] = idx[b_ % n], idx[a_ % n]
            return at(base, new, is_root)
    if isinstance(v, mx.Sym) and v.struct and v.struct[0] == 'index':
        base, key = v.struct[1], v.struct[2]
        key = list(key) if isinstance(key, tuple) else [key]
        full = []
        k = 0
        for comp in key:
            if comp is Ellipsis or mx.show(comp) == 'Ellipsis':
                raise Unfollowed('Ellipsis in a subscript')
            if mx.is_newaxis(comp):
                k += 1                      # an axis of extent one: its position is always 0
                continue
            if isinstance(comp, slice):
                if comp.step not in (None, 1):
                    raise Unfollowed('stepped slice')
                if k >= len(idx):
                    raise Unfollowed('more sliced axes than the element has positions')
                full.append(_add(comp.start if comp.start is not None else 0, idx[k]))
                k += 1
            else:
                full.append(comp)
        full.extend(idx[k:])
        return at(base, full, is_root)
    raise Unfollowed('element of %s' % mx.show(v)[:50])


def store_positions(key, axis_extent):
    """(index per axis, [(variable, extent)]) for the key of a store; axis_extent(axis) -> extent of that axis of the target"""
    key = list(key) if isinstance(key, tuple) else [key]
    idx, tvars = [], []
    for ax, comp in enumerate(key):
        if isinstance(comp, slice):
            if comp.step not in (None, 1):
                raise Unfollowed('stepped slice')
            t = mx.Sym('_t%d' % len(tvars))
            start = comp.start if comp.start is not None else 0
            ext = _sub(comp.stop, start) if comp.stop is not None else (axis_extent(ax) if start == 0 else _sub(axis_extent(ax), start))
            idx.append(_add(start, t))
            tvars.append((t, ext))
        else:
            idx.append(comp)
    return idx, tvars


def ndim_after(key, ndim):
    """number of axes of base[key] for a base with ndim axes"""
    key = list(key) if isinstance(key, tuple) else [key]
    n = ndim
    for comp in key:
        if mx.is_newaxis(comp):
            n += 1
        elif not isinstance(comp, slice):
            n -= 1
    return n
