"""Generic rules R-NAME, R-DEF, R-RET, R-SIG over the program model (DESIGN.md section 2)."""
import ast, os
from .srcmodel import (bound_locals, BUILTINS, own_nodes, func_params, enclosing_chain, dotted, bind_call,
                       local_imports, positional_params)
from .flow import Analysis, Engine
from .report import norm_text


# ---------------------------------------------------------------------------
# R-NAME
# ---------------------------------------------------------------------------

def _scoped_loads(fn):
    """yield (Name node, extra_bound) for every Name load in fn's own scope, where extra_bound is the set of
    comprehension / lambda-parameter names in scope at that point. Lambda bodies are included (they execute
    with the enclosing scope's globals); nested defs are excluded (analysed as their own units)."""
    def walk(n, extra):
        if isinstance(n, (ast.FunctionDef, ast.AsyncFunctionDef, ast.ClassDef)):
            for d in getattr(n, 'decorator_list', []):
                yield from walk(d, extra)
            if isinstance(n, (ast.FunctionDef, ast.AsyncFunctionDef)):
                for d in n.args.defaults + [x for x in n.args.kw_defaults if x is not None]:
                    yield from walk(d, extra)
            return
        if isinstance(n, ast.Lambda):
            ex = extra | set(func_params(n))
            for d in n.args.defaults:
                yield from walk(d, extra)
            yield from walk(n.body, ex)
            return
        if isinstance(n, (ast.ListComp, ast.SetComp, ast.GeneratorExp, ast.DictComp)):
            ex = set(extra)
            for g in n.generators:
                yield from walk(g.iter, ex)
                for t in ast.walk(g.target):
                    if isinstance(t, ast.Name):
                        ex.add(t.id)
                for c in g.ifs:
                    yield from walk(c, ex)
            if isinstance(n, ast.DictComp):
                yield from walk(n.key, ex)
                yield from walk(n.value, ex)
            else:
                yield from walk(n.elt, ex)
            return
        if isinstance(n, ast.Name):
            if isinstance(n.ctx, ast.Load):
                yield n, extra
            return
        for ch in ast.iter_child_nodes(n):
            yield from walk(ch, extra)
    for st in fn.body:
        yield from walk(st, frozenset())


def visible_names(prog, m, fn):
    """names visible from fn: own locals, enclosing function locals, module names"""
    loc, outer, comp = bound_locals(fn)
    vis = set(loc)
    for enc in enclosing_chain(fn):
        if isinstance(enc, ast.Lambda):
            vis |= set(func_params(enc))
        else:
            l2, _, _ = bound_locals(enc)
            vis |= l2
    cls = getattr(fn, '_class', None)
    mn, opn = prog.module_names(m)
    return vis, mn, opn


def rule_name(rep, prog, m, fn, rule='R-NAME', exceptions=None):
    """every free name loaded in fn resolves (module scope, star imports, builtins); every
    `<repo module>.attr` exists in that module."""
    vis, modnames, opn = visible_names(prog, m, fn)
    q = getattr(fn, '_qualname', fn.name)
    rep.saw_function(m.rel + ':' + q)
    undefined = {}
    for nm, extra in _scoped_loads(fn):
        if nm.id in vis or nm.id in extra or nm.id in modnames or nm.id in BUILTINS:
            continue
        if opn:
            continue
        undefined.setdefault(nm.id, nm)
    n_ok = 0
    for name in list(undefined):
        if exceptions and (q, name) in exceptions:
            rep.note('R-NAME exception %s:%s name %s: %s' % (m.rel, q, name, exceptions[(q, name)]))
            del undefined[name]
    for name, node in sorted(undefined.items()):
        rep.ob(rule, '%s:%s' % (m.rel, q), False,
               'name %r is used but defined nowhere in the module, its star imports or builtins' % name,
               m.rel, node.lineno, what='undefined name ' + name)
    # attribute chains into repo modules
    for n in own_nodes(fn):
        if isinstance(n, ast.Attribute) and isinstance(n.ctx, ast.Load):
            base = n.value
            root = base
            while isinstance(root, ast.Attribute):
                root = root.value
            if not isinstance(root, ast.Name) or root.id in vis and root.id not in local_imports(m, fn):
                continue
            r = prog.resolve_expr(m, n, scope=fn)
            if r and r[0] == 'missing':
                rep.ob(rule, '%s:%s' % (m.rel, q), False,
                       'module %s has no attribute %r' % (r[1].name, r[2]), m.rel, n.lineno,
                       what='missing attribute %s.%s' % (r[1].name, r[2]))
            elif r and r[0] in ('func', 'class', 'module', 'value'):
                n_ok += 1
    rep.ob(rule, '%s:%s' % (m.rel, q), not undefined, 'all %d free names resolve' % n_ok, m.rel, fn.lineno,
           what='free names resolve') if not undefined else None
    return not undefined


def rule_sig(rep, prog, m, fn, rule='R-SIG'):
    """calls that resolve to a repo function conform to its signature (arity, keyword names)"""
    q = getattr(fn, '_qualname', fn.name)
    loc, _, _ = bound_locals(fn)
    count = 0
    for n in own_nodes(fn):
        if not isinstance(n, ast.Call):
            continue
        root = n.func
        while isinstance(root, ast.Attribute):
            root = root.value
        if isinstance(root, ast.Name) and root.id in loc and root.id not in local_imports(m, fn):
            continue
        callee = prog.resolve_call(m, n, scope=fn)
        if callee is None:
            continue
        if getattr(callee, '_class', None) is not None:
            continue
        if callee.decorator_list:
            continue
        _, problems = bind_call(callee, n)
        count += 1
        rep.analysed['call_sites'] += 1
        rep.ob(rule, '%s:%s' % (m.rel, q), not problems,
               '; '.join(problems) if problems else 'call conforms to %s%s' % (callee._qualname, tuple(positional_params(callee))),
               m.rel, n.lineno, what='call %s' % (dotted(n.func) or callee._qualname) + ('' if not problems else ' ' + norm_text(ast.unparse(n))[:120]))
    return count


# ---------------------------------------------------------------------------
# R-DEF  (definite assignment with correlated guards)
# ---------------------------------------------------------------------------

def _cond_key(test):
    """(text, polarity) normal form of a test: strips `not`, `== True/False`"""
    pol = True
    while True:
        if isinstance(test, ast.UnaryOp) and isinstance(test.op, ast.Not):
            pol = not pol
            test = test.operand
            continue
        if isinstance(test, ast.Compare) and len(test.ops) == 1 and isinstance(test.comparators[0], ast.Constant) \
                and isinstance(test.comparators[0].value, bool) and isinstance(test.ops[0], (ast.Eq, ast.Is, ast.NotEq, ast.IsNot)):
            v = test.comparators[0].value
            if isinstance(test.ops[0], (ast.NotEq, ast.IsNot)):
                v = not v
            if not v:
                pol = not pol
            test = test.left
            continue
        break
    return norm_text(ast.unparse(test)), pol


def _names_in(node):
    return {n.id for n in ast.walk(node) if isinstance(n, ast.Name)}


class DefState:
    __slots__ = ('d', 'facts')

    def __init__(self, d, facts):
        self.d, self.facts = d, facts

    def __eq__(self, o):
        return isinstance(o, DefState) and self.d == o.d and self.facts == o.facts


class DefAnalysis(Analysis):
    for_body_runs_at_least_once = True

    def __init__(self, fn, loop_once=True):
        self.fn = fn
        self.locals, self.outer, self.comp = bound_locals(fn)
        self.findings = {}   # name -> first node
        self.for_body_runs_at_least_once = loop_once

    def initial(self):
        return DefState(frozenset(func_params(self.fn)), frozenset())

    def copy(self, s):
        return DefState(s.d, s.facts)

    def join(self, a, b):
        return DefState(a.d & b.d, a.facts & b.facts)

    def expr(self, e, s, st):
        if e is None:
            return s
        fake = ast.FunctionDef(name='_', args=ast.arguments(posonlyargs=[], args=[], kwonlyargs=[], kw_defaults=[], defaults=[]),
                               body=[ast.Expr(value=e)], decorator_list=[])
        walrus = set()
        for nm, extra in _scoped_loads(fake):
            if nm.id in self.locals and nm.id not in s.d and nm.id not in extra and nm.id not in walrus:
                self.findings.setdefault(nm.id, nm)
        for n in ast.walk(e):
            if isinstance(n, ast.NamedExpr) and isinstance(n.target, ast.Name):
                s = self._define({n.target.id}, s)
        return s

    def _define(self, names, s):
        facts = frozenset(f for f in s.facts if not (f[2] & names))
        return DefState(s.d | frozenset(names), facts)

    def assign(self, target, value, s, st):
        names = {n.id for n in ast.walk(target) if isinstance(n, ast.Name) and isinstance(n.ctx, ast.Store)}
        # subscripts / attributes on the target side are uses
        for n in ast.walk(target):
            if isinstance(n, ast.Name) and isinstance(n.ctx, ast.Load):
                if n.id in self.locals and n.id not in s.d:
                    self.findings.setdefault(n.id, n)
        if isinstance(target, ast.Name):
            names.add(target.id)
        return self._define(names, s) if names else s

    def simple(self, st, s):
        if isinstance(st, ast.Delete):
            gone = {t.id for t in st.targets if isinstance(t, ast.Name)}
            return DefState(s.d - gone, s.facts)
        return s

    def _apply(self, test, s, truth):
        key, pol = _cond_key(test)
        eff = (truth == pol)
        add = set()
        for (k, p, names_in_cond, vars_) in s.facts:
            if k == key and p == eff:
                add |= vars_
        if add:
            s = DefState(s.d | add, s.facts)
        if isinstance(test, ast.BoolOp):
            if (isinstance(test.op, ast.And) and truth) or (isinstance(test.op, ast.Or) and not truth):
                for v in test.values:
                    s = self._apply(v, s, truth)
        if isinstance(test, ast.UnaryOp) and isinstance(test.op, ast.Not):
            s = self._apply(test.operand, s, not truth)
        return s

    def branch(self, test, s, truth):
        return self._apply(test, self.copy(s), truth)

    def after_if(self, node, s_before, o_t, o_f, joined):
        if joined is None or o_t is None or o_f is None:
            return joined
        key, pol = _cond_key(node.test)
        cn = frozenset(_names_in(node.test))
        stored = set()
        for b in node.body + node.orelse:
            for n in ast.walk(b):
                if isinstance(n, ast.Name) and isinstance(n.ctx, ast.Store):
                    stored.add(n.id)
        if cn & stored:
            return joined
        facts = set(joined.facts)
        vt = o_t.d - o_f.d
        vf = o_f.d - o_t.d
        if vt:
            facts.add((key, pol, cn, frozenset(vt)))
        if vf:
            facts.add((key, not pol, cn, frozenset(vf)))
        return DefState(joined.d, frozenset(facts))


def rule_def(rep, m, fn, exceptions=None, rule='R-DEF', loop_once=True):
    """no use of a local variable on a path from entry that carries no definition"""
    exceptions = exceptions or {}
    an = DefAnalysis(fn, loop_once)
    q = getattr(fn, '_qualname', fn.name)
    rep.saw_function(m.rel + ':' + q)
    Engine(an).run_function(fn, an.initial())
    bad = 0
    for name, node in sorted(an.findings.items()):
        if (q, name) in exceptions:
            rep.note('R-DEF exception %s:%s variable %s: %s' % (m.rel, q, name, exceptions[(q, name)]))
            continue
        bad += 1
        rep.ob(rule, '%s:%s' % (m.rel, q), False,
               'local %r may be used before assignment (a path from the function entry reaches line %d without binding it)' % (name, node.lineno),
               m.rel, node.lineno, what='possibly unbound ' + name)
    if not bad:
        rep.ob(rule, '%s:%s' % (m.rel, q), True, 'every local is bound on every path to each of its uses', m.rel, fn.lineno,
               what='definite assignment')
    return an.findings


# ---------------------------------------------------------------------------
# R-RET
# ---------------------------------------------------------------------------

class _Triv(Analysis):
    def join(self, a, b):
        return a


def rule_ret(rep, m, fn, rule='R-RET'):
    """a function with a value-returning path has no path that falls off the end (implicit None)"""
    q = getattr(fn, '_qualname', fn.name)
    has_value = False
    is_gen = False
    for n in own_nodes(fn):
        if isinstance(n, ast.Return) and n.value is not None and not (isinstance(n.value, ast.Constant) and n.value.value is None):
            has_value = True
        if isinstance(n, (ast.Yield, ast.YieldFrom)):
            is_gen = True
    if not has_value or is_gen:
        return None
    rep.saw_function(m.rel + ':' + q)
    exits = Engine(_Triv()).run_function(fn, 1)
    falls = [e for e in exits if e.kind == 'fall' or (e.kind == 'return' and e.node.value is None)]
    ok = not falls
    line = fn.lineno
    det = 'all paths return a value or raise'
    if falls:
        e = falls[0]
        line = getattr(e.node, 'lineno', fn.lineno)
        det = 'a path falls off the end of the function (returns None) although other paths return a value'
    rep.ob(rule, '%s:%s' % (m.rel, q), ok, det, m.rel, line, what='no implicit None return')
    return ok


# ---------------------------------------------------------------------------
# R-NPIDX: a list of slice objects / newaxis must be converted to a tuple before it is used as an index
# ---------------------------------------------------------------------------

def _is_slice_like(e):
    if isinstance(e, ast.Call) and dotted(e.func) in ('slice',):
        return True
    if isinstance(e, ast.Name) and e.id in ('nuax', 'newaxis'):
        return True
    if isinstance(e, ast.Attribute) and e.attr == 'newaxis':
        return True
    if isinstance(e, ast.Constant) and e.value is None:
        return True
    return False


def _is_slice_list_expr(v):
    """a list display / repetition / comprehension whose elements are slices or newaxis, used directly as an index"""
    if isinstance(v, ast.List) and v.elts and all(_is_slice_like(e) for e in v.elts):
        return True
    if isinstance(v, ast.ListComp) and _is_slice_like(v.elt):
        return True
    if isinstance(v, ast.BinOp) and isinstance(v.op, ast.Mult):
        return _is_slice_list_expr(v.left) or _is_slice_list_expr(v.right)
    if isinstance(v, ast.BinOp) and isinstance(v.op, ast.Add):
        return _is_slice_list_expr(v.left) and _is_slice_list_expr(v.right)
    return False


def rule_npindex(rep, m, fn, rule='R-NPIDX'):
    """numpy (>= 1.23) rejects a *list* of slices/newaxis as a multi-dimensional index: such index lists must be passed
    through tuple() before use"""
    q = getattr(fn, '_qualname', fn.name)
    kinds = {}      # var -> 'slicelist' | 'tuple'
    order = []
    for n in own_nodes(fn):
        order.append(n)
    n_sites = 0
    bad = []
    for n in sorted((x for x in order if hasattr(x, 'lineno')), key=lambda x: (x.lineno, getattr(x, 'col_offset', 0))):
        if isinstance(n, ast.Assign):
            v = n.value
            tg = n.targets[0]
            pairs = list(zip(tg.elts, v.elts)) if isinstance(tg, ast.Tuple) and isinstance(v, ast.Tuple) and len(tg.elts) == len(v.elts) else [(tg, v)]
            for t, val in pairs:
                if not isinstance(t, ast.Name):
                    if isinstance(t, ast.Subscript) and isinstance(t.value, ast.Name) and t.value.id in kinds and _is_slice_like(val) and kinds[t.value.id] != 'tuple':
                        kinds[t.value.id] = 'slicelist'
                    continue
                if isinstance(val, ast.List) and val.elts and all(_is_slice_like(e) for e in val.elts):
                    kinds[t.id] = 'slicelist'
                elif isinstance(val, ast.ListComp) and _is_slice_like(val.elt):
                    kinds[t.id] = 'slicelist'
                elif isinstance(val, ast.BinOp) and isinstance(val.op, ast.Mult) and isinstance(val.left, ast.List) and val.left.elts and all(_is_slice_like(e) for e in val.left.elts):
                    kinds[t.id] = 'slicelist'
                elif isinstance(val, ast.Call) and dotted(val.func) == 'tuple':
                    kinds[t.id] = 'tuple'
                elif isinstance(val, ast.Call) and dotted(val.func) == 'list' and val.args and isinstance(val.args[0], ast.Name) and kinds.get(val.args[0].id) == 'slicelist':
                    kinds[t.id] = 'slicelist'
                elif t.id in kinds:
                    del kinds[t.id]
        elif isinstance(n, ast.Subscript) and isinstance(n.slice, ast.Name) and kinds.get(n.slice.id) in ('slicelist', 'tuple'):
            n_sites += 1
            if kinds[n.slice.id] == 'slicelist':
                bad.append(n)
        elif isinstance(n, ast.Subscript) and _is_slice_list_expr(n.slice):
            n_sites += 1
            bad.append(n)
    for n in bad:
        nm = n.slice.id if isinstance(n.slice, ast.Name) else 'display'
        rep.ob(rule, '%s:%s' % (m.rel, q), False, '`%s` indexes with a list of slices/newaxis; numpy requires a tuple here (IndexError at run time)' % ast.unparse(n)[:80],
               m.rel, n.lineno, what='index list %s converted with tuple() before use' % nm)
    if n_sites and not bad:
        rep.ob(rule, '%s:%s' % (m.rel, q), True, '%d uses of constructed multi-dimensional indices, all tuples' % n_sites, m.rel, fn.lineno, what='index lists converted with tuple() before use')
    return n_sites


# ---------------------------------------------------------------------------------------------------------------------
# R-SIG(ext): keyword arguments passed to a third-party function exist in the signature of the installed version
_EXT_CACHE = {}


def _site_packages():
    import glob
    c = sorted(glob.glob('/venv/lib/python3*/site-packages'))
    return c[0] if c else None


def ext_signature(dotted_name):
    """(parameter names, has **kwargs, file, line) of e.g. scipy.optimize.fmin_l_bfgs_b, read from the sources of the package
    installed in the repository's own environment (/venv); None when it cannot be located.  Nothing is imported."""
    if dotted_name in _EXT_CACHE:
        return _EXT_CACHE[dotted_name]
    res = None
    sp = _site_packages()
    parts = dotted_name.split('.')
    if sp and len(parts) >= 2:
        pkgdir = os.path.join(sp, *parts[:-1])
        fname = parts[-1]
        cands = []
        if os.path.isdir(pkgdir):
            cands = sorted(os.path.join(pkgdir, f) for f in os.listdir(pkgdir) if f.endswith('.py'))
        elif os.path.isfile(pkgdir + '.py'):
            cands = [pkgdir + '.py']
        for f in cands:
            try:
                src = open(f, encoding='utf-8', errors='replace').read()
            except OSError:
                continue
            if 'def %s(' % fname not in src:
                continue
            try:
                tree = ast.parse(src)
            except SyntaxError:
                continue
            for n in tree.body:
                if isinstance(n, ast.FunctionDef) and n.name == fname:
                    a = n.args
                    names = [x.arg for x in a.posonlyargs + a.args + a.kwonlyargs]
                    res = (names, a.kwarg is not None, f, n.lineno)
                    break
            if res:
                break
    _EXT_CACHE[dotted_name] = res
    return res


def rule_extsig(rep, m, fn, prefixes=('scipy.optimize.',), rule='R-SIG(ext)'):
    import_alias = {}
    n_sites = 0
    for c in own_nodes(fn):
        if not isinstance(c, ast.Call):
            continue
        f = dotted(c.func) or ''
        if not f.startswith(prefixes):
            continue
        sig = ext_signature(f)
        q = '%s:%s call %s' % (m.rel, getattr(fn, '_qualname', fn.name), f)
        if sig is None:
            rep.note('%s: installed signature of %s not found; keyword check skipped' % (q, f))
            continue
        names, has_kw, file, line = sig
        n_sites += 1
        bad = [k.arg for k in c.keywords if k.arg is not None and k.arg not in names and not has_kw]
        too_many = len(c.args) > len(names) and not has_kw
        rep.ob(rule, q, not bad and not too_many,
               ('keyword(s) %s not accepted by %s as installed (%s:%d: %s)' % (bad, f, os.path.relpath(file, '/venv'), line, ', '.join(names))) if bad or too_many
               else 'all %d keywords accepted by the installed %s' % (len(c.keywords), f), m.rel, c.lineno,
               what='keywords passed to %s exist in the installed signature (TypeError otherwise)' % f)
    return n_sites


# ---------------------------------------------------------------------------------------------------------------------
# R-CLOSURE: a function object created inside a loop / comprehension that reads the iteration variable reads its LAST value
def rule_closure(rep, m, fn, rule='R-CLOSURE'):
    """lambdas / nested defs created per iteration that refer to the iteration variable by name (not through a default argument)
    and outlive the iteration all see the value of the last iteration (late binding)"""
    bad = []
    n_sites = 0
    for node in own_nodes(fn) if False else ast.walk(fn):
        if not isinstance(node, (ast.Lambda, ast.FunctionDef)) or node is fn:
            continue
        a = node.args
        own_params = {x.arg for x in a.posonlyargs + a.args + a.kwonlyargs} | ({a.vararg.arg} if a.vararg else set()) | ({a.kwarg.arg} if a.kwarg else set())
        body_nodes = [node.body] if isinstance(node, ast.Lambda) else node.body
        loads, stores = set(), set()
        for b in body_nodes:
            for x in ast.walk(b):
                if isinstance(x, ast.Name):
                    (loads if isinstance(x.ctx, ast.Load) else stores).add(x.id)
        free = loads - own_params - stores
        if not free:
            continue
        # enclosing iteration constructs up to fn
        child, par = node, getattr(node, '_parent', None)
        while par is not None and par is not fn:
            itervars = set()
            kind = None
            if isinstance(par, (ast.ListComp, ast.SetComp, ast.GeneratorExp, ast.DictComp)):
                for g in par.generators:
                    itervars |= {x.id for x in ast.walk(g.target) if isinstance(x, ast.Name)}
                kind = 'comprehension'
            elif isinstance(par, (ast.For, ast.AsyncFor)) and child is not par.iter:
                itervars = {x.id for x in ast.walk(par.target) if isinstance(x, ast.Name)}
                kind = 'loop'
            captured = free & itervars
            if captured:
                n_sites += 1
                # consumed inside the iteration: called at once, or passed directly to a call in the same statement (loops only)
                p1 = getattr(node, '_parent', None)
                called_now = isinstance(p1, ast.Call) and p1.func is node
                passed = kind == 'loop' and isinstance(p1, (ast.Call, ast.keyword))
                local_use = False
                if kind == 'loop' and isinstance(p1, ast.Assign) and len(p1.targets) == 1 and isinstance(p1.targets[0], ast.Name):
                    # bound to a name that is only called / passed on inside the same iteration
                    t = p1.targets[0].id
                    inside = {id(x) for x in ast.walk(par)}
                    uses = [x for x in ast.walk(fn) if isinstance(x, ast.Name) and x.id == t and isinstance(x.ctx, ast.Load)]
                    escapes = False
                    for u in uses:
                        up = getattr(u, '_parent', None)
                        if id(u) not in inside:
                            escapes = True
                        elif isinstance(up, ast.Call) and (up.func is u or u in up.args):
                            f_ = dotted(up.func) or ''
                            if f_.split('.')[-1] in ('append', 'extend', 'insert', 'setdefault', 'add'):
                                escapes = True
                        elif isinstance(up, ast.keyword):
                            pass
                        else:
                            escapes = True
                    local_use = bool(uses) and not escapes
                if not (called_now or passed or local_use):
                    bad.append('%s at line %d reads %s of the enclosing %s by name: every such function sees the last value'
                               % ('lambda' if isinstance(node, ast.Lambda) else 'def ' + node.name, node.lineno, sorted(captured), kind))
            child, par = par, getattr(par, '_parent', None)
    q = '%s:%s' % (m.rel, getattr(fn, '_qualname', fn.name))
    if bad:
        for b in bad:
            rep.ob(rule, q, False, b, m.rel, fn.lineno, what='functions created per iteration bind the iteration value (default argument), not the variable')
    elif n_sites:
        rep.ob(rule, q, True, '%d per-iteration functions, all consumed within their iteration' % n_sites, m.rel, fn.lineno,
               what='functions created per iteration bind the iteration value (default argument), not the variable')
    return n_sites, bad


_WIDE_DTYPES = {'float', 'numpy.float64', 'np.float64', 'numpy.double', 'np.double', "'float64'", "'float'", "'d'", 'numpy.float_', 'np.float_', 'numpy.longdouble', 'np.longdouble',
                'int', 'numpy.int64', 'np.int64', 'numpy.intp', 'np.intp', "'int64'", "'int'", 'numpy.int_', 'np.int_', 'bool', 'numpy.bool_', 'np.bool_', "'bool'", 'object', 'complex',
                'numpy.complex128', 'np.complex128'}
_MAKERS = {'zeros', 'empty', 'ones', 'full', 'array', 'asarray', 'arange', 'zeros_like', 'empty_like', 'ones_like', 'full_like', 'astype', 'sum', 'cumsum', 'add', 'linspace', 'indices', 'fromfunction', 'asanyarray'}


_NARROW_TOKENS = ('min_scalar_type', 'int8', 'int16', 'int32', 'uint', 'float16', 'float32', 'single', 'half', 'short', 'byte', "'f'", "'f4'", "'i4'", "'i2'", "'i1'", "'u1'", "'u2'", "'u4'", "'e'", 'intc')
_ACCUMULATORS = {'zeros', 'empty', 'ones', 'full'}


def rule_dtype(rep, m, fn, what, rule='R-DTYPE'):
    """arrays that receive counts, totals or spectra are created in a wide, fixed type (numpy's default float64 / int64): a `dtype`
    that is narrower (uint8, int16, float32, numpy.min_scalar_type(..)) wraps or truncates for large samples, and one borrowed from
    an argument (`dtype=phi.dtype`) truncates whenever the caller's array is integer-valued.  One obligation per function; every
    explicit dtype in an array constructor / astype / reduction is listed."""
    q = getattr(fn, '_qualname', fn.name)
    bad, seen = [], 0
    for c in own_nodes(fn):
        if not isinstance(c, ast.Call):
            continue
        name = dotted(c.func) or (c.func.attr if isinstance(c.func, ast.Attribute) else '')
        last = name.split('.')[-1]
        if last not in _MAKERS:
            continue
        dts = [k.value for k in c.keywords if k.arg == 'dtype']
        if last == 'astype' and c.args:
            dts.append(c.args[0])
        for d in dts:
            seen += 1
            t = ast.unparse(d)
            if t in _WIDE_DTYPES or t == 'None':
                continue
            if isinstance(d, ast.Name) and d.id == 'dtype':      # a dtype parameter handed through (Spectrum.__new__)
                continue
            narrow = any(k in t for k in _NARROW_TOKENS)
            borrowed = isinstance(d, ast.Attribute) and d.attr == 'dtype'
            # a narrow type is wrong wherever counts or densities are held; a borrowed one (`dtype=phi.dtype`) only for the arrays that
            # RECEIVE results (zeros / empty / ones / full): index ranges or orders kept in the type of the grid lose nothing
            if narrow or (borrowed and last in _ACCUMULATORS):
                bad.append((c.lineno, '%s(..., dtype=%s)' % (name or last, t)))
    rep.ob(rule, '%s:%s' % (m.rel, q), not bad,
           ('%d explicit dtype(s), all wide and fixed' % seen) if not bad else
           '; '.join('line %d: `%s` is narrower than float64/int64 or depends on an argument: values wrap or are truncated' % b for b in bad[:3]),
           m.rel, fn.lineno, what=what)
    return not bad
