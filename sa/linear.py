"""R-LIN: a quantity computed from the density must be a *linear* function of it (superposition), decided by a taint analysis
with three classes per expression:

    U  does not depend on the tainted inputs
    L  linear in the tainted inputs (with coefficients of class U)
    N  depends on them non-linearly

U + L is affine, not linear; it is reported unless the U operand is a literal zero.  Products/quotients follow the usual rules
(L*U = L, L*L = N, U/L = N), powers other than 1 of L are N, known non-linear library functions (maximum, minimum, clip, abs,
where, sqrt, exp, log, ...) of a tainted argument are N, a tainted index or mask is N.  Linear library functions (sum, dot with
one tainted factor, trapz, transposes, reshapes, slicing, copies, diff, cumsum, tensordot ...) keep L.  Calls to functions of
the repository with a tainted argument are assumed linear in it (they are analysed on their own when they belong to the same
family) and counted.  The analysis is flow-insensitive per function: a name is tainted if any assignment gives it a tainted
value.  Only definite non-linearities are reported, so an unknown library function never raises an alarm by itself."""
import ast
from .srcmodel import own_nodes, dotted, func_params

LINEAR_FUNCS = {'sum', 'dot', 'matmul', 'tensordot', 'inner', 'trapz', 'trapezoid', 'cumsum', 'diff', 'mean', 'average', 'transpose', 'swapaxes', 'moveaxis', 'rollaxis',
                'reshape', 'ravel', 'flatten', 'squeeze', 'expand_dims', 'asarray', 'asanyarray', 'array', 'copy', 'ascontiguousarray', 'asfortranarray', 'take', 'concatenate',
                'stack', 'hstack', 'vstack', 'roll', 'flip', 'negative', 'add', 'subtract', 'trace', 'diagonal', 'real', 'float64', 'float', 'filled', 'astype', 'view',
                'broadcast_to', 'tile', 'repeat', 'atleast_1d', 'atleast_2d', 'fliplr', 'flipud', 'compressed', 'nansum', 'einsum', 'outer', 'multiply', 'divide',
                'true_divide', 'Spectrum', 'masked_array', 'tridiag', 'reverse_array', 'reorder_pops', 'marginalize', 'item', 'tolist', 'T'}
NONLINEAR_FUNCS = {'maximum', 'minimum', 'fmax', 'fmin', 'clip', 'abs', 'absolute', 'fabs', 'where', 'sign', 'sqrt', 'exp', 'log', 'log10', 'log2', 'power', 'square', 'floor', 'ceil',
                   'round', 'around', 'rint', 'nan_to_num', 'max', 'min', 'amax', 'amin', 'prod', 'std', 'var', 'median', 'sort', 'argsort', 'argmax', 'argmin', 'nonzero',
                   'searchsorted', 'isnan', 'isinf', 'isfinite', 'any', 'all', 'greater', 'less', 'heaviside', 'expm1', 'log1p', 'tanh', 'norm', 'select', 'piecewise', 'choose'}
SHAPE_ATTRS = {'shape', 'ndim', 'size', 'dtype', 'itemsize', 'nbytes', 'flags', 'strides', 'mask', 'pop_ids', 'folded', 'extrap_x', 'sample_sizes', 'Npop'}
U, L, N = 'U', 'L', 'N'


def root_name(t):
    while isinstance(t, (ast.Subscript, ast.Attribute, ast.Starred)):
        t = t.value
    return t.id if isinstance(t, ast.Name) else None


ORDER = {'U': 0, 'L': 1, 'N': 2}
_SUMMARY = {}
_ACTIVE = set()


def flatc(c):
    if isinstance(c, tuple):
        return max((flatc(x) for x in c), key=ORDER.get) if c else U
    return c


def joinc(a, b):
    if isinstance(a, tuple) and isinstance(b, tuple) and len(a) == len(b):
        return tuple(joinc(x, y) for x, y in zip(a, b))
    return max(flatc(a), flatc(b), key=ORDER.get)


def summary(callee, tainted_params, resolver_factory):
    """class (or tuple of classes) of the value returned by `callee` when exactly `tainted_params` carry density-dependent values"""
    key = (id(callee), frozenset(tainted_params))
    if key in _SUMMARY:
        return _SUMMARY[key]
    if key in _ACTIVE:
        return L
    _ACTIVE.add(key)
    an = LinAnalysis(callee, tainted_params, resolver_factory(callee) if resolver_factory else None, resolver_factory)
    an.run()
    res = None
    for n in own_nodes(callee):
        if isinstance(n, ast.Return) and n.value is not None:
            if isinstance(n.value, ast.Tuple):
                c = tuple(flatc(an.cls(x, rep=False)) for x in n.value.elts)
            else:
                c = an.cls(n.value, rep=False)
            res = c if res is None else joinc(res, c)
    _ACTIVE.discard(key)
    _SUMMARY[key] = res if res is not None else U
    return _SUMMARY[key]


class LinAnalysis:
    def __init__(self, fn, tainted, resolver=None, resolver_factory=None):
        self.fn = fn
        self.tainted = set(tainted)
        self.resolver = resolver                  # call node -> (callee FunctionDef, {param: arg node}) or None
        self.resolver_factory = resolver_factory  # callee -> resolver for calls inside it
        self.findings = []       # (node, text)
        self.assumed = []        # repository calls assumed linear
        self._reported = set()

    def report(self, node, text):
        k = (getattr(node, 'lineno', 0), text)
        if k not in self._reported:
            self._reported.add(k)
            self.findings.append((node, text))

    def is_zero(self, e):
        return isinstance(e, ast.Constant) and isinstance(e.value, (int, float)) and not isinstance(e.value, bool) and e.value == 0

    def cls(self, e, rep=True):
        """class of an expression; calls to repository functions returning tuples give a tuple of classes"""
        if isinstance(e, ast.Call):
            return self.call(e, rep)
        return self._cls(e, rep)

    def c1(self, e, rep=True):
        return flatc(self.cls(e, rep))

    def _cls(self, e, rep):
        if isinstance(e, ast.Constant):
            return U
        if isinstance(e, ast.Name):
            return L if e.id in self.tainted else U
        if isinstance(e, (ast.Tuple, ast.List)):
            cs = [self.c1(x, rep) for x in e.elts]
            return N if N in cs else L if L in cs else U
        if isinstance(e, ast.UnaryOp):
            c = self.c1(e.operand, rep)
            if isinstance(e.op, ast.Not) and c != U:
                return N
            return c
        if isinstance(e, ast.BinOp):
            a, b = self.c1(e.left, rep), self.c1(e.right, rep)
            if N in (a, b):
                return N
            if isinstance(e.op, (ast.Add, ast.Sub)):
                if a == U and b == U:
                    return U
                if a == L and b == L:
                    return L
                other = e.right if a == L else e.left
                if self.is_zero(other):
                    return L
                if rep:
                    self.report(e, 'affine, not linear: `%s` adds a term that does not scale with the density' % ast.unparse(e)[:70])
                return N
            if isinstance(e.op, (ast.Mult, ast.MatMult)):
                if a == L and b == L:
                    if rep:
                        self.report(e, 'product of two density-dependent factors: `%s`' % ast.unparse(e)[:70])
                    return N
                return L if L in (a, b) else U
            if isinstance(e.op, (ast.Div, ast.FloorDiv)):
                if b == L:
                    if rep:
                        self.report(e, 'division by a density-dependent quantity: `%s`' % ast.unparse(e)[:70])
                    return N
                if isinstance(e.op, ast.FloorDiv) and a == L:
                    return N
                return a
            if isinstance(e.op, ast.Pow):
                if b != U:
                    return N
                if a == L:
                    if isinstance(e.right, ast.Constant) and e.right.value == 1:
                        return L
                    if rep:
                        self.report(e, 'power of a density-dependent quantity: `%s`' % ast.unparse(e)[:70])
                    return N
                return U
            return N if L in (a, b) else U
        if isinstance(e, ast.Subscript):
            v = self.c1(e.value, rep)
            i = self.c1(e.slice, False) if not isinstance(e.slice, ast.Slice) else max([self.c1(x, False) for x in (e.slice.lower, e.slice.upper, e.slice.step) if x is not None] or [U], key='ULN'.index)
            if i != U:
                if rep:
                    self.report(e, 'density-dependent index or mask: `%s`' % ast.unparse(e)[:70])
                return N
            return v
        if isinstance(e, ast.Slice):
            return U
        if isinstance(e, ast.Attribute):
            if e.attr in SHAPE_ATTRS:
                return U
            return self.c1(e.value, rep)
        if isinstance(e, ast.Compare):
            cs = [self.c1(x, rep) for x in [e.left] + list(e.comparators)]
            return U if all(c == U for c in cs) else N
        if isinstance(e, ast.BoolOp):
            cs = [self.c1(x, rep) for x in e.values]
            return U if all(c == U for c in cs) else N
        if isinstance(e, ast.IfExp):
            t = self.c1(e.test, rep)
            a, b = self.c1(e.body, rep), self.c1(e.orelse, rep)
            if t != U:
                if rep:
                    self.report(e, 'density-dependent choice: `%s`' % ast.unparse(e)[:70])
                return N
            return N if N in (a, b) else L if L in (a, b) else U
        if isinstance(e, ast.Call):
            return self.call(e, rep)
        if isinstance(e, (ast.ListComp, ast.GeneratorExp)):
            c = self.c1(e.elt, rep)
            return c
        if isinstance(e, ast.Starred):
            return self.c1(e.value, rep)
        if isinstance(e, ast.Lambda):
            return U
        return U

    def call(self, e, rep):
        f = dotted(e.func) or ''
        last = f.split('.')[-1] if f else (e.func.attr if isinstance(e.func, ast.Attribute) else '')
        argc = [self.c1(a, rep) for a in e.args] + [self.c1(k.value, rep) for k in e.keywords if k.arg not in ('out', 'axis', 'axes', 'dtype', 'order')]
        recv = U
        if isinstance(e.func, ast.Attribute):
            base = e.func.value
            is_mod = isinstance(base, ast.Name) and base.id in ('numpy', 'np', 'scipy', 'math', 'Numerics', 'dadi', 'tridiag', 'int_c', 'PhiManip', 'Integration', 'Misc') or \
                (dotted(base) or '').startswith(('numpy.', 'scipy.', 'dadi.'))
            if not is_mod:
                recv = self.c1(base, rep)
        allc = argc + [recv]
        if all(c == U for c in allc):
            return U
        if self.resolver is not None and N not in allc:
            r = self.resolver(e)
            if r is not None:
                callee, binding = r
                tp = {p_ for p_, a_ in binding.items() if self.c1(a_, False) != U}
                self.assumed.append(ast.unparse(e.func))
                return summary(callee, tp, self.resolver_factory) if tp else U
        if N in allc:
            return N
        if last in ('len', 'range', 'isinstance', 'shape', 'zeros_like', 'ones_like', 'empty_like', 'zeros', 'ones', 'empty', 'iter', 'enumerate', 'type', 'print', 'id'):
            return U
        if last in NONLINEAR_FUNCS:
            if rep:
                self.report(e, 'non-linear operation on the density: `%s`' % ast.unparse(e)[:70])
            return N
        nl = allc.count(L)
        if last in ('dot', 'matmul', 'tensordot', 'inner', 'outer', 'multiply', 'einsum') and nl >= 2:
            if rep:
                self.report(e, 'product of two density-dependent factors: `%s`' % ast.unparse(e)[:70])
            return N
        if last in ('divide', 'true_divide') and len(argc) >= 2 and argc[1] == L:
            if rep:
                self.report(e, 'division by a density-dependent quantity: `%s`' % ast.unparse(e)[:70])
            return N
        if last in LINEAR_FUNCS:
            return L
        self.assumed.append(ast.unparse(e.func))
        return L

    def run(self):
        # fixpoint of the tainted-name set
        changed = True
        guard = 0
        while changed and guard < 20:
            guard += 1
            changed = False
            for n in own_nodes(self.fn):
                val = None
                tgts = []
                if isinstance(n, ast.Assign):
                    val, tgts = n.value, n.targets
                elif isinstance(n, ast.AugAssign):
                    val, tgts = n.value, [n.target]
                elif isinstance(n, ast.For):
                    val, tgts = n.iter, [n.target]
                elif isinstance(n, ast.Call) and any(k.arg == 'out' for k in n.keywords):
                    val = ast.Tuple(elts=list(n.args), ctx=ast.Load())
                    tgts = [k.value for k in n.keywords if k.arg == 'out']
                if val is None:
                    continue
                vc = self.cls(val, rep=False)
                for t in tgts:
                    elts = [t] if not isinstance(t, (ast.Tuple, ast.List)) else list(t.elts)
                    # a, b = E1, E2 binds element-wise
                    if isinstance(t, (ast.Tuple, ast.List)) and isinstance(val, (ast.Tuple, ast.List)) and len(val.elts) == len(t.elts) and \
                            not any(isinstance(x, ast.Starred) for x in list(val.elts) + list(t.elts)):
                        vc = tuple(self.c1(x, rep=False) for x in val.elts)
                    if isinstance(vc, tuple) and len(vc) == len(elts):
                        pairs = zip(elts, vc)
                    else:
                        pairs = [(x, flatc(vc)) for x in elts]
                    for x, c in pairs:
                        r = root_name(x)
                        if c != U and r and r not in self.tainted:
                            self.tainted.add(r)
                            changed = True
        # report pass
        for n in own_nodes(self.fn):
            if isinstance(n, ast.Assign):
                self.c1(n.value)
            elif isinstance(n, ast.AugAssign):
                v = self.c1(n.value)
                tr = root_name(n.target)
                tcls = L if tr in self.tainted else U
                if isinstance(n.op, (ast.Add, ast.Sub)):
                    if tcls == L and v == U and not self.is_zero(n.value):
                        self.report(n, 'affine, not linear: `%s` adds a term that does not scale with the density' % ast.unparse(n)[:70])
                elif isinstance(n.op, (ast.Mult, ast.MatMult)):
                    if tcls == L and v == L:
                        self.report(n, 'product of two density-dependent factors: `%s`' % ast.unparse(n)[:70])
                elif isinstance(n.op, ast.Div):
                    if v == L:
                        self.report(n, 'division by a density-dependent quantity: `%s`' % ast.unparse(n)[:70])
                elif isinstance(n.op, ast.Pow):
                    if tcls == L:
                        self.report(n, 'power of a density-dependent quantity: `%s`' % ast.unparse(n)[:70])
                # a tainted index on the left-hand side
                if isinstance(n.target, ast.Subscript):
                    self.c1(n.target)
            elif isinstance(n, ast.Return) and n.value is not None:
                self.c1(n.value)
            elif isinstance(n, ast.Expr) and isinstance(n.value, ast.Call):
                self.c1(n.value)
            if isinstance(n, ast.Assign):
                for t in n.targets:
                    if isinstance(t, ast.Subscript):
                        self.c1(t)
        return self.findings


def make_resolver_factory(prog):
    from .srcmodel import bind_call

    def factory(fn):
        m = fn._module

        def resolve(call):
            try:
                callee = prog.resolve_call(m, call, scope=fn)
            except Exception:
                callee = None
            if callee is None or not isinstance(callee, ast.FunctionDef):
                return None
            b, problems = bind_call(callee, call)
            return callee, b
        return resolve
    return factory


def rule_lin(rep, m, fn, tainted, rule='R-LIN', label=None, what='the result is a linear function of the density', prog=None):
    fac = make_resolver_factory(prog) if prog is not None else None
    an = LinAnalysis(fn, tainted, fac(fn) if fac else None, fac)
    fs = an.run()
    q = label or '%s:%s' % (m.rel, getattr(fn, '_qualname', fn.name))
    if fs:
        for node, text in fs:
            rep.ob(rule, q, False, text, m.rel, getattr(node, 'lineno', fn.lineno), what=what + ' [' + text.split(':')[0] + ']')
    else:
        rep.ob(rule, q, True, 'every operation applied to %s is linear in it (%d repository calls assumed linear in their density argument)' % ('/'.join(sorted(tainted)), len(an.assumed)),
               m.rel, fn.lineno, what=what)
    return an
