"""Findings, known-findings file, evidence JSON and exit codes (DESIGN.md 1.2).

exit 0  every obligation held (known findings are printed as KNOWN-FINDING)
exit 1  VIOLATION property=<id> replay=<path>   (an obligation failed at a construct not listed as known)
exit 2  ANALYSIS-ERROR ...                       (parse failure, vanished anchor, instance floor not met)
"""
import json, os, sys, time, re, hashlib

VERIF = os.path.dirname(os.path.dirname(os.path.abspath(__file__)))
REPO = os.environ.get('VERIF_REPO', '/repo')
KNOWN_FILE = os.path.join(VERIF, 'known_findings.json')
EVID_DIR = os.environ.get('VERIF_EVIDENCE_DIR') or os.path.join(VERIF, 'evidence')   # redirected only by the seed-matrix tool


class AnalysisError(Exception):
    """The analysis itself could not be carried out (exit 2, never a VIOLATION)."""


def norm_text(s):
    """normalise a statement/construct text so that keys do not depend on layout"""
    return re.sub(r'\s+', ' ', str(s)).strip()


UNREC_RX = re.compile(r'not found|not recognised|unrecognised|piece missing|missing intermediate|no such expression|not evaluable|not of the form|unexpected shape|were not both found|not understood|no assignment to|does not assign|no store into|loop not found|not a single|cannot be located|= \?$|= None$', re.I)


class Obligation:
    __slots__ = ('rule', 'construct', 'ok', 'detail', 'file', 'line', 'what')

    def __init__(self, rule, construct, ok, detail='', file='', line=0, what=''):
        self.rule, self.construct, self.ok = rule, norm_text(construct), bool(ok)
        self.detail, self.file, self.line, self.what = detail, file, line, norm_text(what)

    def key(self):
        # (rule, construct, what) -- never a line number
        k = '%s|%s' % (self.rule, self.construct)
        if self.what:
            k += '|' + self.what
        return k

    def as_dict(self):
        return {'rule': self.rule, 'construct': self.construct, 'what': self.what, 'holds': self.ok,
                'detail': self.detail, 'file': self.file, 'line': self.line, 'key': self.key()}


class Report:
    def __init__(self, pid, tier='quick', explanation='', technique=''):
        self.pid, self.tier = pid, tier
        self.t0 = time.time()
        self.obls = []
        self.notes = []
        self.analysed = {'files': set(), 'functions': set(), 'call_sites': 0, 'rule_instances': {}}
        self.explanation = explanation
        self.technique = technique
        self.assumptions = []
        self.trusted = []
        self.extra = {}
        self.declined = []

    # ---- recording -------------------------------------------------------
    def ob(self, rule, construct, ok, detail='', file='', line=0, what=''):
        o = Obligation(rule, construct, ok, detail, file, line, what)
        self.obls.append(o)
        self.analysed['rule_instances'][rule] = self.analysed['rule_instances'].get(rule, 0) + 1
        if file:
            self.analysed['files'].add(file)
        return ok

    def note(self, text):
        self.notes.append(norm_text(text))

    def saw_function(self, name):
        self.analysed['functions'].add(name)

    def saw_file(self, f):
        self.analysed['files'].add(f)

    def floor(self, rule, minimum, what=''):
        n = self.analysed['rule_instances'].get(rule, 0)
        if any(not o.ok for o in self.obls):
            return   # floors guard against vacuous PASSES; a run that already fails reports its violations
        if n < minimum:
            raise AnalysisError('rule %s matched %d instance(s), fewer than the %d confirmed by reading%s'
                                % (rule, n, minimum, (' (' + what + ')') if what else ''))

    # ---- finishing -------------------------------------------------------
    def finish(self):
        known = load_known()
        mine = [k for k in known if k.get('property') == self.pid and k.get('status') == 'known']
        known_keys = {k['key']: k for k in mine}
        failed = [o for o in self.obls if not o.ok]
        viol, kf = [], []
        seen = set()
        for o in failed:
            if o.key() in seen:
                continue
            seen.add(o.key())
            if o.key() in known_keys:
                kf.append(o)
            else:
                viol.append(o)
        # a failed obligation whose construct could not even be located says "the code no longer has the shape this rule
        # was written for", not "the code is wrong": when nothing else failed the run ends as analysis-broken (exit 2), never as
        # a violation.  One recognised construct with wrong content is enough for a violation.
        tpl_all = bool(os.environ.get('VERIF_TPL_UNREC'))
        unrec = [o for o in viol if UNREC_RX.search(o.detail or '') or (tpl_all and o.rule.startswith('R-TPL'))]
        self.unrecognised = unrec
        if viol and len(unrec) == len(viol) and not os.environ.get('VERIF_STRICT_SHAPES'):
            for o in unrec[:12]:
                print('  UNRECOGNISED %s %s:%d [%s] %s -- %s' % (o.rule, o.file, o.line, o.construct, o.what, o.detail))
            only_unrecognised = True
        else:
            only_unrecognised = False
        for o in kf:
            print('KNOWN-FINDING: property=%s %s %s:%d %s -- %s' % (self.pid, o.rule, o.file, o.line, o.construct,
                                                                   known_keys[o.key()].get('description', o.detail)))
        distinct = len({o.key() for o in self.obls})
        ev = {
            'property_id': self.pid, 'tier': self.tier,
            'seed': int(os.environ.get('VERIF_SEED', '0') or 0),
            'level': 'other',
            'coverage': {
                'explanation': self.explanation,
                'technique': self.technique,
                'obligations': len(self.obls),
                'discharged': len([o for o in self.obls if o.ok]),
                'evaluations': len(self.obls),
                'distinct_nontrivial': distinct,
                'rule': 'one obligation = one rule instance evaluated on one construct of /repo; distinct = distinct (rule, construct, what) keys; every obligation is non-trivial because it is only recorded when the rule matched a construct',
                'rule_instances': dict(sorted(self.analysed['rule_instances'].items())),
                'analysed': {'files': sorted(self.analysed['files']),
                             'functions': len(self.analysed['functions']),
                             'function_names_sample': sorted(self.analysed['functions'])[:40],
                             'call_sites': self.analysed['call_sites']},
                'samples': [o.as_dict() for o in (failed[:6] + [o for o in self.obls if o.ok][:8])],
                'checker_cmd': 'python3-vt /verif/check.py %s --tier %s' % (self.pid, self.tier),
                'trusted_base': self.trusted or ['CPython ast/symtable', '/verif/sa front ends and algebra',
                                                 'compiled extensions are built from the analysed .c/.pyx'],
                'declined_clauses': self.declined,
                'notes': self.notes[:60],
                'known_findings_present': [o.key() for o in kf],
                'exhaustive': False,
            },
            'assumptions': self.assumptions,
            'wall_s': round(time.time() - self.t0, 3),
            'violations': len(viol),
        }
        ev['coverage'].update(self.extra)
        os.makedirs(EVID_DIR, exist_ok=True)
        with open(os.path.join(EVID_DIR, self.pid + '.json'), 'w') as f:
            json.dump(ev, f, indent=1, sort_keys=True)
            f.write('\n')
        nfun = len(self.analysed['functions'])
        print('%s [%s]: %d obligations over %d files / %d functions; %d held, %d failed (%d known), %d notes; %.2fs'
              % (self.pid, self.tier, len(self.obls), len(self.analysed['files']), nfun,
                 len(self.obls) - len(failed), len(failed), len(kf), len(self.notes), time.time() - self.t0))
        for r, n in sorted(self.analysed['rule_instances'].items()):
            print('   rule %-28s %4d instance(s)' % (r, n))
        if viol and only_unrecognised:
            print('ANALYSIS-ERROR property=%s: %d construct(s) the rules look for were not recognised (restructured code); nothing that was recognised is wrong - cannot decide' % (self.pid, len(unrec)))
            return 2
        if viol:
            replay = os.path.join(EVID_DIR, self.pid + '.violation.json')
            with open(replay, 'w') as f:
                json.dump({'property': self.pid, 'violations': [o.as_dict() for o in viol]}, f, indent=1)
                f.write('\n')
            for o in viol:
                print('  FAILED %s %s:%d [%s] %s -- %s' % (o.rule, o.file, o.line, o.construct, o.what, o.detail))
            print('VIOLATION property=%s replay=%s' % (self.pid, replay))
            return 1
        # nothing to replay: a replay file left by an earlier run of this property would be stale
        try:
            os.remove(os.path.join(EVID_DIR, self.pid + '.violation.json'))
        except OSError:
            pass
        return 0


def load_known():
    if not os.path.exists(KNOWN_FILE):
        return []
    with open(KNOWN_FILE) as f:
        return json.load(f).get('findings', [])


class Scoped:
    """View of a Report that keeps only the obligations a predicate selects; used when a property re-uses the rules of
    another one on the sub-set of constructs it depends on (floors of the donor module are not applicable to the sub-set)."""

    def __init__(self, rep, pred):
        self._rep, self._pred = rep, pred
        self.extra = {}
        self.kept = 0
        self.tier = rep.tier

    def ob(self, rule, construct, ok, detail='', file='', line=0, what=''):
        if self._pred(rule, norm_text(construct), norm_text(what)):
            self.kept += 1
            return self._rep.ob(rule, construct, ok, detail, file, line, what)
        return ok

    def note(self, text):
        pass

    def floor(self, rule, minimum, what=''):
        pass

    def saw_function(self, name):
        pass

    def saw_file(self, f):
        pass

    @property
    def obls(self):
        return self._rep.obls

    @property
    def analysed(self):
        return self._rep.analysed
