"""E-EFF: parameter-mutation / alias / freshness-layout analysis with interprocedural summaries (DESIGN.md 1.1).

Abstract value of a variable:  Val(aliases, layout)
  aliases : frozenset of formal-parameter names (of the function under analysis) the value MAY share memory with
            (empty = owned by this function)
  layout  : 'C'  owned and known C-contiguous (x.copy(), ascontiguousarray, zeros/empty/ones, kernel return of 'C')
            '?'  unknown layout (views, transposes, arithmetic results, parameters)
Summaries per repo function:  mutates: set of parameter names that may be written
                              ret_alias: set of parameter names the return value may alias
                              ret_layout: 'C' when every returned value is 'C'
They are iterated to a fixpoint over the whole package.
"""
import ast
from .flow import Analysis, Engine
from .srcmodel import func_params, positional_params, dotted, own_nodes, bind_call

MUTATING_METHODS = {'sort', 'append', 'remove', 'pop', 'insert', 'extend', 'clear', 'update', 'fill', 'resize', 'put',
                    'itemset', 'setflags', 'reverse', 'setdefault', 'popitem', 'partition', 'byteswap', '__setitem__',
                    'setfield', 'harden_mask', 'soften_mask', 'unshare_mask', 'discard', 'add'}
# numpy/ndarray operations whose result shares memory with their first operand / receiver
VIEW_FUNCS = {'asarray', 'asanyarray', 'transpose', 'swapaxes', 'reshape', 'ravel', 'squeeze', 'atleast_1d', 'atleast_2d',
              'expand_dims', 'moveaxis', 'rollaxis', 'broadcast_to', 'diagonal', 'flipud', 'fliplr', 'flip', 'view',
              'getdata', 'getmaskarray', 'getmask', 'asfortranarray', 'rot90', 'real', 'imag', 'masked_array', 'array_split'}
VIEW_METHODS = {'transpose', 'swapaxes', 'reshape', 'ravel', 'squeeze', 'view', 'diagonal', 'astype_nocopy', 'filled_nocopy'}
VIEW_ATTRS = {'T', 'data', 'mask', 'flat', 'real', 'imag', 'base', '_data', '_mask'}
FRESH_C_FUNCS = {'zeros', 'ones', 'empty', 'ascontiguousarray', 'zeros_like_c', 'arange', 'linspace', 'full', 'eye', 'identity'}
FRESH_C_METHODS = {'copy'}      # ndarray.copy() defaults to order='C'


class Val:
    """al: parameters whose MEMORY the value may share; ident: parameters the value may BE (same Python object);
    lay: 'C' when owned and C-contiguous"""
    __slots__ = ('al', 'lay', 'ident', 'held')

    def __init__(self, al=frozenset(), lay='?', ident=frozenset(), held=frozenset()):
        # held: parameters whose memory may be referenced by ELEMENTS of this (list-like) container
        self.al, self.lay, self.ident, self.held = frozenset(al), lay, frozenset(ident), frozenset(held)

    def __eq__(self, o):
        return isinstance(o, Val) and self.al == o.al and self.lay == o.lay and self.ident == o.ident and self.held == o.held

    def __hash__(self):
        return hash((self.al, self.lay, self.ident, self.held))

    def __repr__(self):
        return 'Val(%s,%s,%s,held=%s)' % (sorted(self.al), self.lay, sorted(self.ident), sorted(self.held))


FRESH = Val(frozenset(), '?')
FRESHC = Val(frozenset(), 'C')


def vjoin(a, b):
    if a is None:
        return b
    if b is None:
        return a
    return Val(a.al | b.al, 'C' if (a.lay == 'C' and b.lay == 'C') else '?', a.ident | b.ident, a.held | b.held)


class Summary:
    def __init__(self):
        self.mutates = set()
        self.ret_alias = set()
        self.ret_ident = set()
        self.ret_layout = '?'
        self.why = {}        # param -> (line, text) of one mutating construct

    def key(self):
        return (frozenset(self.mutates), frozenset(self.ret_alias), frozenset(self.ret_ident), self.ret_layout)


class EffState(dict):
    pass


class EffAnalysis(Analysis):
    for_body_runs_at_least_once = False

    def __init__(self, prog, m, fn, summaries, ext_summaries):
        self.prog, self.m, self.fn = prog, m, fn
        self.summaries = summaries
        self.ext = ext_summaries
        self.params = func_params(fn)
        self.star_params = {a.arg for a in (fn.args.vararg, fn.args.kwarg) if a is not None}
        self.container_params = set()
        for n in own_nodes(fn):
            if isinstance(n, (ast.Subscript, ast.Attribute)) and isinstance(n.value, ast.Name) and n.value.id in self.params:
                self.container_params.add(n.value.id)
        self.mut = {}            # param -> (line, text)
        self.gmut = []           # (global label, node, text, direct) writes into objects reachable from module-level containers
        self.mglobals = mutable_globals(m)
        self.rets = []           # Val of each returned value
        self.kernel_calls = []   # (call node, Val of first argument, callee label)
        self.calls = []          # (call node, callee FunctionDef, {param: Val})

    def initial(self):
        s = EffState()
        for p in self.params:
            s[p] = Val(frozenset([p]), '?', frozenset([p]))
        return s

    def copy(self, s):
        return EffState(s)

    def join(self, a, b):
        r = EffState()
        for k in set(a) | set(b):
            r[k] = vjoin(a.get(k), b.get(k))
        return r

    # -- evaluation ---------------------------------------------------------------------------
    def ev(self, e, s):
        if e is None:
            return FRESH
        if isinstance(e, ast.Name):
            if e.id not in s and e.id in self.mglobals:
                g = 'G:%s.%s' % (self.m.name, e.id)
                return Val(frozenset([g]), '?', frozenset([g]))
            return s.get(e.id, FRESH)
        if isinstance(e, ast.Constant):
            return FRESH
        if isinstance(e, ast.Attribute):
            r = self.prog.resolve_expr(self.m, e, scope=self.fn) if isinstance(e.value, (ast.Name, ast.Attribute)) else None
            if r is not None and r[0] == 'value' and e.attr in mutable_globals(r[1]):
                g = 'G:%s.%s' % (r[1].name, e.attr)
                return Val(frozenset([g]), '?', frozenset([g]))
            base = self.ev(e.value, s)
            if e.attr in VIEW_ATTRS:
                return Val(base.al, '?')
            if e.attr in ('shape', 'ndim', 'size', 'dtype', 'folded', 'pop_ids', 'extrap_x', 'sample_sizes', 'Npop'):
                return FRESH
            return Val(base.al, '?')
        if isinstance(e, ast.Subscript):
            base = self.ev(e.value, s)
            self.ev(e.slice, s) if not isinstance(e.slice, ast.Slice) else None
            return Val(base.al | base.held, '?', frozenset(), base.held)
        if isinstance(e, ast.Call):
            return self.call(e, s)
        if isinstance(e, ast.BinOp):
            self.ev(e.left, s)
            self.ev(e.right, s)
            return FRESH
        if isinstance(e, ast.UnaryOp):
            self.ev(e.operand, s)
            return FRESH
        if isinstance(e, (ast.Compare,)):
            self.ev(e.left, s)
            for c in e.comparators:
                self.ev(c, s)
            return FRESH
        if isinstance(e, ast.BoolOp):
            v = None
            for x in e.values:
                v = vjoin(v, self.ev(x, s))
            return v or FRESH
        if isinstance(e, ast.IfExp):
            self.ev(e.test, s)
            return vjoin(self.ev(e.body, s), self.ev(e.orelse, s))
        if isinstance(e, (ast.Tuple, ast.List, ast.Set)):
            v = None
            for x in e.elts:
                v = vjoin(v, self.ev(x.value if isinstance(x, ast.Starred) else x, s))
            if isinstance(e, ast.Tuple):
                # tuples cannot be stored into: only the aliasing of their elements matters (e.g. `return a, b`)
                return Val(v.al if v else frozenset(), '?', v.ident if v else frozenset(), v.held if v else frozenset())
            # a new list/set: stores into it do not touch the elements' owners, but its elements reference them
            return Val(frozenset(), '?', frozenset(), (v.al | v.held) if v else frozenset())
        if isinstance(e, (ast.ListComp, ast.GeneratorExp, ast.SetComp)):
            s2 = self.copy(s)
            for g in e.generators:
                it = self.ev(g.iter, s2)
                for n in ast.walk(g.target):
                    if isinstance(n, ast.Name):
                        s2[n.id] = Val(it.al, '?')
                for c in g.ifs:
                    self.ev(c, s2)
            ve = self.ev(e.elt, s2)
            return Val(frozenset(), '?', frozenset(), ve.al | ve.held)
        if isinstance(e, ast.DictComp):
            return FRESH
        if isinstance(e, ast.Dict):
            for x in e.values:
                self.ev(x, s)
            return FRESH
        if isinstance(e, ast.Starred):
            return self.ev(e.value, s)
        if isinstance(e, ast.Lambda):
            return FRESH
        return FRESH

    def _mutate(self, val, node, text, direct=False):
        for p in val.al:
            if p.startswith('G:'):
                self.gmut.append((p, node, text, direct))
                continue
            if p in self.star_params:
                continue    # *args / **kwargs are containers created for this call
            self.mut.setdefault(p, (getattr(node, 'lineno', 0), text))

    def call(self, e, s):
        fn = dotted(e.func) or ''
        last = fn.split('.')[-1]
        args = [self.ev(a.value if isinstance(a, ast.Starred) else a, s) for a in e.args]
        kws = {k.arg: self.ev(k.value, s) for k in e.keywords}
        # out= keyword writes into its argument
        if 'out' in kws and kws['out'] is not None:
            self._mutate(kws['out'], e, 'out= argument of %s' % fn)
        # method calls on a receiver
        recv = None
        if isinstance(e.func, ast.Attribute):
            recv = self.ev(e.func.value, s)
            meth = e.func.attr
            root = e.func.value
            resolved = self.prog.resolve_expr(self.m, e.func, scope=self.fn)
            is_repo = resolved is not None and resolved[0] in ('func',)
            is_module_call = resolved is not None and resolved[0] in ('func', 'class', 'ext', 'extmodule', 'module', 'missing')
            base_res = self.prog.resolve_expr(self.m, e.func.value, scope=self.fn)
            base_is_module = base_res is not None and base_res[0] in ('module', 'extmodule')
            if not base_is_module and not is_repo:
                if meth in MUTATING_METHODS and recv.al:
                    rb = e.func.value
                    direct = isinstance(rb, (ast.Name, ast.Attribute)) and any(p.startswith('G:') and p.split('.')[-1] == (rb.id if isinstance(rb, ast.Name) else rb.attr)
                                                                             for p in recv.ident)
                    self._mutate(recv, e, 'mutating method .%s()' % meth, direct=direct)
                if meth in ('append', 'extend', 'insert', 'add') and isinstance(e.func.value, ast.Name) and args:
                    nm = e.func.value.id
                    cur = s.get(nm)
                    if cur is not None:
                        hv = args[-1]
                        s[nm] = Val(cur.al, cur.lay, cur.ident, cur.held | hv.al | hv.held)
                if meth in FRESH_C_METHODS:
                    return FRESHC
                if meth in VIEW_METHODS:
                    return Val(recv.al, '?')
                if meth in ('filled', 'astype', 'tolist', 'sum', 'mean', 'flatten', 'compressed', 'round', 'cumsum', 'dot',
                            'max', 'min', 'any', 'all', 'argmin', 'argmax', 'index', 'count', 'keys', 'values', 'items',
                            'get', 'join', 'split', 'strip', 'startswith', 'format', 'fold', 'unfold', 'project',
                            'marginalize', 'swapaxes_copy'):
                    return FRESH
        # kernel table (compiled extensions): mutate and return their first argument
        if fn in self.ext:
            ex = self.ext[fn]
            for i in ex.get('mutates', ()):
                if i < len(args):
                    self._mutate(args[i], e, 'passed to compiled kernel %s, which writes its argument %d in place' % (fn, i))
            if ex.get('kernel'):
                # keep the LAST state seen for each call node (the loop fixpoint revisits nodes); a later, weaker
                # value replaces an earlier one
                self.kernel_calls = [kc for kc in self.kernel_calls if kc[0] is not e]
                self.kernel_calls.append((e, args[0] if args else FRESH, fn))
            ri = ex.get('returns')
            if ri is not None and ri < len(args):
                return Val(args[ri].al, args[ri].lay, args[ri].ident)
            return FRESHC if ex.get('fresh') else FRESH
        # numpy-style library functions
        root = fn.split('.')[0] if fn else ''
        if root in ('numpy', 'np', 'scipy', 'math', 'ma') or fn.startswith('numpy.') or fn.startswith('np.'):
            if last in FRESH_C_FUNCS:
                return FRESHC
            if last in VIEW_FUNCS:
                return Val(args[0].al if args else frozenset(), '?')
            if last == 'array':
                # numpy.array copies by default but keeps the memory order ('K'); copy=False may alias
                cp = [k for k in e.keywords if k.arg == 'copy']
                if cp and isinstance(cp[0].value, ast.Constant) and cp[0].value.value is False:
                    return Val(args[0].al if args else frozenset(), '?')
                return FRESH
            if last in ('copyto', 'put', 'place', 'putmask', 'fill_diagonal') and args:
                self._mutate(args[0], e, 'numpy.%s writes into its first argument' % last)
                return FRESH
            if last in ('seterr',):
                return FRESH
            return FRESH
        # repo functions: apply summaries
        callee = self.prog.resolve_call(self.m, e, scope=self.fn)
        if callee is None and isinstance(e.func, ast.Attribute) and isinstance(e.func.value, ast.Name) and e.func.value.id == 'self':
            cls = getattr(self.fn, '_class', None)
            if cls is not None:
                callee = self.m.funcs.get(cls.name + '.' + e.func.attr)
                if callee is not None:
                    return self._apply_summary(callee, e, s, self_val=recv)
        if callee is not None:
            return self._apply_summary(callee, e, s)
        if isinstance(e.func, ast.Name) and fn in ('list', 'tuple', 'sorted', 'dict', 'set', 'len', 'range', 'zip', 'enumerate', 'int',
                                                   'float', 'str', 'min', 'max', 'sum', 'abs', 'isinstance', 'hasattr', 'map',
                                                   'reversed', 'print', 'open', 'any', 'all', 'round', 'type', 'callable', 'iter', 'next'):
            if fn in ('zip', 'enumerate', 'reversed', 'iter', 'map'):
                v = None
                for a in args:
                    v = vjoin(v, a)
                return Val(v.al if v else frozenset(), '?')
            return FRESH
        # unknown callee: conservatively the result may alias any argument, nothing is mutated
        v = None
        for a in args:
            v = vjoin(v, a)
        if recv is not None:
            v = vjoin(v, recv)
        return Val(frozenset(), '?') if v is None else Val(frozenset(), '?')

    def _apply_summary(self, callee, e, s, self_val=None):
        sm = self.summaries.get(id(callee))
        is_method = getattr(callee, '_class', None) is not None and positional_params(callee)[:1] == ['self'] or \
            (getattr(callee, '_class', None) is not None and positional_params(callee)[:1] and positional_params(callee)[0] in ('self', 'cls', 'subtype'))
        skip = bool(self_val is not None)
        binding, problems = bind_call(callee, e, skip_self=skip)
        vals = {p: self.ev(a, s) for p, a in binding.items()}
        if self_val is not None:
            vals[positional_params(callee)[0]] = self_val
        self.calls.append((e, callee, vals))
        if sm is None:
            return FRESH
        for p in sm.mutates:
            if p in vals and vals[p].al:
                self._mutate(vals[p], e, 'passed as %r to %s, which modifies it' % (p, callee._qualname))
        al = frozenset()
        idn = frozenset()
        for p in sm.ret_alias:
            if p.startswith('G:'):
                al |= frozenset([p])
                continue
            if p in vals:
                al |= vals[p].al
                if p in getattr(sm, 'ret_ident', ()):
                    idn |= vals[p].ident
        lay = sm.ret_layout
        if sm.ret_alias:
            lay = 'C' if (sm.ret_layout == 'C' or all(vals.get(p, FRESH).lay == 'C' for p in sm.ret_alias)) and \
                all(vals.get(p, FRESH).lay == 'C' for p in sm.ret_alias) else '?'
        return Val(al, lay, idn)

    # -- engine hooks -----------------------------------------------------------------------------
    def expr(self, e, s, st):
        v = self.ev(e, s)
        if isinstance(st, ast.Return) and st.value is e:
            self.rets.append((st, v))
        return s

    def assign(self, target, value, s, st):
        if isinstance(st, ast.AugAssign):
            t = st.target
            if isinstance(t, ast.Name):
                cur = s.get(t.id, FRESH)
                # `x += y` rebinds immutable scalars but updates arrays/lists in place: it counts as a write only
                # for parameters the function itself treats as containers (subscripts them or takes attributes)
                hit = Val(frozenset(p for p in cur.al if p in self.container_params or p.startswith('G:')), cur.lay)
                if hit.al:
                    self._mutate(hit, st, 'augmented assignment `%s` updates the object in place' % ast.unparse(st)[:60])
                return s
            self._store(t, s, st)
            return s
        if isinstance(st, (ast.For, ast.AsyncFor)) and target is st.target:
            it = st.iter
            if isinstance(it, ast.Call) and dotted(it.func) == 'enumerate' and it.args and isinstance(target, ast.Tuple) and len(target.elts) == 2:
                self._bind(target.elts[0], FRESH, s, st)
                target, it = target.elts[1], it.args[0]
            if isinstance(it, ast.Call) and dotted(it.func) == 'zip' and isinstance(target, ast.Tuple) and len(target.elts) == len(it.args):
                for t, a in zip(target.elts, it.args):
                    v = self.ev(a, s)
                    self._bind(t, Val(v.al | v.held, '?', frozenset(), v.held), s, st)
                return s
            v = self.ev(it, s)
            self._bind(target, Val(v.al | v.held, '?', frozenset(), v.held), s, st)
            return s
        if value is None or isinstance(value, (ast.FunctionDef, ast.ClassDef, ast.AsyncFunctionDef)):
            self._bind(target, FRESH, s, st)
            return s
        if isinstance(target, (ast.Tuple, ast.List)) and isinstance(value, (ast.Tuple, ast.List)) and len(target.elts) == len(value.elts):
            vals = [self.ev(v, s) for v in value.elts]
            for t, v in zip(target.elts, vals):
                self._bind(t, v, s, st)
            return s
        v = self.ev(value, s)
        self._bind(target, v, s, st)
        return s

    def _bind(self, target, v, s, st):
        if isinstance(target, ast.Name):
            s[target.id] = v
        elif isinstance(target, (ast.Tuple, ast.List)):
            for x in target.elts:
                self._bind(x.value if isinstance(x, ast.Starred) else x, Val(v.al | v.held, '?', frozenset(), v.held), s, st)
        else:
            # a store through a subscript/attribute writes into the base object; the stored value is NOT
            # tracked as a new alias of the container (element stores of scalars dominate in this code base;
            # documented unsoundness: mutation through an object previously stored into a local container)
            self._store(target, s, st)

    def _store(self, target, s, st):
        """a store through a subscript writes into the memory the base shares; an attribute store changes the
        Python object itself (only a parameter the base may BE), except for the memory-backed attributes"""
        base = target.value
        bv = self.ev(base, s)
        if isinstance(target, ast.Attribute) and target.attr not in ('mask', 'data', 'shape', 'flat', 'real', 'imag', '_mask', '_data'):
            bv = Val(bv.ident, bv.lay, bv.ident)
        if bv.al:
            direct = isinstance(base, (ast.Name, ast.Attribute)) and any(p.startswith('G:') and p.split('.')[-1] == (base.id if isinstance(base, ast.Name) else base.attr)
                                                                           for p in bv.ident)
            self._mutate(bv, st, 'store `%s`' % ast.unparse(st)[:70], direct=direct)

    def simple(self, st, s):
        if isinstance(st, ast.Delete):
            for t in st.targets:
                if isinstance(t, (ast.Subscript, ast.Attribute)):
                    self._store(t, s, st)
                elif isinstance(t, ast.Name):
                    s.pop(t.id, None)
        return s


_MG = {}


def mutable_globals(m):
    """module-level names bound to a dict / list / set display or constructor (memo caches, logs)"""
    if m.name not in _MG:
        out = set()
        for name, vals in m.toplevel.items():
            for v in vals:
                if isinstance(v, (ast.Dict, ast.List, ast.Set)) or (isinstance(v, ast.Call) and (dotted(v.func) or '').split('.')[-1] in
                                                                    ('dict', 'list', 'set', 'defaultdict', 'OrderedDict')):
                    out.add(name)
        _MG[m.name] = out
    return _MG[m.name]


def analyse(prog, m, fn, summaries, ext):
    an = EffAnalysis(prog, m, fn, summaries, ext)
    Engine(an, max_iter=6).run_function(fn, an.initial())
    return an


def compute_summaries(prog, ext, modules=None, max_rounds=8):
    """fixpoint of (mutates, ret_alias, ret_layout) over every function of the selected modules"""
    fns = []
    for name, m in sorted(prog.modules.items()):
        if modules is not None and not any(name == x or name.startswith(x + '.') for x in modules):
            continue
        for q, fn in m.funcs.items():
            fns.append((m, fn))
    summaries = {id(fn): Summary() for _, fn in fns}
    results = {}
    for rnd in range(max_rounds):
        changed = False
        for m, fn in fns:
            an = analyse(prog, m, fn, summaries, ext)
            sm = summaries[id(fn)]
            old = sm.key()
            sm.mutates = set(an.mut)
            sm.gmut = list(an.gmut)
            sm.why = dict(an.mut)
            ra, ri = set(), set()
            lay = 'C' if an.rets else '?'
            for st, v in an.rets:
                ra |= v.al | v.held
                ri |= v.ident
                if v.lay != 'C':
                    lay = '?'
            sm.ret_alias = ra
            sm.ret_ident = ri
            sm.ret_layout = lay
            results[id(fn)] = an
            if sm.key() != old:
                changed = True
        if not changed:
            break
    return summaries, results, rnd + 1
