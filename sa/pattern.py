"""Statement patterns that are insensitive to layout, parenthesisation and the *names of local variables*.

has(text_of_function, piece, ...): `piece` is a fragment of Python (one or more statements, or an expression) written with the
local names of the confirmed form.  It matches when the fragment occurs in the function (any block, contiguous statements;
bodies of compound statements in the pattern match a contiguous part of the corresponding body) up to a consistent renaming
of local variables: an identifier of the piece is a metavariable unless it is a parameter of the function, a free (global /
imported / builtin) name of the function, or an attribute / keyword name.  A literal text match (whitespace and parentheses
removed) is tried first."""
import ast, re, builtins

_BUILTINS = set(dir(builtins))
_CACHE = {}


def flat(s):
    return re.sub(r'[()\s]', '', s)


def _parse_fn(text):
    if text in _CACHE:
        return _CACHE[text]
    try:
        tree = ast.parse(text)
    except SyntaxError:
        _CACHE[text] = None
        return None
    fn = tree.body[0] if tree.body and isinstance(tree.body[0], (ast.FunctionDef, ast.AsyncFunctionDef)) else None
    if fn is None:
        _CACHE[text] = None
        return None
    params = set()
    bound = set()
    used = set()
    for n in ast.walk(fn):
        if isinstance(n, ast.arguments):
            for a in n.posonlyargs + n.args + n.kwonlyargs + ([n.vararg] if n.vararg else []) + ([n.kwarg] if n.kwarg else []):
                (params if n is fn.args else bound).add(a.arg)
        elif isinstance(n, ast.Name):
            (bound if isinstance(n.ctx, (ast.Store, ast.Del)) else used).add(n.id)
        elif isinstance(n, (ast.FunctionDef, ast.ClassDef)) and n is not fn:
            bound.add(n.name)
        elif isinstance(n, ast.alias):
            bound.add((n.asname or n.name).split('.')[0])
        elif isinstance(n, ast.ExceptHandler) and n.name:
            bound.add(n.name)
    free = (used - bound - params) | _BUILTINS
    _CACHE[text] = (fn, params, free, bound)
    return _CACHE[text]


class _M:
    def __init__(self, literal):
        self.literal = literal      # identifiers that must match literally
        self.env = {}
        self.rev = {}

    def name(self, code_id, pat_id):
        if pat_id in self.literal:
            return code_id == pat_id
        if pat_id in self.env:
            return self.env[pat_id] == code_id
        if code_id in self.rev or code_id in self.literal and code_id != pat_id:
            # a metavariable may not capture a literal (global / parameter) name nor a name already captured
            return self.rev.get(code_id) == pat_id
        self.env[pat_id] = code_id
        self.rev[code_id] = pat_id
        return True

    def node(self, a, b):
        if isinstance(b, ast.Name):
            return isinstance(a, ast.Name) and self.name(a.id, b.id)
        if isinstance(b, ast.arg):
            return isinstance(a, ast.arg) and self.name(a.arg, b.arg)
        if type(a) is not type(b):
            return False
        if isinstance(b, ast.Constant):
            return type(a.value) is type(b.value) and a.value == b.value
        for f in b._fields:
            if f in ('ctx', 'type_comment', 'kind'):
                continue
            x, y = getattr(a, f, None), getattr(b, f, None)
            if f in ('body', 'orelse', 'finalbody') and isinstance(y, list) and y and isinstance(y[0], ast.stmt):
                if not self.block_contains(x, y):
                    return False
                continue
            if f in ('orelse', 'finalbody') and isinstance(y, list) and not y:
                continue           # the pattern does not constrain an absent else / finally
            if isinstance(y, list):
                if not isinstance(x, list) or len(x) != len(y):
                    return False
                for p, q in zip(x, y):
                    if isinstance(q, ast.AST):
                        if not self.node(p, q):
                            return False
                    elif p != q:
                        return False
            elif isinstance(y, ast.AST):
                if not isinstance(x, ast.AST) or not self.node(x, y):
                    return False
            elif x != y:
                return False
        return True

    def block_contains(self, code, pat):
        """pat statements occur contiguously somewhere in code (bindings are kept on success, rolled back on failure)"""
        if not isinstance(code, list) or len(code) < len(pat):
            return False
        for i in range(len(code) - len(pat) + 1):
            save = (dict(self.env), dict(self.rev))
            if all(self.node(code[i + k], pat[k]) for k in range(len(pat))):
                return True
            self.env, self.rev = save
        return False


def _blocks(fn):
    for n in ast.walk(fn):
        for f in ('body', 'orelse', 'finalbody'):
            b = getattr(n, f, None)
            if isinstance(b, list) and b and isinstance(b[0], ast.stmt):
                yield b
        if isinstance(n, ast.Try):
            for h in n.handlers:
                yield h.body


def _exprs(fn):
    for n in ast.walk(fn):
        if isinstance(n, ast.expr):
            yield n


def has_one(text, piece):
    if flat(piece) in flat(text):
        return True
    parsed = _parse_fn(text)
    if parsed is None:
        return False
    fn, params, free, bound = parsed
    literal = params | free
    src = piece.strip()
    pat = None
    mode = 'stmts'
    try:
        pat = ast.parse(src).body
    except SyntaxError:
        try:
            pat = [ast.parse(src + '\n    pass').body[0]]      # header of a compound statement without body
            mode = 'header'
        except SyntaxError:
            return False
    if not pat:
        return False
    if mode == 'header':
        target = pat[0]
        target.body = []
        for n in ast.walk(fn):
            if type(n) is type(target):
                m = _M(literal)
                ok = True
                for f in target._fields:
                    if f in ('body', 'orelse', 'finalbody', 'type_comment'):
                        continue
                    x, y = getattr(n, f, None), getattr(target, f, None)
                    if isinstance(y, ast.AST):
                        ok = ok and isinstance(x, ast.AST) and m.node(x, y)
                    elif isinstance(y, list):
                        ok = ok and isinstance(x, list) and len(x) == len(y) and all(m.node(p, q) for p, q in zip(x, y))
                    else:
                        ok = ok and x == y
                if ok:
                    return True
        return False
    if len(pat) == 1 and isinstance(pat[0], ast.Expr) and not isinstance(pat[0].value, ast.Call):
        # a bare expression: match any sub-expression
        for e in _exprs(fn):
            if _M(literal).node(e, pat[0].value):
                return True
        return False
    for b in _blocks(fn):
        if _M(literal).block_contains(b, pat):
            return True
    if len(pat) == 1 and isinstance(pat[0], ast.Expr):
        for e in _exprs(fn):
            if _M(literal).node(e, pat[0].value):
                return True
    return False


def has(text, *pieces):
    return all(has_one(text, p) for p in pieces)
