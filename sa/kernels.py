"""Sibling templates of the compiled finite-difference kernels (DESIGN.md Appendix A.1, A.2) and of the shared C
coefficient functions.  Facts are extracted from the parsed C (sa.cfront) and compared with the template instantiated at
(D, k); every mismatch is reported with file:line, the family member and the field."""
import ast, re
from fractions import Fraction
from .cfront import CProgram, CFor, CAssign, CDecl, CIf, CExpr, CReturn, unparse
from .algebra import Rat, Poly, Translator, AlgebraError, parse_expr
from .report import AnalysisError

GRIDS = ['xx', 'yy', 'zz', 'aa', 'bb']
EXTENTS = ['L', 'M', 'N', 'O', 'P']
AXLETTER = ['x', 'y', 'z', 'a', 'b']


def kernel_name(D, k):
    return 'implicit_%dD%s' % (D, AXLETTER[k - 1])


def tr(e, env=None):
    return Translator(env or {}).tr(e)


def is_zero_init(st, var):
    return isinstance(st, CAssign) and unparse(st.target) == var


def phi_reads(cf, D):
    """lines at which the density is read in a kernel, apart from being handed to the solver as output: exactly one read (the
    right-hand side r = phi/dt) means the coefficients do not depend on the density.  Independent of the template parse."""
    solver = 'tridiag' if D == 1 else 'tridiag_premalloc'
    reads, writes = [], []
    rhs_arrays = {}

    def scaled_copy(st):
        """R[..] = c * phi[..] with c free of phi (the right-hand side phi/dt, also when an iteration of its loop is written out
        separately): the array R, else None"""
        if not (st.op == '=' and isinstance(st.target, ast.Subscript) and isinstance(st.target.value, ast.Name) and st.target.value.id != 'phi'):
            return None
        try:
            v = Translator({}, index_hook=lambda tr_, e: Rat.atom('PHI') if isinstance(e.value, ast.Name) and e.value.id == 'phi' else None).tr(st.value)
            c = v / Rat.atom('PHI')
        except AlgebraError:
            return None
        if 'PHI' in c.atoms() or any('phi' == a.split('[')[0] for a in c.atoms()):
            return None
        return st.target.value.id
    for st in cf.walk():
        if isinstance(st, CAssign):
            if any(isinstance(n, ast.Name) and n.id == 'phi' for n in ast.walk(st.value)):
                arr = scaled_copy(st)
                if arr is not None and any(isinstance(n, ast.Name) and n.id == 'phi' for n in ast.walk(st.target)) is False:
                    if arr in rhs_arrays:
                        continue           # a further piece of the same right-hand side
                    rhs_arrays[arr] = st.line
                reads.append(st.line)
            if isinstance(st.target, ast.Subscript) and unparse(st.target.value) == 'phi':
                writes.append(st.line)
        elif isinstance(st, CExpr):
            for n in ast.walk(st.expr):
                if isinstance(n, ast.Name) and n.id == 'phi':
                    if not (isinstance(st.expr, ast.Call) and unparse(st.expr.func) in (solver,)):
                        reads.append(st.line)
        elif isinstance(st, CIf):
            for n in ast.walk(st.cond):
                if isinstance(n, ast.Name) and n.id == 'phi':
                    reads.append(st.line)
    return reads


class KernelFacts:
    def __init__(self, cf, D, k, report):
        self.cf, self.D, self.k = cf, D, k
        self.rep = report          # callable(field, ok, detail, line)
        self.G = GRIDS[:D]
        self.E = EXTENTS[:D]

    def ob(self, field, ok, detail, line=None):
        self.rep('%s.%s' % (self.cf.name, field), bool(ok), detail, line or self.cf.line)
        return ok

    # ------------------------------------------------------------------
    def check(self):
        cf, D, k = self.cf, self.D, self.k
        Gk, Ek = GRIDS[k - 1], EXTENTS[k - 1]
        pn = cf.param_names()
        others = [a for a in range(1, D + 1) if a != k]
        # ---- signature ------------------------------------------------------------------------
        nu = 'nu' if D == 1 else 'nu%d' % k
        ms = ['m%d%d' % (k, j) for j in others]
        gam, hh = ('gamma', 'h') if D == 1 else ('gamma%d' % k, 'h%d' % k)
        exp_sig = ['phi'] + self.G + [nu] + ms + [gam, hh] + (['beta'] if D == 1 else []) + ['dt'] + self.E + ['use_delj_trick']
        got = pn[:len(exp_sig)]
        self.ob('signature', got == exp_sig, 'parameters %s; expected %s' % (pn, exp_sig))
        sub = pn[len(exp_sig):]
        self.ob('signature.subrange', len(sub) in (0, 2), 'optional sub-range parameters: %s' % sub)
        types = dict((n, t) for t, n in cf.params)
        okt = all(types.get(g) == 'double*' for g in ['phi'] + self.G) and all(types.get(e) == 'int' for e in self.E) and \
            all(types.get(x) == 'double' for x in [nu, gam, hh, 'dt'] + ms)
        self.ob('signature.types', okt, 'pointer/scalar/int types of the parameters')
        # ---- collect top-level structure -----------------------------------------------------------
        body = cf.body
        mallocs = {}
        for st in body:
            if isinstance(st, CDecl) and st.init is not None and isinstance(st.init, ast.Call) and unparse(st.init.func) == 'malloc':
                try:
                    cnt = tr(st.init.args[0]) / Rat.atom('SIZEOF')
                except AlgebraError:
                    cnt = None
                mallocs[st.name] = (cnt, st.line)
        calls = [(st, st.expr) for st in cf.walk() if isinstance(st, CExpr) and isinstance(st.expr, ast.Call)]

        def find_call(name, toplevel_only=False):
            return [(st, c) for st, c in calls if unparse(c.func) == name]
        roles = {}
        # grid preparation
        for fname, arity in (('compute_dx', 3), ('compute_dfactor', 3), ('compute_xInt', 3)):
            cs = find_call(fname)
            if len(cs) != 1:
                self.ob('prep.' + fname, False, '%d calls to %s (expected 1)' % (len(cs), fname))
                return
        cdx = find_call('compute_dx')[0][1]
        d = unparse(cdx.args[2])
        self.ob('prep.compute_dx', [unparse(a) for a in cdx.args[:2]] == [Gk, Ek], 'compute_dx(%s)' % ', '.join(unparse(a) for a in cdx.args), find_call('compute_dx')[0][0].line)
        cdf = find_call('compute_dfactor')[0][1]
        dfac = unparse(cdf.args[2])
        self.ob('prep.compute_dfactor', [unparse(a) for a in cdf.args[:2]] == [d, Ek], 'compute_dfactor(%s)' % ', '.join(unparse(a) for a in cdf.args), find_call('compute_dfactor')[0][0].line)
        cxi = find_call('compute_xInt')[0][1]
        gInt = unparse(cxi.args[2])
        self.ob('prep.compute_xInt', [unparse(a) for a in cxi.args[:2]] == [Gk, Ek], 'compute_xInt(%s)' % ', '.join(unparse(a) for a in cxi.args), find_call('compute_xInt')[0][0].line)
        roles.update({d: 'dx', dfac: 'dfactor', gInt: 'xInt'})
        # ---- V / VInt loops ----------------------------------------------------------------------------
        vf = 'Vfunc_beta' if D == 1 else 'Vfunc'
        vargs_extra = ['beta'] if D == 1 else []
        found_v = {}
        for st in cf.walk():
            if isinstance(st, CFor):
                lv = unparse(st.init.target)
                for b in st.body:
                    if isinstance(b, CAssign) and isinstance(b.value, ast.Call) and unparse(b.value.func) in ('Vfunc', 'Vfunc_beta') and isinstance(b.target, ast.Subscript):
                        arr = unparse(b.target.value)
                        arg0 = unparse(b.value.args[0])
                        hi = unparse(st.cond.comparators[0])
                        lo = unparse(st.init.value)
                        found_v[arr] = (unparse(b.value.func), arg0, [unparse(a) for a in b.value.args[1:]], lo, hi, unparse(b.target.slice) == lv, b.line, lv)
        V = [a for a, f in found_v.items() if f[1].startswith(Gk + '[')]
        VI = [a for a, f in found_v.items() if f[1].startswith(gInt + '[')]
        if len(V) != 1 or len(VI) != 1:
            self.ob('V', False, 'V / VInt loops not found (%s)' % found_v)
            return
        Vn, VIn = V[0], VI[0]
        f = found_v[Vn]
        def peeled(arr):
            # the last iteration written out after a loop that stops one short: a restructuring this template does not follow
            top = [st_ for st_ in cf.body if isinstance(st_, CAssign) and isinstance(st_.target, ast.Subscript) and unparse(st_.target.value) == arr]
            return bool(top)
        okV = f[0] == vf and f[1] == '%s[%s]' % (Gk, f[7]) and f[2] == [nu] + vargs_extra and f[3] == '0' and f[4] == Ek and f[5]
        if not okV and peeled(Vn):
            # an iteration written out after the loop: decide by the content of every cell of V instead (sa.cellflow)
            okV = self.cell_content_is(Vn, '%s(%s@0%s)' % (vf, Gk, ''.join(',' + a for a in [nu] + vargs_extra)), Ek)
            if okV:
                f = f[:4] + (Ek,) + f[5:]
            elif okV is False:
                self.ob('V', False, self.cell_detail, f[6])
                return
        self.ob('V', okV,
                '%s[%s] = %s(%s, %s) for %s in [%s, %s)' % (Vn, f[7], f[0], f[1], ', '.join(f[2]), f[7], f[3], f[4]) +
                (' (loop with a peeled iteration: not recognised)' if f[4] != Ek and peeled(Vn) else ''), f[6])
        f = found_v[VIn]
        hi_ok = tr(ast.parse(f[4], mode='eval').body).equals(parse_expr('%s - 1' % Ek))
        self.ob('VInt', f[0] == vf and f[1] == '%s[%s]' % (gInt, f[7]) and f[2] == [nu] + vargs_extra and f[3] == '0' and hi_ok and f[5],
                '%s[%s] = %s(%s, %s) for %s in [%s, %s)' % (VIn, f[7], f[0], f[1], ', '.join(f[2]), f[7], f[3], f[4]), f[6])
        roles.update({Vn: 'V', VIn: 'VInt'})
        # ---- loop nest over the other axes -------------------------------------------------------------------
        # find the statement list that contains the compute_abc_nobc call, and the enclosing for-loops
        path = self._path_to(lambda st: isinstance(st, CExpr) and isinstance(st.expr, ast.Call) and unparse(st.expr.func) == 'compute_abc_nobc')
        if path is None:
            self.ob('system', False, 'no call to compute_abc_nobc')
            return
        loops = [st for st in path if isinstance(st, CFor)]
        inner = loops[-1].body if loops else cf.body
        loopvars = {}
        for lp in loops:
            lv = unparse(lp.init.target)
            loopvars[lv] = (unparse(lp.init.value), unparse(lp.cond.comparators[0]), isinstance(lp.cond.ops[0], ast.Lt), lp.line)
        # scalar copies  g = G[i]
        copies = {}
        for st in [s_ for lp in loops for s_ in lp.body] if loops else inner:       # at any level of the nest (a coordinate may be hoisted)
            if isinstance(st, CAssign) and isinstance(st.target, ast.Name) and isinstance(st.value, ast.Subscript) and st.op == '=':
                copies[st.target.id] = (unparse(st.value.value), unparse(st.value.slice))
        # map loop variable -> axis by the grid it indexes (scalar copies and boundary guards)
        axis_of_var = {}
        for nmm, (g, iv) in copies.items():
            if g in self.G and iv in loopvars:
                axis_of_var.setdefault(iv, set()).add(self.G.index(g) + 1)
        for st in inner:
            if isinstance(st, CIf):
                for n in ast.walk(st.cond):
                    if isinstance(n, ast.Subscript) and unparse(n.value) in self.G and unparse(n.slice) in loopvars:
                        axis_of_var.setdefault(unparse(n.slice), set()).add(self.G.index(unparse(n.value)) + 1)
        ok_axes = all(len(v) == 1 for v in axis_of_var.values()) and sorted(next(iter(v)) for v in axis_of_var.values()) == others and len(axis_of_var) == len(loopvars)
        self.ob('loops.axes', ok_axes, 'outer loop variables index grids of axes %s; expected exactly the axes %s' % ({k_: sorted(v) for k_, v in axis_of_var.items()}, others),
                loops[0].line if loops else cf.line)
        if not ok_axes:
            return
        var_axis = {v: next(iter(a)) for v, a in axis_of_var.items()}
        axis_var = {a: v for v, a in var_axis.items()}
        for v, (lo, hi, lt, line) in loopvars.items():
            a = var_axis[v]
            full = (lo == '0' and hi == EXTENTS[a - 1] and lt)
            subr = bool(sub) and lo == sub[0] and hi == sub[1] and lt
            self.ob('loops.bounds[%s]' % v, full or subr, 'for %s in [%s, %s) over axis %d (extent %s%s)' % (v, lo, hi, a, EXTENTS[a - 1], ', documented sub-range' if subr else ''), line)
        # ---- M calls --------------------------------------------------------------------------------------------------
        mf = 'Mfunc%dD' % D
        mcalls = {}
        for st in inner:
            if isinstance(st, CAssign) and isinstance(st.value, ast.Call) and unparse(st.value.func).startswith('Mfunc') and isinstance(st.target, ast.Name):
                mcalls[st.target.id] = (st.value, st.line, None)
            if isinstance(st, CFor):
                for b in st.body:
                    if isinstance(b, CAssign) and isinstance(b.value, ast.Call) and unparse(b.value.func).startswith('Mfunc') and isinstance(b.target, ast.Subscript):
                        mcalls[unparse(b.target.value)] = (b.value, b.line, st)
        if D == 1:
            for st in cf.body:
                if isinstance(st, CAssign) and isinstance(st.value, ast.Call) and unparse(st.value.func).startswith('Mfunc') and isinstance(st.target, ast.Name):
                    mcalls[st.target.id] = (st.value, st.line, None)
        want_first = {'Mfirst': '%s[0]' % Gk, 'Mlast': None}
        MIn = None
        for name, (call, line, loop) in sorted(mcalls.items()):
            args = [unparse(a) for a in call.args]
            coords, rest = args[1:D], args[D:]
            # resolve coordinates through the scalar copies
            axes = []
            for c in coords:
                if c in copies and copies[c][0] in self.G and copies[c][1] in var_axis:
                    axes.append((self.G.index(copies[c][0]) + 1, var_axis[copies[c][1]]))
                else:
                    mm = re.fullmatch(r'(\w+)\[(\w+)\]', c)
                    if mm and mm.group(1) in self.G and mm.group(2) in var_axis:
                        axes.append((self.G.index(mm.group(1)) + 1, var_axis[mm.group(2)]))
                    else:
                        axes.append((None, None))
            okc = unparse(call.func) == mf and [a for a, _ in axes] == others and all(a == b for a, b in axes)
            okm = rest == ms + [gam, hh]
            c0 = args[0]
            if loop is not None:
                lv = unparse(loop.init.target)
                ok0 = c0 == '%s[%s]' % (gInt, lv) and unparse(loop.init.value) == '0' and tr(loop.cond.comparators[0]).equals(parse_expr(Ek + ' - 1')) and \
                    unparse([b for b in loop.body if isinstance(b, CAssign)][0].target.slice) == lv
                MIn = name
                what = 'MInt'
            elif name == 'Mfirst':
                ok0 = c0 == '%s[0]' % Gk
                what = 'Mfirst'
            else:
                ok0 = tr(call.args[0].slice).equals(parse_expr(Ek + ' - 1')) and unparse(call.args[0].value) == Gk if isinstance(call.args[0], ast.Subscript) else False
                what = 'Mlast'
            self.ob('M.%s' % what, okc and okm and ok0,
                    '%s = %s(%s): own coordinate %s, other coordinates from axes %s (expected %s ascending), rates %s (expected %s)'
                    % (name, unparse(call.func), ', '.join(args), c0, [a for a, _ in axes], others, rest[:len(ms)], ms), line)
        if set(mcalls) != {'Mfirst', 'Mlast', MIn} or MIn is None:
            self.ob('M', False, 'expected Mfirst, Mlast and an MInt loop; found %s' % sorted(mcalls))
            return
        roles[MIn] = 'MInt'
        # ---- system assembly calls ----------------------------------------------------------------------------------------
        cd = find_call('compute_delj')
        ca = find_call('compute_abc_nobc')
        if len(cd) != 1 or len(ca) != 1:
            self.ob('system', False, 'compute_delj / compute_abc_nobc must each be called once')
            return
        dargs = [unparse(a) for a in cd[0][1].args]
        delj = dargs[4] if len(dargs) > 4 else '?'
        self.ob('system.compute_delj', dargs == [d, MIn, VIn, Ek, delj, 'use_delj_trick'], 'compute_delj(%s)' % ', '.join(dargs), cd[0][0].line)
        aargs = [unparse(a) for a in ca[0][1].args]
        A, B, C = (aargs + ['?'] * 10)[7:10]
        self.ob('system.compute_abc_nobc', aargs == [d, dfac, delj, MIn, Vn, 'dt', Ek, A, B, C], 'compute_abc_nobc(%s)' % ', '.join(aargs), ca[0][0].line)
        roles.update({delj: 'delj', A: 'a', B: 'b', C: 'c'})
        # ---- right-hand side and write-back: affine C-order index ------------------------------------------------------------
        def index_poly(sweepvar):
            tot = Rat.const(0)
            for a in range(1, D + 1):
                v = sweepvar if a == k else axis_var[a]
                term = Rat.atom(v)
                for b in range(a + 1, D + 1):
                    term = term * Rat.atom(EXTENTS[b - 1])
                tot = tot + term
            return tot
        rhs = None
        for st in inner:
            if isinstance(st, CFor):
                for b in st.body:
                    if isinstance(b, CAssign) and isinstance(b.target, ast.Subscript) and isinstance(b.value, ast.BinOp) and isinstance(b.value.op, ast.Div) \
                            and isinstance(b.value.left, ast.Subscript) and unparse(b.value.left.value) == 'phi':
                        rhs = (st, b)
        if rhs is None:
            self.ob('rhs', False, 'no loop r[i] = phi[...]/dt found')
            return
        lp, b = rhs
        lv = unparse(lp.init.target)
        R = unparse(b.target.value)
        okr = unparse(b.target.slice) == lv and unparse(lp.init.value) == '0' and unparse(lp.cond.comparators[0]) == Ek and unparse(b.value.right) == 'dt'
        try:
            oki = tr(b.value.left.slice).equals(index_poly(lv))
        except AlgebraError:
            oki = False
        if D == 1 and not (okr and oki):
            cc = self.cell_content_is(R, 'phi@0/dt', Ek)
            if cc:
                okr = oki = True
            elif cc is False:
                self.ob('rhs', False, self.cell_detail, b.line)
                return
        peel_r = not (okr and oki) and unparse(lp.cond.comparators[0]) != Ek and any(isinstance(st_, CAssign) and isinstance(st_.target, ast.Subscript) and unparse(st_.target.value) == R for st_ in (inner if D > 1 else cf.body))
        self.ob('rhs', okr and oki, '%s[%s] = phi[%s]/%s for %s in [0,%s); C-order index expected %s' % (R, unparse(b.target.slice), unparse(b.value.left.slice), unparse(b.value.right), lv,
                unparse(lp.cond.comparators[0]), index_poly(lv).canon()) + (' (loop with a peeled iteration: not recognised)' if peel_r else ''), b.line)
        roles[R] = 'r'
        # ---- boundary terms ------------------------------------------------------------------------------------------------------
        ifs = [st for st in inner if isinstance(st, CIf)]
        seen = {}
        # coordinates loaded into scalars (y = yy[jj]) may stand for the grid entry in the boundary tests: each such scalar is assigned
        # once, in a loop that encloses the tests
        coord = {}
        counts = {}
        for st_ in cf.walk():
            if isinstance(st_, CAssign) and isinstance(st_.target, ast.Name):
                counts[st_.target.id] = counts.get(st_.target.id, 0) + 1
                if st_.op == '=' and isinstance(st_.value, ast.Subscript) and re.fullmatch(r'(\w+)\[(\w+)\]', unparse(st_.value)) and unparse(st_.value.value) in self.G:
                    coord[st_.target.id] = unparse(st_.value)
        coord = {k_: v_ for k_, v_ in coord.items() if counts.get(k_) == 1}
        for st in ifs:
            flat = []

            def flatten(c):
                if isinstance(c, ast.BoolOp) and isinstance(c.op, ast.And):
                    for v in c.values:
                        flatten(v)
                else:
                    flat.append(c)
            flatten(st.cond)
            grids, mcond, val = [], None, None
            bad = False
            for c in flat:
                if not isinstance(c, ast.Compare):
                    bad = True
                    continue
                l, r_ = unparse(c.left), unparse(c.comparators[0])
                l = coord.get(l, l)
                if l in ('Mfirst', 'Mlast'):
                    mcond = (l, type(c.ops[0]).__name__, r_)
                else:
                    mm = re.fullmatch(r'(\w+)\[(\w+)\]', l)
                    if mm and isinstance(c.ops[0], ast.Eq) and mm.group(1) in self.G and mm.group(2) in var_axis and var_axis[mm.group(2)] == self.G.index(mm.group(1)) + 1:
                        grids.append((self.G.index(mm.group(1)) + 1, r_))
                    else:
                        bad = True
            if mcond is None or bad or len(st.body) != 1 or not isinstance(st.body[0], CAssign) or st.orelse:
                self.ob('boundary', False, 'unrecognised boundary statement: if(%s)' % unparse(st.cond), st.line)
                continue
            which = 'first' if mcond[0] == 'Mfirst' else 'last'
            seen[which] = True
            val = '0' if which == 'first' else '1'
            okg = sorted(a for a, _ in grids) == others and all(v == val for _, v in grids)
            okm = (mcond[1], mcond[2]) == (('LtE', '0') if which == 'first' else ('GtE', '0'))
            asg = st.body[0]
            tgt_ok = unparse(asg.target.value) == B and asg.op == '+=' and (unparse(asg.target.slice) == '0' if which == 'first' else tr(asg.target.slice).equals(parse_expr(Ek + ' - 1')))
            try:
                ref = parse_expr('(0.5/%s - Mfirst)*2/%s[0]' % (nu, d)) if which == 'first' else \
                    (Rat.const(0) - (parse_expr('-0.5/%s - Mlast' % nu)) * Rat.const(2) / Translator().tr(ast.parse('%s[%s - 2]' % (d, Ek), mode='eval').body))
                okv = Translator().tr(asg.value).equals(ref)
            except AlgebraError:
                okv = False
            self.ob('boundary.%s' % which, okg and okm and tgt_ok and okv,
                    'if(%s) %s %s %s; expected guard: all other coordinates == %s and %s, on %s[%s]' % (unparse(st.cond), unparse(asg.target), asg.op, unparse(asg.value), val,
                                                                                                      'Mfirst <= 0' if which == 'first' else 'Mlast >= 0', B, '0' if which == 'first' else Ek + '-1'), st.line)
        self.ob('boundary.count', set(seen) == {'first', 'last'} and len(ifs) == 2, '%d boundary statements (absorbing corner at 0 and at 1)' % len(ifs))
        # ---- solve and write-back --------------------------------------------------------------------------------------------------------
        solver = 'tridiag' if D == 1 else 'tridiag_premalloc'
        sc = find_call(solver)
        if len(sc) != 1:
            self.ob('solve', False, '%d calls to %s' % (len(sc), solver))
            return
        sargs = sc[0][1].args
        out = sargs[4]
        oks = [unparse(a) for a in sargs[:4]] == [A, B, C, R] and unparse(sargs[5]) == Ek
        if isinstance(out, ast.Call) and unparse(out.func) == 'addr':
            # in-place: &phi[I0] only valid for the last (unit-stride) axis
            sub_ = out.args[0]
            try:
                ok0 = unparse(sub_.value) == 'phi' and tr(sub_.slice).equals(index_poly('ZERO').subs({'ZERO': Rat.const(0)})) and k == D
            except AlgebraError:
                ok0 = False
            self.ob('solve', oks and ok0, '%s(%s): output written in place at %s (unit stride only for the last axis)' % (solver, ', '.join(unparse(a) for a in sargs), unparse(out)), sc[0][0].line)
        elif unparse(out) == 'phi' and D == 1:
            self.ob('solve', oks, '%s(%s)' % (solver, ', '.join(unparse(a) for a in sargs)), sc[0][0].line)
        else:
            T = unparse(out)
            wb = None
            for st in inner:
                if isinstance(st, CFor):
                    for b2 in st.body:
                        if isinstance(b2, CAssign) and isinstance(b2.target, ast.Subscript) and unparse(b2.target.value) == 'phi' and isinstance(b2.value, ast.Subscript) and unparse(b2.value.value) == T:
                            wb = (st, b2)
            okw = False
            det = 'no write-back loop'
            if wb:
                lp2, b2 = wb
                lv2 = unparse(lp2.init.target)
                try:
                    okw = tr(b2.target.slice).equals(index_poly(lv2)) and unparse(b2.value.slice) == lv2 and unparse(lp2.init.value) == '0' and unparse(lp2.cond.comparators[0]) == Ek
                except AlgebraError:
                    okw = False
                det = 'phi[%s] = %s[%s] for %s in [0,%s)' % (unparse(b2.target.slice), T, unparse(b2.value.slice), lv2, unparse(lp2.cond.comparators[0]))
            self.ob('solve', oks, '%s(%s)' % (solver, ', '.join(unparse(a) for a in sargs)), sc[0][0].line)
            self.ob('writeback', okw, det + '; expected the same C-order index as the right-hand side', wb[1].line if wb else sc[0][0].line)
            roles[T] = 'temp'
        # order inside the line loop: M -> delj -> abc -> rhs/boundary -> solve
        order = []
        for st in (inner if D > 1 else cf.body):
            if isinstance(st, CExpr) and isinstance(st.expr, ast.Call):
                order.append(unparse(st.expr.func))
            elif isinstance(st, CIf):
                order.append('boundary')
        seq = [x for x in order if x in ('compute_delj', 'compute_abc_nobc', 'boundary', solver)]
        self.ob('order', seq == ['compute_delj', 'compute_abc_nobc', 'boundary', 'boundary', solver], 'statement order %s' % seq)
        # ---- memory ------------------------------------------------------------------------------------------------------------------------
        need = {'dx': -1, 'dfactor': 0, 'xInt': -1, 'MInt': -1, 'V': 0, 'VInt': -1, 'delj': -1, 'a': 0, 'b': 0, 'c': 0, 'r': 0, 'temp': 0}
        for arr, role in sorted(roles.items()):
            if arr not in mallocs:
                # carved out of one larger allocation (pointer arithmetic on a workspace): sizes and overlap are not tracked here
                carved = any(isinstance(st_, CDecl) and st_.name == arr and st_.pointer and st_.init is not None and not (isinstance(st_.init, ast.Call) and unparse(st_.init.func) == 'malloc')
                             for st_ in cf.walk()) or any(isinstance(st_, CAssign) and unparse(st_.target) == arr and not (isinstance(st_.value, ast.Call) and unparse(st_.value.func) == 'malloc')
                                                          for st_ in cf.walk())
                self.ob('memory.%s' % arr, False, ('allocation of array %s (role %s) not recognised: it points into another allocation' % (arr, role)) if carved else
                        'array %s (role %s) is not allocated with malloc in this function' % (arr, role))
                continue
            cnt, line = mallocs[arr]
            want = Rat.atom(Ek) + Rat.const(need[role])
            okm = cnt is not None and (cnt - want).is_const() and (cnt - want).const_value() >= 0
            self.ob('memory.%s' % arr, okm, 'malloc(%s) elements for role %s, needs %s' % (cnt.canon() if cnt is not None else '?', role, want.canon()), line)
        frees = [unparse(c.args[0]) for st, c in calls if unparse(c.func) == 'free']
        self.ob('memory.free', sorted(frees) == sorted(mallocs), 'allocated %s; freed %s' % (sorted(mallocs), sorted(frees)))
        if D > 1:
            tm, tf = find_call('tridiag_malloc'), find_call('tridiag_free')
            self.ob('memory.tridiag', len(tm) == 1 and len(tf) == 1 and unparse(tm[0][1].args[0]) == Ek and tm[0][0].line < sc[0][0].line < tf[0][0].line,
                    'tridiag_malloc(%s) ... tridiag_free()' % (unparse(tm[0][1].args[0]) if tm else '?'))
        reads = phi_reads(cf, D)
        self.ob('linearity', len(reads) == 1, 'phi is read at lines %s (only the right-hand side r = phi/dt may depend on it: coefficients are independent of the density)' % reads)
        return roles

    def cell_content_is(self, array, expr_text, extent):
        """every cell of `array` (top-level loops and stores of the kernel) holds expr_text (reads written A@0 relative to the cell) when the
        kernel reaches its sweep: content of the cell classes by guarded store dataflow, whatever the grouping into loops"""
        from .cellflow import Flow
        from .stencil import Update

        class View:
            pass
        keep = []
        for st in self.cf.body:
            if isinstance(st, CDecl):
                keep.append(st)
            elif isinstance(st, CAssign) and (isinstance(st.target, ast.Name) or (isinstance(st.target, ast.Subscript) and unparse(st.target.value) == array)):
                if isinstance(st.target, ast.Name) and isinstance(st.value, ast.Call) and unparse(st.value.func) == 'malloc':
                    continue
                keep.append(st)
            elif isinstance(st, CFor) and all(isinstance(b, CAssign) and isinstance(b.target, ast.Subscript) for b in st.body) and \
                    any(unparse(b.target.value) == array for b in st.body):
                nf = CFor(st.init, st.cond, st.step, [b for b in st.body if unparse(b.target.value) == array], st.line)
                keep.append(nf)
        v = View()
        v.body, v.line, v.name, v.params, v.rel = [k_ for k_ in keep if not (isinstance(k_, CDecl) and (k_.pointer or k_.array))], self.cf.line, self.cf.name, self.cf.params, self.cf.rel

        def walk():
            for st in v.body:
                yield st
                if isinstance(st, CFor):
                    yield from st.body
        v.walk = walk
        v.param_names = self.cf.param_names
        try:
            fl = Flow(v, extent=extent)
            if array not in fl.arrays():
                return None
            import re as _re
            enc = _re.sub(r'(\w+)@(-?\d+)', lambda m_: '%s__AT__%s' % (m_.group(1), m_.group(2).replace('-', 'm')), expr_text)

            def name_hook(n):
                if '__AT__' in n:
                    a, d_ = n.split('__AT__')
                    return Rat.atom('%s@%d' % (a, -int(d_[1:]) if d_.startswith('m') else int(d_)))
                return None
            want = Translator({}, name_hook=name_hook).tr(ast.parse(enc, mode='eval').body)
            for cls in fl.classes(array):
                table, keys = fl.content(array, cls)
                if keys:
                    return None
                if not table[frozenset()].equals(want):
                    self.cell_detail = 'cell %s of %s holds %s (reads relative to the cell), expected %s' % (
                        {'lo': '%d' % cls[1], 'hi': '%s-%d' % (extent, cls[1] + 1), 'mid': 'j'}[cls[0]], array, table[frozenset()].canon()[:80], want.canon()[:60])
                    return False
            return True
        except AlgebraError:
            return None

    def _path_to(self, pred):
        def rec(stmts, path):
            for st in stmts:
                if pred(st):
                    return path + [st]
                if isinstance(st, CFor):
                    r = rec(st.body, path + [st])
                    if r:
                        return r
                elif isinstance(st, CIf):
                    r = rec(st.body, path + [st]) or rec(st.orelse, path + [st])
                    if r:
                        return r
            return None
        return rec(self.cf.body, [])


def precalc_check(cf, D, k, rep):
    """implicit_precalc_{D}D{k}: gather a, b + 1/dt, c, r = phi/dt along axis k at the C-order index; scatter back"""
    E = EXTENTS[:D]
    Ek = E[k - 1]
    name = cf.name

    def ob(field, ok, detail, line=None):
        rep('%s.%s' % (name, field), bool(ok), detail, line or cf.line)
    pn = cf.param_names()
    L = AXLETTER[k - 1]
    exp = ['phi', 'a' + L, 'b' + L, 'c' + L, 'dt'] + E
    ob('signature', pn[:len(exp)] == exp and len(pn) in (len(exp), len(exp) + 2), 'parameters %s; expected %s (+ optional sub-range)' % (pn, exp))
    sub = pn[len(exp):]
    # loops
    loops = []

    def rec(stmts, path):
        for st in stmts:
            if isinstance(st, CFor):
                rec(st.body, path + [st])
            elif isinstance(st, CExpr) and isinstance(st.expr, ast.Call) and unparse(st.expr.func) == 'tridiag_premalloc':
                loops.append((path, st))
    rec(cf.body, [])
    if len(loops) != 1:
        ob('solve', False, '%d calls to tridiag_premalloc' % len(loops))
        return
    path, call = loops[0]
    others = [a for a in range(1, D + 1) if a != k]
    lvs = [unparse(lp.init.target) for lp in path]
    bounds = {unparse(lp.init.target): (unparse(lp.init.value), unparse(lp.cond.comparators[0])) for lp in path}
    # axis of each outer loop variable from its bound extent, or from the sub-range convention
    var_axis = {}
    for v, (lo, hi) in bounds.items():
        if hi in E and lo == '0':
            var_axis[v] = E.index(hi) + 1
    unresolved = [v for v in lvs if v not in var_axis]
    free_axes = [a for a in others if a not in var_axis.values()]
    if len(unresolved) == 1 and len(free_axes) == 1 and sub and bounds[unresolved[0]] == (sub[0], sub[1]):
        var_axis[unresolved[0]] = free_axes[0]
    ob('loops', sorted(var_axis.values()) == others and len(var_axis) == len(lvs), 'outer loops %s over axes %s; expected axes %s' % (bounds, var_axis, others), path[0].line if path else cf.line)
    if sorted(var_axis.values()) != others:
        return
    axis_var = {a: v for v, a in var_axis.items()}

    def index_poly(sv):
        tot = Rat.const(0)
        for a in range(1, D + 1):
            v = sv if a == k else axis_var[a]
            term = Rat.atom(v) if v != '0' else Rat.const(0)
            for b in range(a + 1, D + 1):
                term = term * Rat.atom(E[b - 1])
            tot = tot + term
        return tot
    inner = path[-1].body
    gathers = {}
    gl = None
    for st in inner:
        if isinstance(st, CFor):
            lv = unparse(st.init.target)
            env = {}
            for b in st.body:
                if isinstance(b, CAssign) and isinstance(b.target, ast.Name) and b.op == '=':
                    try:
                        env[b.target.id] = Translator(env).tr(b.value)
                    except AlgebraError:
                        pass
                if isinstance(b, CAssign) and isinstance(b.target, ast.Subscript) and unparse(b.target.slice) == lv:
                    gathers[unparse(b.target.value)] = (b, lv, st, dict(env))
    args = call.expr.args
    roles = ['a', 'b', 'c', 'r', 'out']
    src = {'a': 'a' + L, 'b': 'b' + L, 'c': 'c' + L}
    for role, arg in zip(roles, args[:5]):
        if isinstance(arg, ast.Call) and unparse(arg.func) == 'addr':
            s_ = arg.args[0]
            want_arr = src.get(role, 'phi')
            try:
                ok = unparse(s_.value) == want_arr and tr(s_.slice).equals(index_poly('0')) and k == D
            except AlgebraError:
                ok = False
            ob('gather.' + role, ok, '%s passed in place as %s (only valid for the unit-stride last axis)' % (role, unparse(arg)), call.line)
            continue
        nm = unparse(arg)
        if nm not in gathers:
            if role == 'out':
                # temp then write-back
                wb = [(st, b) for st in inner if isinstance(st, CFor) for b in st.body
                      if isinstance(b, CAssign) and isinstance(b.target, ast.Subscript) and unparse(b.target.value) == 'phi' and unparse(b.value) == '%s[%s]' % (nm, unparse(st.init.target))]
                okw = False
                if wb:
                    st, b = wb[0]
                    lv = unparse(st.init.target)
                    try:
                        okw = tr(b.target.slice).equals(index_poly(lv)) and unparse(st.init.value) == '0' and unparse(st.cond.comparators[0]) == Ek
                    except AlgebraError:
                        okw = False
                ob('scatter', okw, 'phi[%s] = %s[..] write-back at the C-order index' % (unparse(wb[0][1].target.slice) if wb else '?', nm), call.line)
            else:
                ob('gather.' + role, False, 'argument %s of tridiag_premalloc is not gathered in this loop' % nm, call.line)
            continue
        b, lv, lp, genv = gathers[nm]
        okb = unparse(lp.init.value) == '0' and unparse(lp.cond.comparators[0]) == Ek

        def hook(t_, s_, genv=genv, lv=lv):
            return Rat.atom('ARR(%s)' % unparse(s_.value)) if Translator(genv).tr(s_.slice).equals(index_poly(lv)) else None
        try:
            if role in ('a', 'c'):
                ok = isinstance(b.value, ast.Subscript) and unparse(b.value.value) == src[role] and Translator(genv).tr(b.value.slice).equals(index_poly(lv))
            elif role == 'b':
                e = Translator(index_hook=hook).tr(b.value)
                ok = e.equals(Rat.atom('ARR(b%s)' % L) + parse_expr('1/dt'))
            else:
                e = Translator(index_hook=hook).tr(b.value)
                ok = e.equals(Rat.atom('ARR(phi)') * parse_expr('1/dt'))
        except AlgebraError:
            ok = False
        ob('gather.' + role, ok and okb, '%s[%s] = %s for %s in [0,%s)' % (nm, lv, unparse(b.value), lv, unparse(lp.cond.comparators[0])), b.line)
    ob('solve', unparse(args[5]) == Ek, 'system size %s (expected %s)' % (unparse(args[5]), Ek), call.line)
