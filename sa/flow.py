"""Syntax-directed forward dataflow over the statement kinds dadi uses (DESIGN.md 1.1, E-SRC CFG).

The engine walks a function body, threading an analysis-defined state through
if/elif/else, for/while (+else, break, continue; iterated to a fixpoint), try/except/else/finally,
with, return, raise, assert.  `None` is the unreachable state.  Exits (return / raise / fall-off)
are collected with their states.  An Analysis subclass supplies copy/join/transfer.
"""
import ast

NORETURN_CALLS = {'exit', 'sys.exit', 'os._exit', 'quit'}


def _dotted(e):
    if isinstance(e, ast.Name):
        return e.id
    if isinstance(e, ast.Attribute):
        b = _dotted(e.value)
        return (b + '.' + e.attr) if b else None
    return None


class Analysis:
    """override what is needed; states must support == for the loop fixpoint"""
    for_body_runs_at_least_once = False

    def copy(self, s):
        return s

    def join(self, a, b):
        raise NotImplementedError

    def expr(self, e, s, st):
        """evaluate (use) expression e in state s; return new state"""
        return s

    def assign(self, target, value, s, st):
        """bind target (an ast target node) from value node (may be None for loop/with/except targets)"""
        return s

    def simple(self, st, s):
        """other simple statements (Expr, Delete, Global, Import ...)"""
        return s

    def branch(self, test, s, truth):
        """state on the branch where `test` evaluates to `truth` (after evaluating test)"""
        return self.copy(s)

    def after_if(self, node, s_before, s_true_out, s_false_out, joined):
        return joined

    def const_truth(self, test):
        if isinstance(test, ast.Constant):
            return bool(test.value)
        return None


class Exit:
    __slots__ = ('kind', 'state', 'node')

    def __init__(self, kind, state, node):
        self.kind, self.state, self.node = kind, state, node


class Engine:
    def __init__(self, analysis, max_iter=12):
        self.a = analysis
        self.exits = []
        self.loop_stack = []
        self.max_iter = max_iter
        self.try_stack = []   # lists collecting states that may raise into a handler

    def jn(self, a, b):
        if a is None:
            return b
        if b is None:
            return a
        return self.a.join(a, b)

    def run_function(self, fn, s0):
        out = self.block(fn.body, s0)
        if out is not None:
            self.exits.append(Exit('fall', out, fn))
        return self.exits

    # ------------------------------------------------------------------
    def block(self, stmts, s):
        for st in stmts:
            if s is None:
                return None
            self._note_may_raise(s)
            s = self.stmt(st, s)
        if s is not None:
            self._note_may_raise(s)
        return s

    def _note_may_raise(self, s):
        for lst in self.try_stack:
            lst.append(self.a.copy(s))

    def stmt(self, st, s):
        a = self.a
        if isinstance(st, ast.Expr):
            s = a.expr(st.value, s, st)
            s = a.simple(st, s)
            if isinstance(st.value, ast.Call) and _dotted(st.value.func) in NORETURN_CALLS:
                self.exits.append(Exit('noreturn', s, st))
                return None
            return s
        if isinstance(st, ast.Assign):
            s = a.expr(st.value, s, st)
            for t in st.targets:
                s = a.assign(t, st.value, s, st)
            return s
        if isinstance(st, ast.AugAssign):
            s = a.expr(st.value, s, st)
            s = a.expr(_as_load(st.target), s, st)
            return a.assign(st.target, st, s, st)
        if isinstance(st, ast.AnnAssign):
            if st.value is not None:
                s = a.expr(st.value, s, st)
                s = a.assign(st.target, st.value, s, st)
            return s
        if isinstance(st, ast.Return):
            if st.value is not None:
                s = a.expr(st.value, s, st)
            self.exits.append(Exit('return', s, st))
            return None
        if isinstance(st, ast.Raise):
            if st.exc is not None:
                s = a.expr(st.exc, s, st)
            self.exits.append(Exit('raise', s, st))
            return None
        if isinstance(st, ast.Assert):
            s = a.expr(st.test, s, st)
            return a.branch(st.test, s, True)
        if isinstance(st, ast.If):
            s = a.expr(st.test, s, st)
            ct = a.const_truth(st.test)
            s_t = a.branch(st.test, s, True) if ct is not False else None
            s_f = a.branch(st.test, s, False) if ct is not True else None
            o_t = self.block(st.body, s_t) if s_t is not None else None
            o_f = self.block(st.orelse, s_f) if s_f is not None else None
            joined = self.jn(o_t, o_f)
            return a.after_if(st, s, o_t, o_f, joined)
        if isinstance(st, (ast.For, ast.AsyncFor)):
            s = a.expr(st.iter, s, st)
            return self._loop(st, s, is_for=True)
        if isinstance(st, ast.While):
            return self._loop(st, s, is_for=False)
        if isinstance(st, (ast.With, ast.AsyncWith)):
            for it in st.items:
                s = a.expr(it.context_expr, s, st)
                if it.optional_vars is not None:
                    s = a.assign(it.optional_vars, None, s, st)
            return self.block(st.body, s)
        if isinstance(st, ast.Try):
            return self._try(st, s)
        if isinstance(st, ast.Break):
            if self.loop_stack:
                self.loop_stack[-1]['breaks'].append(s)
            return None
        if isinstance(st, ast.Continue):
            if self.loop_stack:
                self.loop_stack[-1]['continues'].append(s)
            return None
        if isinstance(st, (ast.FunctionDef, ast.AsyncFunctionDef, ast.ClassDef)):
            return a.assign(ast.Name(id=st.name, ctx=ast.Store(), lineno=st.lineno, col_offset=0), st, s, st)
        if isinstance(st, (ast.Import, ast.ImportFrom)):
            for al in st.names:
                if al.name == '*':
                    continue
                nm = (al.asname or al.name).split('.')[0]
                s = a.assign(ast.Name(id=nm, ctx=ast.Store(), lineno=st.lineno, col_offset=0), None, s, st)
            return s
        if isinstance(st, ast.Delete):
            return a.simple(st, s)
        return a.simple(st, s)

    def _loop(self, st, s_in, is_for):
        a = self.a
        head = a.copy(s_in)
        infinite = (not is_for) and a.const_truth(st.test) is True
        saved_exits = len(self.exits)
        back, s_exhaust, frame = None, None, None
        for it in range(self.max_iter):
            # exits recorded during non-final iterations are discarded (recomputed on the last)
            del self.exits[saved_exits:]
            frame = {'breaks': [], 'continues': []}
            self.loop_stack.append(frame)
            if is_for:
                s_body = a.assign(st.target, None, a.copy(head), st)
                s_exhaust = a.copy(head)
            else:
                s_t = a.expr(st.test, a.copy(head), st)
                s_body = a.branch(st.test, s_t, True)
                s_exhaust = None if infinite else a.branch(st.test, s_t, False)
            out = self.block(st.body, s_body)
            self.loop_stack.pop()
            back = out
            for c in frame['continues']:
                back = self.jn(back, c)
            new_head = self.jn(a.copy(s_in), back)
            if new_head == head:
                break
            head = new_head
        exit_normal = s_exhaust
        if is_for and a.for_body_runs_at_least_once and back is not None:
            exit_normal = back      # exhaustion happens after at least one full iteration
        elif (not is_for) and a.for_body_runs_at_least_once and back is not None and not infinite:
            exit_normal = a.branch(st.test, a.expr(st.test, a.copy(back), st), False)
        if exit_normal is not None and st.orelse:
            exit_normal = self.block(st.orelse, exit_normal)
        res = exit_normal
        for b in frame['breaks']:
            res = self.jn(res, b)
        return res

    def _try(self, st, s):
        a = self.a
        may = [a.copy(s)]
        self.try_stack.append(may)
        body_out = self.block(st.body, a.copy(s))
        self.try_stack.pop()
        # raises inside the body that are caught by a handler do not leave the function; we keep them as exits
        # conservatively only when there is no handler at all.
        h_in = None
        for m in may:
            h_in = self.jn(h_in, m)
        outs = []
        if body_out is not None and st.orelse:
            body_out = self.block(st.orelse, body_out)
        outs.append(body_out)
        for h in st.handlers:
            hs = a.copy(h_in) if h_in is not None else None
            if hs is None:
                continue
            if h.type is not None:
                hs = a.expr(h.type, hs, st)
            if h.name:
                hs = a.assign(ast.Name(id=h.name, ctx=ast.Store(), lineno=h.lineno, col_offset=0), None, hs, st)
            outs.append(self.block(h.body, hs))
        res = None
        for o in outs:
            res = self.jn(res, o)
        if st.finalbody:
            if res is not None:
                res = self.block(st.finalbody, res)
            else:
                # finally still runs on the exceptional/return paths; analyse it for its uses
                self.block(st.finalbody, a.copy(h_in))
        return res


def _as_load(t):
    from .srcmodel import clone
    t2 = clone(t)
    for n in ast.walk(t2):
        if hasattr(n, 'ctx'):
            n.ctx = ast.Load()
    return t2
