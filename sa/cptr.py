"""Pointer walks, row/column pointers, strided index counters and carved workspaces of the hand-written C, rewritten to the
array/index form that the C rules model (one allocation per array, every access `array[index expression]`).

The rewriting is a symbolic evaluation of the integer and pointer variables involved:

  * a pointer variable holds (array, offset), the offset an exact polynomial in the loop variables and extents;
  * `p = q + e`, `p = &a[e]`, `p += e`, `p++`, `*p++` update or read that value; `*p`, `p[e]` become `array[offset (+ e)]`; a pointer
    handed to a callee becomes `&array[offset]`;
  * in `for (i = lo; i < hi; i++)` a variable whose only changes are increments by loop-invariant amounts executed exactly once per
    iteration has the value  start + (i - lo) * (sum of the increments)  at the top of iteration i (inner loops contribute their trip
    count times their own sum); a variable that is assigned afresh at the top of the body is local to the iteration;
  * `while (p < end)` with p advanced by one per iteration is the counted loop over  end - p  iterations;
  * integer counters (`idx += M`) are treated the same way.

`carve` undoes a workspace carved into consecutive pieces (`double *b = a + L;` ...) when the pieces partition one allocation that
is used for nothing else: every piece becomes its own allocation of the size the carving gave it.

Assumption (stated, not checked): a counted loop runs hi - lo >= 0 times - for a loop whose upper bound is below its lower bound
the closed forms above would count a negative number of increments where C executes none; the extents of the kernels are grid sizes
(at least 2).

Whatever is not of these forms (conditional increments, pointers that differ between branches, pointer comparisons other than
the loop test, `break`) raises Unsupported: the function is then reported as outside the modelled subset, as before.

`inline_void_helpers` expands calls of file-local helper functions that the confirmed tree does not have (parameters become
initialised locals), so that the walk sees one function."""
import ast
import re
from .algebra import Rat, Translator, AlgebraError
from .report import AnalysisError
from . import cfront as C


class Unsupported(AnalysisError):
    pass


def _is_call(e, names):
    return isinstance(e, ast.Call) and isinstance(e.func, ast.Name) and e.func.id in names


def rat_to_ast(r):
    txt = r.canon().replace('^', '**')
    try:
        return ast.parse(txt, mode='eval').body
    except SyntaxError:
        raise Unsupported('index expression %s cannot be written back' % txt)


def _stmt_exprs(st):
    """expression trees held by one statement (not its nested statements)"""
    out = []
    if isinstance(st, C.CDecl):
        out += [st.init] + list(st.array_init or [])
    elif isinstance(st, C.CAssign):
        out += [st.target, st.value]
    elif isinstance(st, C.CExpr):
        out.append(st.expr)
    elif isinstance(st, C.CFor):
        for part in (st.init, st.step):
            if isinstance(part, C.CAssign):
                out += [part.target, part.value]
            elif isinstance(part, C.CExpr):
                out.append(part.expr)
        out.append(st.cond)
    elif isinstance(st, (C.CIf, C.CWhile)):
        out.append(st.cond)
    elif isinstance(st, C.CReturn):
        out.append(st.value)
    return [e for e in out if isinstance(e, ast.AST)]


def _all(stmts):
    for st in stmts:
        yield st
        if isinstance(st, (C.CFor, C.CWhile)):
            yield from _all(st.body)
            if isinstance(st, C.CWhile):
                yield from _all(getattr(st, 'steps', None) or [])
        elif isinstance(st, C.CIf):
            yield from _all(st.body)
            yield from _all(st.orelse)


# ---------------------------------------------------------------------------------------------------------------------------
# helper expansion
# ---------------------------------------------------------------------------------------------------------------------------

def inline_void_helpers(f, funcs, recorded_funcs):
    """calls of functions of the same program that the confirmed tree does not have are expanded in place, the helper's names made
    unique:  `helper(args);`  with no value returned becomes  { T p = arg; ... body ... };  `x = helper(args);` / `T x = helper(args);`
    of a helper whose only return is its last statement becomes  { T p = arg; ... body ...; x = <returned expression>; }.
    A parameter that receives `&v` of a local v and is only ever dereferenced is v itself (`*p` -> `v`)."""
    done = 0

    def call_of(st):
        """(call, kind) when the statement is a bare call, or initialises / assigns a plain variable from a call"""
        if isinstance(st, C.CExpr) and isinstance(st.expr, ast.Call) and isinstance(st.expr.func, ast.Name):
            return st.expr, 'void'
        if isinstance(st, C.CDecl) and isinstance(st.init, ast.Call) and isinstance(st.init.func, ast.Name) and not st.array:
            return st.init, 'value'
        if isinstance(st, C.CAssign) and st.op == '=' and isinstance(st.target, ast.Name) and isinstance(st.value, ast.Call) and isinstance(st.value.func, ast.Name):
            return st.value, 'value'
        return None, None

    for _round in range(8):
        changed = False

        def expand(stmts):
            nonlocal changed, done
            out = []
            for st in stmts:
                if isinstance(st, (C.CFor, C.CWhile)):
                    st.body = expand(st.body)
                elif isinstance(st, C.CIf):
                    st.body, st.orelse = expand(st.body), expand(st.orelse)
                call, kind = call_of(st)
                h = funcs.get(call.func.id) if call is not None else None
                if h is not None and h is not f and h.name not in recorded_funcs and len(h.params) == len(call.args) and \
                        not any(isinstance(x, C.CReturn) for x in h.walk() if x not in h.body[-1:]):
                    ret = h.body[-1] if h.body and isinstance(h.body[-1], C.CReturn) else None
                    has_value = ret is not None and ret.value is not None
                    if (kind == 'void' and not has_value) or (kind == 'value' and has_value):
                        done += 1
                        changed = True
                        tag = '_%s%d' % (h.name, done)
                        names = {pn for _, pn in h.params} | {x.name for x in h.walk() if isinstance(x, C.CDecl)}
                        mp = {n: n + tag for n in names}
                        body = [clone_stmt(x) for x in h.body if not isinstance(x, C.CReturn)]
                        tail = clone_stmt(ret) if has_value else None
                        # by-reference parameters: the argument is &v and the helper only ever writes *p
                        byref = {}
                        for (pt, pn), a in zip(h.params, call.args):
                            if pt.count('*') >= 1 and _is_call(a, ('addr',)) and isinstance(a.args[0], ast.Name):
                                uses = [n for x in _all(body + ([tail] if tail else [])) for e in _stmt_exprs(x) for n in ast.walk(e) if isinstance(n, ast.Name) and n.id == pn]
                                derefs = [n for x in _all(body + ([tail] if tail else [])) for e in _stmt_exprs(x) for n in ast.walk(e) if _is_call(n, ('deref',)) and isinstance(n.args[0], ast.Name) and n.args[0].id == pn]
                                if len(uses) == len(derefs):
                                    byref[pn] = a.args[0].id

                        class Ren(ast.NodeTransformer):
                            def visit_Call(self, n):
                                if _is_call(n, ('deref',)) and isinstance(n.args[0], ast.Name) and n.args[0].id in byref:
                                    return ast.copy_location(ast.Name(id=byref[n.args[0].id], ctx=ast.Load()), n)
                                return self.generic_visit(n)

                            def visit_Name(self, n):
                                return ast.copy_location(ast.Name(id=mp.get(n.id, n.id), ctx=n.ctx), n)
                        for x in list(_all(body)) + ([tail] if tail else []):
                            if isinstance(x, C.CDecl):
                                x.name = mp.get(x.name, x.name)
                            for holder, attr in _holders(x):
                                e = getattr(holder, attr)
                                if isinstance(e, ast.AST):
                                    setattr(holder, attr, Ren().visit(e))
                        for (pt, pn), a in zip(h.params, call.args):
                            if pn in byref:
                                continue
                            out.append(C.CDecl(pt.rstrip('*').strip(), mp[pn], pt.count('*'), a, st.line))
                        out.extend(body)
                        if kind == 'value':
                            if isinstance(st, C.CDecl):
                                st.init = tail.value
                            else:
                                st.value = tail.value
                            out.append(st)
                        continue
                out.append(st)
            return out
        f.body = expand(f.body)
        if not changed:
            break
    return done


def clone_stmt(st):
    """a copy of a statement tree (expression nodes cloned field by field)"""
    cl = C._clone
    if isinstance(st, C.CDecl):
        return C.CDecl(st.ctype, st.name, st.pointer, cl(st.init), st.line, st.array, cl(st.array_init) if st.array_init else st.array_init)
    if isinstance(st, C.CAssign):
        return C.CAssign(cl(st.target), st.op, cl(st.value), st.line)
    if isinstance(st, C.CExpr):
        return C.CExpr(cl(st.expr), st.line)
    if isinstance(st, C.CFor):
        return C.CFor(clone_stmt(st.init) if st.init is not None else None, cl(st.cond), clone_stmt(st.step) if st.step is not None else None, [clone_stmt(x) for x in st.body], st.line)
    if isinstance(st, C.CWhile):
        w = C.CWhile(cl(st.cond), [clone_stmt(x) for x in st.body], st.line)
        w.steps = [clone_stmt(x) for x in (getattr(st, 'steps', None) or [])]
        return w
    if isinstance(st, C.CIf):
        return C.CIf(cl(st.cond), [clone_stmt(x) for x in st.body], [clone_stmt(x) for x in st.orelse], st.line)
    if isinstance(st, C.CReturn):
        return C.CReturn(cl(st.value), st.line)
    if isinstance(st, C.CJump):
        return C.CJump(st.kind, st.line)
    raise Unsupported('statement %s' % type(st).__name__)


def _holders(st):
    if isinstance(st, C.CDecl):
        yield st, 'init'
    elif isinstance(st, C.CAssign):
        yield st, 'target'
        yield st, 'value'
    elif isinstance(st, C.CExpr):
        yield st, 'expr'
    elif isinstance(st, C.CFor):
        for part in (st.init, st.step):
            if isinstance(part, C.CAssign):
                yield part, 'target'
                yield part, 'value'
            elif isinstance(part, C.CExpr):
                yield part, 'expr'
        yield st, 'cond'
    elif isinstance(st, (C.CIf, C.CWhile)):
        yield st, 'cond'
    elif isinstance(st, C.CReturn):
        yield st, 'value'


# ---------------------------------------------------------------------------------------------------------------------------
# the walk
# ---------------------------------------------------------------------------------------------------------------------------

class Walk:
    def __init__(self, f, recorded_locals, global_ptrs=()):
        self.f = f
        self.global_ptrs = set(global_ptrs)
        self.ptr_params = {pn for pt, pn in f.params if '*' in pt}
        self.local_ptrs = {st.name for st in f.walk() if isinstance(st, C.CDecl) and st.pointer and not st.array}
        self.int_locals = {st.name for st in f.walk() if isinstance(st, C.CDecl) and not st.pointer and not st.array and C._base_type(st.ctype) == 'int'}
        self.recorded = set(recorded_locals or ())
        ptrs = self.ptr_params | self.local_ptrs
        tracked = set()
        loopvars = set()
        for st in f.walk():
            if isinstance(st, C.CFor) and isinstance(st.init, C.CAssign):
                loopvars.add(C.unparse(st.init.target))
        for st in f.walk():
            if isinstance(st, C.CDecl) and st.pointer and not st.array and st.init is not None and not self.is_alloc(st.init):
                tracked.add(st.name)
            if isinstance(st, C.CAssign) and isinstance(st.target, ast.Name):
                nm = st.target.id
                if nm in ptrs and not (st.op == '=' and self.is_alloc(st.value)):
                    tracked.add(nm)
                if nm in self.int_locals and nm not in loopvars and nm not in self.recorded and st.op in ('+=', '-='):
                    tracked.add(nm)
            for e in _stmt_exprs(st):
                for n in ast.walk(e):
                    if _is_call(n, ('postinc', 'postdec')) and isinstance(n.args[0], ast.Name) and (n.args[0].id in ptrs or (n.args[0].id in self.int_locals and n.args[0].id not in loopvars)):
                        tracked.add(n.args[0].id)
        self.tracked = tracked
        self.arrays = (ptrs - tracked) | (self.global_ptrs - set(f.param_names()) - {st.name for st in f.walk() if isinstance(st, C.CDecl)})
        self.need_decl = []
        self.used_names = set(f.param_names())
        for st in f.walk():
            if isinstance(st, C.CDecl):
                self.used_names.add(st.name)
            for e in _stmt_exprs(st):
                self.used_names |= {n.id for n in ast.walk(e) if isinstance(n, ast.Name)}

    @staticmethod
    def is_alloc(e):
        return _is_call(e, ('malloc', 'calloc', 'realloc')) or (isinstance(e, ast.Constant) and e.value == 0) or (isinstance(e, ast.Name) and e.id == 'NULL')

    def needed(self):
        return bool(self.tracked) or any(isinstance(st, C.CWhile) for st in self.f.walk())

    def run(self):
        env = {}
        for p in self.tracked & self.ptr_params:
            env[p] = ('ptr', p, Rat.const(0))
        body = self.block(self.f.body, env, [])
        decls = [C.CDecl('int', nm, 0, None, self.f.line) for nm in self.need_decl]
        self.f.body = decls + body

    # ---- values ---------------------------------------------------------------------------------------------------------------
    def int_of(self, e, env, post):
        w = self

        def name_hook(n):
            if n in w.tracked:
                v = env.get(n)
                if v is None or v[0] != 'int':
                    raise Unsupported('counter %s has no known value here' % n)
                return v[1]
            return None

        def call_hook(tr, c, fn):
            if fn in ('postinc', 'postdec') and isinstance(c.args[0], ast.Name) and c.args[0].id in w.tracked:
                v = env.get(c.args[0].id)
                if v is None or v[0] != 'int':
                    raise Unsupported('counter %s has no known value here' % c.args[0].id)
                post.append((c.args[0].id, 1 if fn == 'postinc' else -1))
                return v[1]
            return None
        try:
            return Translator({}, name_hook=name_hook, call_hook=call_hook).tr(e)
        except AlgebraError as ex:
            raise Unsupported('offset %s: %s' % (C.unparse(e)[:40], ex))

    def ptr_of(self, e, env, post):
        """(array, offset) of a pointer-valued expression, or None when e is not pointer-valued"""
        if isinstance(e, ast.Name):
            if e.id in self.tracked and e.id not in self.int_locals:
                v = env.get(e.id)
                if v is None:
                    raise Unsupported('pointer %s has no single value here' % e.id)
                return v if v[0] == 'ptr' else None
            if e.id in self.arrays:
                return ('ptr', e.id, Rat.const(0))
            return None
        if isinstance(e, ast.BinOp) and isinstance(e.op, (ast.Add, ast.Sub)):
            l = self.ptr_of(e.left, env, post)
            if l is not None:
                d = self.int_of(e.right, env, post)
                return ('ptr', l[1], l[2] + d if isinstance(e.op, ast.Add) else l[2] - d)
            if isinstance(e.op, ast.Add):
                r = self.ptr_of(e.right, env, post)
                if r is not None:
                    return ('ptr', r[1], r[2] + self.int_of(e.left, env, post))
            return None
        if _is_call(e, ('addr',)) and isinstance(e.args[0], ast.Subscript):
            b = self.ptr_of(e.args[0].value, env, post)
            if b is not None:
                return ('ptr', b[1], b[2] + self.int_of(e.args[0].slice, env, post))
            return None
        if _is_call(e, ('addr',)) and _is_call(e.args[0], ('deref',)):
            return self.ptr_of(e.args[0].args[0], env, post)
        if _is_call(e, ('postinc', 'postdec')) and isinstance(e.args[0], ast.Name) and e.args[0].id in self.tracked and e.args[0].id not in self.int_locals:
            v = env.get(e.args[0].id)
            if v is None:
                raise Unsupported('pointer %s has no single value here' % e.args[0].id)
            post.append((e.args[0].id, 1 if e.func.id == 'postinc' else -1))
            return v
        return None

    def element(self, p):
        return ast.Subscript(value=ast.Name(id=p[1], ctx=ast.Load()), slice=rat_to_ast(p[2]), ctx=ast.Load())

    def rw(self, e, env, post, as_arg=False):
        """the expression with every pointer access written as array[index]"""
        if e is None:
            return None
        if _is_call(e, ('deref',)):
            p = self.ptr_of(e.args[0], env, post)
            if p is None:
                raise Unsupported('dereference of %s' % C.unparse(e.args[0])[:40])
            return self.element(p)
        if isinstance(e, ast.Subscript):
            p = self.ptr_of(e.value, env, post) if not (isinstance(e.value, ast.Name) and e.value.id in self.arrays) else None
            if p is not None:
                return self.element(('ptr', p[1], p[2] + self.int_of(e.slice, env, post)))
            return ast.Subscript(value=self.rw(e.value, env, post), slice=self.rw(e.slice, env, post), ctx=ast.Load())
        if isinstance(e, ast.Name):
            if e.id in self.tracked:
                v = env.get(e.id)
                if v is None:
                    raise Unsupported('%s has no single value here' % e.id)
                if v[0] == 'int':
                    return rat_to_ast(v[1])
                if v[2].is_zero():
                    return ast.Name(id=v[1], ctx=ast.Load())
                return ast.Call(func=ast.Name(id='addr', ctx=ast.Load()), args=[self.element(v)], keywords=[])
            return e
        if _is_call(e, ('postinc', 'postdec')) and isinstance(e.args[0], ast.Name) and e.args[0].id in self.tracked:
            if e.args[0].id in self.int_locals:
                return rat_to_ast(self.int_of(e, env, post))
            raise Unsupported('pointer value %s used outside a dereference' % C.unparse(e)[:40])
        if isinstance(e, ast.BinOp):
            if isinstance(e.op, (ast.Add, ast.Sub)):
                p = self.ptr_of(e, env, post)
                if p is not None:
                    if p[2].is_zero():
                        return ast.Name(id=p[1], ctx=ast.Load())
                    return ast.Call(func=ast.Name(id='addr', ctx=ast.Load()), args=[self.element(p)], keywords=[])
            return ast.BinOp(left=self.rw(e.left, env, post), op=e.op, right=self.rw(e.right, env, post))
        if isinstance(e, ast.UnaryOp):
            return ast.UnaryOp(op=e.op, operand=self.rw(e.operand, env, post))
        if isinstance(e, ast.BoolOp):
            return ast.BoolOp(op=e.op, values=[self.rw(v, env, post) for v in e.values])
        if isinstance(e, ast.Compare):
            for x in [e.left] + list(e.comparators):
                if self.mentions_tracked_ptr(x):
                    raise Unsupported('comparison of pointers %s' % C.unparse(e)[:40])
            return ast.Compare(left=self.rw(e.left, env, post), ops=e.ops, comparators=[self.rw(c, env, post) for c in e.comparators])
        if isinstance(e, ast.Call):
            if _is_call(e, ('addr',)):
                p = self.ptr_of(e, env, post)
                if p is not None:
                    return ast.Call(func=e.func, args=[self.element(p)], keywords=[])
            return ast.Call(func=e.func, args=[self.rw(a, env, post) for a in e.args], keywords=[])
        return e

    def mentions_tracked_ptr(self, e):
        return any(isinstance(n, ast.Name) and n.id in self.tracked and n.id not in self.int_locals for n in ast.walk(e))

    def apply_post(self, env, post):
        seen = set()
        for v, d in post:
            if v in seen:
                raise Unsupported('%s is advanced twice in one statement' % v)
            seen.add(v)
            cur = env.get(v)
            if cur is None:
                raise Unsupported('%s has no single value here' % v)
            env[v] = (cur[0], cur[1] + Rat.const(d)) if cur[0] == 'int' else ('ptr', cur[1], cur[2] + Rat.const(d))

    # ---- increments of a variable over a statement list ----------------------------------------------------------------------------
    def modified_in(self, stmts):
        out = set()
        for st in _all(stmts):
            if isinstance(st, C.CAssign) and isinstance(st.target, ast.Name) and st.target.id in self.tracked:
                out.add(st.target.id)
            if isinstance(st, C.CDecl) and st.name in self.tracked and st.init is not None:
                out.add(st.name)
            for e in _stmt_exprs(st):
                for n in ast.walk(e):
                    if _is_call(n, ('postinc', 'postdec')) and isinstance(n.args[0], ast.Name) and n.args[0].id in self.tracked:
                        out.add(n.args[0].id)
        return out

    def delta(self, stmts, v, env, variant):
        """total change of v over one execution of stmts: Rat, or None when it is not the same on every path / not an increment"""
        tot = Rat.const(0)
        last_assign = {}
        for st in stmts:
            if isinstance(st, (C.CAssign, C.CDecl)) or isinstance(st, C.CExpr) or isinstance(st, C.CReturn):
                if isinstance(st, C.CAssign) and isinstance(st.target, ast.Name) and st.target.id == v:
                    if st.op not in ('+=', '-='):
                        return None
                    if any(isinstance(n, ast.Name) and n.id in variant for n in ast.walk(st.value)):
                        return None
                    d = self.int_of(st.value, env, [])
                    tot = tot + d if st.op == '+=' else tot - d
                if isinstance(st, C.CDecl) and st.name == v and st.init is not None:
                    return None
                for e in _stmt_exprs(st):
                    for n in ast.walk(e):
                        if _is_call(n, ('postinc', 'postdec')) and isinstance(n.args[0], ast.Name) and n.args[0].id == v:
                            tot = tot + Rat.const(1 if n.func.id == 'postinc' else -1)
            elif isinstance(st, C.CIf):
                if v in self.modified_in(st.body) or v in self.modified_in(st.orelse):
                    return None
            elif isinstance(st, C.CFor):
                if v in self.modified_in(st.body):
                    lo, hi, lv = self.bounds(st, env)
                    if any(isinstance(n, ast.Name) and n.id in variant for part in (st.init.value, st.cond) for n in ast.walk(part)):
                        return None
                    d = self.delta(st.body, v, env, variant | {lv} | self.modified_in(st.body) - {v})
                    if d is None:
                        return None
                    tot = tot + (hi - lo) * d
            elif isinstance(st, C.CWhile):
                inner_stmts = st.body + list(getattr(st, 'steps', None) or [])
                if v in self.modified_in(inner_stmts):
                    # an inner walk  p = a; while (p < a + n) ...  runs n times: its start is the assignment just before it
                    c = st.cond
                    if not (isinstance(c, ast.Compare) and len(c.ops) == 1 and isinstance(c.ops[0], (ast.Lt, ast.NotEq)) and isinstance(c.left, ast.Name) and c.left.id in self.tracked and c.left.id != v):
                        return None
                    cv = c.left.id
                    start_e = last_assign.get(cv)
                    if start_e is None or any(isinstance(n, ast.Name) and n.id in variant | {v} for x in (start_e, c.comparators[0]) for n in ast.walk(x)):
                        return None
                    dcv = self.delta(inner_stmts, cv, env, variant | {v})
                    if dcv is None or not dcv.equals(Rat.const(1)):
                        return None
                    try:
                        a_, b_ = self.ptr_of(start_e, env, []), self.ptr_of(c.comparators[0], env, [])
                    except Unsupported:
                        return None
                    if a_ is None or b_ is None or a_[1] != b_[1]:
                        return None
                    d = self.delta(inner_stmts, v, env, variant | {cv})
                    if d is None:
                        return None
                    tot = tot + (b_[2] - a_[2]) * d
            if isinstance(st, C.CAssign) and isinstance(st.target, ast.Name) and st.op == '=' and st.target.id in self.tracked:
                last_assign[st.target.id] = st.value
        return tot

    def bounds(self, st, env):
        if not (isinstance(st.init, C.CAssign) and isinstance(st.init.target, ast.Name) and st.init.op == '=' and isinstance(st.cond, ast.Compare) and len(st.cond.ops) == 1 and
                C.unparse(st.cond.left) == st.init.target.id and isinstance(st.cond.ops[0], (ast.Lt, ast.LtE))):
            raise Unsupported('loop of line %d is not a counted loop' % st.line)
        lv = st.init.target.id
        stp = st.step
        if not (isinstance(stp, C.CAssign) and C.unparse(stp.target) == lv and stp.op == '+=' and C.unparse(stp.value) == '1'):
            raise Unsupported('loop of line %d does not advance by one' % st.line)
        lo = self.int_of(st.init.value, env, [])
        hi = self.int_of(st.cond.comparators[0], env, [])
        if isinstance(st.cond.ops[0], ast.LtE):
            hi = hi + Rat.const(1)
        return lo, hi, lv

    def only_assigned(self, body, v):
        """every change of v in body is a fresh assignment (declaration with initialiser or `v = e` without v in e); never advanced"""
        for st in _all(body):
            if isinstance(st, C.CAssign) and isinstance(st.target, ast.Name) and st.target.id == v:
                if st.op != '=' or any(isinstance(n, ast.Name) and n.id == v for n in ast.walk(st.value)):
                    return False
            for e in _stmt_exprs(st):
                for n in ast.walk(e):
                    if _is_call(n, ('postinc', 'postdec')) and isinstance(n.args[0], ast.Name) and n.args[0].id == v:
                        return False
        return True

    def local_to_iteration(self, body, v):
        """the first statement of the body that mentions v assigns it afresh, at the top level of the body"""
        for st in body:
            mentions = any(isinstance(n, ast.Name) and n.id == v for e in _stmt_exprs(st) for n in ast.walk(e)) or (isinstance(st, C.CDecl) and st.name == v)
            nested = isinstance(st, (C.CFor, C.CWhile, C.CIf)) and v in {n.id for x in _all([st]) for e in _stmt_exprs(x) for n in ast.walk(e) if isinstance(n, ast.Name)}
            if not (mentions or nested):
                continue
            if isinstance(st, C.CAssign) and isinstance(st.target, ast.Name) and st.target.id == v and st.op == '=' and not any(isinstance(n, ast.Name) and n.id == v for n in ast.walk(st.value)):
                return True
            if isinstance(st, C.CDecl) and st.name == v and st.init is not None:
                return True
            if nested and isinstance(st, (C.CFor, C.CWhile)) and not mentions and self.local_to_iteration(st.body, v):
                # declared and initialised afresh inside a nested loop and mentioned nowhere else in this body: local to that loop
                others = [x for x in body if x is not st and (any(isinstance(n, ast.Name) and n.id == v for y in _all([x]) for e in _stmt_exprs(y) for n in ast.walk(e)) or
                                                              any(isinstance(y, C.CDecl) and y.name == v for y in _all([x])))]
                return not others
            return False
        return False

    # ---- statements -------------------------------------------------------------------------------------------------------------
    def block(self, stmts, env, loops):
        out = []
        for st in stmts:
            out.extend(self.stmt(st, env, loops))
        return out

    def stmt(self, st, env, loops):
        post = []
        if isinstance(st, C.CDecl):
            if st.name in self.tracked:
                if st.init is not None:
                    self.assign(st.name, '=', st.init, env, post)
                    self.apply_post(env, post)
                else:
                    env[st.name] = None
                return []
            if st.init is not None and not self.is_alloc(st.init):
                st.init = self.rw(st.init, env, post)
                self.apply_post(env, post)
            return [st]
        if isinstance(st, C.CAssign):
            if isinstance(st.target, ast.Name) and st.target.id in self.tracked:
                self.assign(st.target.id, st.op, st.value, env, post)
                self.apply_post(env, post)
                return []
            st.value = self.rw(st.value, env, post)
            st.target = self.rw(st.target, env, post)
            self.apply_post(env, post)
            return [st]
        if isinstance(st, C.CExpr):
            if _is_call(st.expr, ('postinc', 'postdec')) and isinstance(st.expr.args[0], ast.Name) and st.expr.args[0].id in self.tracked:
                self.apply_post(env, [(st.expr.args[0].id, 1 if st.expr.func.id == 'postinc' else -1)])
                return []
            if _is_call(st.expr, ('free',)) and isinstance(st.expr.args[0], ast.Name) and st.expr.args[0].id in self.tracked:
                raise Unsupported('free of the walked pointer %s' % st.expr.args[0].id)
            st.expr = self.rw(st.expr, env, post)
            self.apply_post(env, post)
            return [st]
        if isinstance(st, C.CReturn):
            st.value = self.rw(st.value, env, post)
            self.apply_post(env, post)
            return [st]
        if isinstance(st, C.CJump):
            if st.kind == 'break' or (loops and self.modified_in(loops[-1])):
                raise Unsupported('%s in a loop that advances a pointer or counter (line %d)' % (st.kind, st.line))
            return [st]
        if isinstance(st, C.CIf):
            st.cond = self.rw(st.cond, env, post)
            if post:
                raise Unsupported('side effect in a condition (line %d)' % st.line)
            e1, e2 = dict(env), dict(env)
            st.body = self.block(st.body, e1, loops)
            st.orelse = self.block(st.orelse, e2, loops)
            for v in set(e1) | set(e2):
                a, b = e1.get(v), e2.get(v)
                env[v] = a if (a is not None and b is not None and a[0] == b[0] and a[:-1] == b[:-1] and a[-1].equals(b[-1])) else None
            return [st]
        if isinstance(st, C.CFor):
            mod = self.modified_in(st.body)
            if not mod:
                sub = dict(env)
                st.body = self.block(st.body, sub, loops + [st.body])
                st.cond = self.rw(st.cond, env, post)
                if isinstance(st.init, C.CAssign):
                    st.init.value = self.rw(st.init.value, env, post)
                return [st]
            lo, hi, lv = self.bounds(st, env)
            st.init.value = self.rw(st.init.value, env, post)
            st.cond = self.rw(st.cond, env, post)
            inner = dict(env)
            after = {}
            for v in sorted(mod):
                if self.local_to_iteration(st.body, v) or self.only_assigned(st.body, v):
                    inner[v] = None
                    after[v] = None
                    continue
                d = self.delta(st.body, v, env, {lv} | (mod - {v}))
                start = env.get(v)
                if d is None or start is None:
                    raise Unsupported('%s is not advanced by the same loop-invariant amount in every iteration of the loop of line %d' % (v, st.line))
                k = Rat.atom(lv) - lo
                inner[v] = (start[0], start[1] + k * d) if start[0] == 'int' else ('ptr', start[1], start[2] + k * d)
                after[v] = (start[0], start[1] + (hi - lo) * d) if start[0] == 'int' else ('ptr', start[1], start[2] + (hi - lo) * d)
            st.body = self.block(st.body, inner, loops + [st.body])
            env.update(after)
            return [st]
        if isinstance(st, C.CWhile):
            c = st.cond
            if not (isinstance(c, ast.Compare) and len(c.ops) == 1 and isinstance(c.ops[0], (ast.Lt, ast.NotEq)) and isinstance(c.left, ast.Name) and c.left.id in self.tracked):
                raise Unsupported('while loop of line %d is not a counted walk' % st.line)
            v = c.left.id
            steps = list(getattr(st, 'steps', []) or [])
            mod = self.modified_in(st.body) | self.modified_in(steps)
            start = env.get(v)
            if start is None:
                raise Unsupported('%s has no single value at the while loop of line %d' % (v, st.line))
            if steps and any(isinstance(x, C.CJump) and x.kind == 'continue' for x in _all(st.body)) and self.modified_in(st.body):
                raise Unsupported('the loop of line %d advances a pointer or counter in its body and uses continue' % st.line)
            d = self.delta(st.body + steps, v, env, mod - {v})
            if d is None or not d.equals(Rat.const(1)):
                raise Unsupported('the while loop of line %d does not advance %s by one per iteration' % (st.line, v))
            if start[0] == 'ptr':
                end = self.ptr_of(c.comparators[0], env, [])
                if end is None or end[1] != start[1]:
                    raise Unsupported('the bound of the while loop of line %d is not a position in the same array' % st.line)
                trip = end[2] - start[2]
            else:
                trip = self.int_of(c.comparators[0], env, []) - start[1]
            if any(isinstance(n, ast.Name) and n.id in mod for n in ast.walk(c.comparators[0])):
                raise Unsupported('the bound of the while loop of line %d changes in the loop' % st.line)
            lv = next(n for n in ('ii', 'jj', 'kk', 'll', 'mm', 'nn_') if n not in self.used_names)
            self.used_names.add(lv)
            self.need_decl.append(lv)
            inner = dict(env)
            after = {}
            for w in sorted(mod):
                if self.local_to_iteration(st.body, w) or (self.only_assigned(st.body + steps, w) and w != v):
                    inner[w] = None
                    after[w] = None
                    continue
                dw = self.delta(st.body + steps, w, env, mod - {w})
                sw = env.get(w)
                if dw is None or sw is None:
                    raise Unsupported('%s is not advanced by the same amount in every iteration of the loop of line %d' % (w, st.line))
                k = Rat.atom(lv)
                inner[w] = (sw[0], sw[1] + k * dw) if sw[0] == 'int' else ('ptr', sw[1], sw[2] + k * dw)
                after[w] = (sw[0], sw[1] + trip * dw) if sw[0] == 'int' else ('ptr', sw[1], sw[2] + trip * dw)
            body = self.block(st.body, inner, loops + [st.body])
            self.block(steps, inner, loops)          # (their values are already in the closed forms)
            env.update(after)
            loop = C.CFor(C.CAssign(ast.Name(id=lv, ctx=ast.Load()), '=', ast.Constant(value=0), st.line),
                          ast.Compare(left=ast.Name(id=lv, ctx=ast.Load()), ops=[ast.Lt()], comparators=[rat_to_ast(trip)]),
                          C.CAssign(ast.Name(id=lv, ctx=ast.Load()), '+=', ast.Constant(value=1), st.line), body, st.line)
            return [loop]
        return [st]

    def assign(self, name, op, value, env, post):
        if name in self.int_locals:
            d = self.int_of(value, env, post)
            cur = env.get(name)
            if op == '=':
                env[name] = ('int', d)
            elif cur is None:
                raise Unsupported('%s has no single value here' % name)
            else:
                env[name] = ('int', cur[1] + d if op == '+=' else cur[1] - d)
            if op not in ('=', '+=', '-='):
                raise Unsupported('%s %s' % (name, op))
            return
        if op == '=':
            p = self.ptr_of(value, env, post)
            if p is None:
                raise Unsupported('pointer %s is set to %s' % (name, C.unparse(value)[:40]))
            env[name] = p
        elif op in ('+=', '-='):
            cur = env.get(name)
            if cur is None:
                raise Unsupported('pointer %s has no single value here' % name)
            d = self.int_of(value, env, post)
            env[name] = ('ptr', cur[1], cur[2] + d if op == '+=' else cur[2] - d)
        else:
            raise Unsupported('pointer %s %s' % (name, op))


# ---------------------------------------------------------------------------------------------------------------------------
# carved workspaces
# ---------------------------------------------------------------------------------------------------------------------------

def carve(f):
    """double *w = malloc(T*sizeof..); double *a = w; double *b = a + s0; ... free(w);   with w used for nothing else and the pieces
    never re-pointed:  every piece its own allocation of the size the carving gave it (the last one what is left of T).  The pieces
    may also be handed out by a cursor  (double *next = w;  a = next; next += s0;  b = next; next += s1; ...): the top-level
    statements are evaluated in order, every pointer derived from w holding its offset into w; a pointer defined once is a piece
    (one that only names another piece is that piece), a pointer defined more than once is a cursor and must not be used for
    anything but the carving."""
    allocs = {st.name: st for st in f.body if isinstance(st, C.CDecl) and st.pointer and _is_call(st.init, ('malloc',))}
    done = 0
    for wname, wst in list(allocs.items()):
        top = f.body
        if wst not in top:
            continue
        # definitions of every pointer, anywhere
        ndefs = {}
        for st in f.walk():
            if isinstance(st, C.CDecl) and st.pointer and st.init is not None:
                ndefs[st.name] = ndefs.get(st.name, 0) + 1
            if isinstance(st, C.CAssign) and isinstance(st.target, ast.Name):
                ndefs[st.target.id] = ndefs.get(st.target.id, 0) + 1
            if isinstance(st, C.CFor):
                for part in (st.init, st.step):
                    if isinstance(part, C.CAssign) and isinstance(part.target, ast.Name):
                        ndefs[part.target.id] = ndefs.get(part.target.id, 0) + 1
            for e in _stmt_exprs(st):
                for n in ast.walk(e):
                    if _is_call(n, ('postinc', 'postdec', 'addr')) and isinstance(n.args[0], ast.Name):
                        ndefs[n.args[0].id] = ndefs.get(n.args[0].id, 0) + 2
        ptr_decls = {st.name for st in f.walk() if isinstance(st, C.CDecl) and st.pointer and not st.array}
        offs = {wname: Rat.const(0)}          # current offset of every pointer into w
        carving = []                          # top-level statements that only carve
        piece_def = {}                        # piece name -> (defining statement, offset)
        ok = True

        def ptr_value(e):
            """offset of a pointer expression into w, None when it does not point into w"""
            if isinstance(e, ast.Name):
                return offs.get(e.id)
            if isinstance(e, ast.BinOp) and isinstance(e.op, (ast.Add, ast.Sub)) and isinstance(e.left, ast.Name) and e.left.id in offs:
                d = Translator().tr(e.right)
                return offs[e.left.id] + d if isinstance(e.op, ast.Add) else offs[e.left.id] - d
            if any(isinstance(n, ast.Name) and n.id in offs for n in ast.walk(e)):
                raise AlgebraError('pointer expression')
            return None
        try:
            for st in top:
                if st is wst:
                    continue
                if isinstance(st, C.CDecl) and st.pointer and not st.array and st.init is not None and not _is_call(st.init, ('malloc',)):
                    off = ptr_value(st.init)
                    if off is not None:
                        offs[st.name] = off
                        carving.append(st)
                        if ndefs.get(st.name, 0) == 1:
                            piece_def[st.name] = (st, off)
                    continue
                if isinstance(st, C.CAssign) and isinstance(st.target, ast.Name) and st.target.id in ptr_decls:
                    nm = st.target.id
                    if st.op == '=':
                        off = ptr_value(st.value)
                        if off is None:
                            if nm in offs:
                                ok = False
                                break
                            continue
                    elif st.op in ('+=', '-=') and nm in offs:
                        d = Translator().tr(st.value)
                        off = offs[nm] + d if st.op == '+=' else offs[nm] - d
                    elif nm in offs:
                        ok = False
                        break
                    else:
                        continue
                    offs[nm] = off
                    carving.append(st)
                    if ndefs.get(nm, 0) == 1:
                        piece_def[nm] = (st, off)
                    continue
        except AlgebraError:
            ok = False
        if not ok or not piece_def:
            continue
        derived = set(offs) - {wname}
        cursors = {n for n in derived if n not in piece_def}
        # uses outside the carving statements
        used = {}
        for st in f.walk():
            if any(st is c for c in carving) or st is wst:
                continue
            if isinstance(st, C.CExpr) and _is_call(st.expr, ('free',)) and C.unparse(st.expr.args[0]) == wname:
                continue
            for e in _stmt_exprs(st):
                for n in ast.walk(e):
                    if isinstance(n, ast.Name) and (n.id in derived or n.id == wname):
                        used[n.id] = used.get(n.id, 0) + 1
        if wname in used or any(c in used for c in cursors):
            continue
        # a carving statement may read only w, cursors and pieces (through ptr_value) - its right-hand side was fully evaluated above
        pieces = sorted(((nm, st, off) for nm, (st, off) in piece_def.items() if nm in used), key=lambda t: (_at(t[2], 3) or 0, _at(t[2], 7) or 0))
        pure_alias = [nm for nm in piece_def if nm not in used]
        if not pieces:
            continue
        try:
            total = Translator().tr(wst.init.args[0]) / Rat.atom('SIZEOF')
        except AlgebraError:
            continue
        sizes = []
        for k, (nm, st, off) in enumerate(pieces):
            nxt = pieces[k + 1][2] if k + 1 < len(pieces) else total
            sz = nxt - off
            val = _at(sz, 3)
            if val is None or val <= 0 or not (_at(sz, 7) or 0) > 0:
                ok = False
            sizes.append(sz)
        if not ok or not pieces[0][2].is_zero():
            continue
        new_alloc = {}
        for (nm, st, off), sz in zip(pieces, sizes):
            new_alloc[id(st)] = ast.Call(func=ast.Name(id='malloc', ctx=ast.Load()),
                                         args=[ast.BinOp(left=rat_to_ast(sz), op=ast.Mult(), right=ast.Name(id='SIZEOF', ctx=ast.Load()))], keywords=[])
        new_top = []
        for st in top:
            if st is wst:
                continue
            if id(st) in new_alloc:
                if isinstance(st, C.CDecl):
                    st.init = new_alloc[id(st)]
                else:
                    st.value = new_alloc[id(st)]
                new_top.append(st)
                continue
            if any(st is c for c in carving):
                # a cursor step, a cursor / alias declaration: nothing is left of it
                continue
            if isinstance(st, C.CDecl) and st.pointer and st.init is None and (st.name in cursors or st.name in pure_alias):
                continue
            if isinstance(st, C.CExpr) and _is_call(st.expr, ('free',)) and C.unparse(st.expr.args[0]) == wname:
                for nm, _st, _off in pieces:
                    new_top.append(C.CExpr(ast.Call(func=ast.Name(id='free', ctx=ast.Load()), args=[ast.Name(id=nm, ctx=ast.Load())], keywords=[]), st.line))
                continue
            new_top.append(st)
        f.body[:] = new_top
        done += 1
    return done


def _at(r, value):
    """r with every atom set to `value` (a size must be positive for every extent in use)"""
    try:
        v = r.subs({a: Rat.const(value) for a in r.atoms()})
        return v.const_value() if v.is_const() else None
    except Exception:
        return None


def pointer_for_loops(f):
    """for (p = a; p < e; p++) over a pointer p: the same loop in while form (initialiser first, the step at the end of every iteration),
    which the walk turns into a counted loop"""
    ptrs = {pn for pt, pn in f.params if '*' in pt} | {st.name for st in f.walk() if isinstance(st, C.CDecl) and st.pointer and not st.array}
    n = 0

    def rec(stmts):
        nonlocal n
        out = []
        for st in stmts:
            if isinstance(st, (C.CFor, C.CWhile)):
                st.body = rec(st.body)
            elif isinstance(st, C.CIf):
                st.body, st.orelse = rec(st.body), rec(st.orelse)
            if isinstance(st, C.CFor) and isinstance(st.init, C.CAssign) and isinstance(st.init.target, ast.Name) and st.init.target.id in ptrs:
                w = C.CWhile(st.cond, st.body, st.line)
                w.steps = [st.step] if st.step is not None else []
                out.extend([st.init, w])
                n += 1
            else:
                out.append(st)
        return out
    f.body = rec(f.body)
    return n


def countdown_loops(f):
    """for (c = a; c > b; c--) body  whose body never mentions c is a loop that runs a - b times: the same loop counting up from 0 (so
    that pointers advanced in the body get their closed forms); a loop that uses its variable is left alone"""
    n = 0
    used = set(f.param_names())
    for st in f.walk():
        if isinstance(st, C.CDecl):
            used.add(st.name)
        for e in _stmt_exprs(st):
            used |= {x.id for x in ast.walk(e) if isinstance(x, ast.Name)}
    for st in list(f.walk()):
        if not (isinstance(st, C.CFor) and isinstance(st.init, C.CAssign) and isinstance(st.init.target, ast.Name) and st.init.op == '=' and isinstance(st.step, C.CAssign) and
                st.step.op == '-=' and C.unparse(st.step.value) == '1' and C.unparse(st.step.target) == st.init.target.id and isinstance(st.cond, ast.Compare) and len(st.cond.ops) == 1 and
                isinstance(st.cond.ops[0], (ast.Gt, ast.GtE)) and C.unparse(st.cond.left) == st.init.target.id):
            continue
        lv = st.init.target.id
        if any(isinstance(x, ast.Name) and x.id == lv for b in _all(st.body) for e in _stmt_exprs(b) for x in ast.walk(e)):
            continue
        trip = ast.BinOp(left=st.init.value, op=ast.Sub(), right=st.cond.comparators[0])
        if isinstance(st.cond.ops[0], ast.GtE):
            trip = ast.BinOp(left=trip, op=ast.Add(), right=ast.Constant(value=1))
        st.init = C.CAssign(ast.Name(id=lv, ctx=ast.Load()), '=', ast.Constant(value=0), st.line)
        st.cond = ast.Compare(left=ast.Name(id=lv, ctx=ast.Load()), ops=[ast.Lt()], comparators=[trip])
        st.step = C.CAssign(ast.Name(id=lv, ctx=ast.Load()), '+=', ast.Constant(value=1), st.line)
        n += 1
    return n


def _is_dec(st, v):
    """the statement decrements the int variable v by one"""
    if isinstance(st, C.CAssign) and isinstance(st.target, ast.Name) and st.target.id == v:
        if st.op == '-=' and C.unparse(st.value) == '1':
            return True
        if st.op == '=' and C.unparse(st.value).replace(' ', '') in ('%s-1' % v,):
            return True
    if isinstance(st, C.CExpr) and _is_call(st.expr, ('postdec', 'predec')) and isinstance(st.expr.args[0], ast.Name) and st.expr.args[0].id == v:
        return True
    return False


def countdown_while(f):
    """v = E;  while (v > L) { v--; body }   is   for (v = E - 1; v >= L; v--) body       (the body sees E-1, E-2, ..., L)
       v = E;  while (v >= L) { body; v-- }  is   for (v = E; v >= L; v--) body
    for an int variable v that the body does not otherwise assign, whose initialisation directly precedes the loop"""
    ints = {pn for pt, pn in f.params if '*' not in pt and C._base_type(pt) == 'int'} | {st.name for st in f.walk() if isinstance(st, C.CDecl) and not st.pointer and not st.array and C._base_type(st.ctype) == 'int'}
    n = 0

    def rec(stmts):
        nonlocal n
        out = []
        for st in stmts:
            if isinstance(st, (C.CFor, C.CWhile)):
                st.body = rec(st.body)
            elif isinstance(st, C.CIf):
                st.body, st.orelse = rec(st.body), rec(st.orelse)
            c = st.cond if isinstance(st, C.CWhile) else None
            if c is not None and not (getattr(st, 'steps', None) or []) and isinstance(c, ast.Compare) and len(c.ops) == 1 and isinstance(c.ops[0], (ast.Gt, ast.GtE)) and isinstance(c.left, ast.Name) and \
                    c.left.id in ints and st.body and out and isinstance(out[-1], C.CAssign) and out[-1].op == '=' and isinstance(out[-1].target, ast.Name) and out[-1].target.id == c.left.id:
                v = c.left.id
                first, last = _is_dec(st.body[0], v), _is_dec(st.body[-1], v)
                body = st.body[1:] if first else st.body[:-1] if last else None
                bound_names = {x.id for x in ast.walk(c.comparators[0]) if isinstance(x, ast.Name)}
                if body is not None and len(st.body) >= 2 and not (first and last) and v not in C._assigned_in(body) and not (bound_names & C._assigned_in(st.body)) and \
                        not any(isinstance(x, C.CJump) for x in _all(body)):
                    init = out.pop()
                    start = init.value if last else ast.BinOp(left=init.value, op=ast.Sub(), right=ast.Constant(value=1))
                    # the loop runs while v > L (decrement first: v - 1 >= L) or v >= L (decrement last)
                    if first:
                        low = c.comparators[0] if isinstance(c.ops[0], ast.Gt) else ast.BinOp(left=c.comparators[0], op=ast.Sub(), right=ast.Constant(value=1))
                    else:
                        low = c.comparators[0] if isinstance(c.ops[0], ast.GtE) else ast.BinOp(left=c.comparators[0], op=ast.Add(), right=ast.Constant(value=1))
                    loop = C.CFor(C.CAssign(ast.Name(id=v, ctx=ast.Load()), '=', start, init.line), ast.Compare(left=ast.Name(id=v, ctx=ast.Load()), ops=[ast.GtE()], comparators=[low]),
                                  C.CAssign(ast.Name(id=v, ctx=ast.Load()), '-=', ast.Constant(value=1), st.line), body, st.line)
                    out.append(loop)
                    n += 1
                    continue
            out.append(st)
        return out
    f.body = rec(f.body)
    return n


def forward_scalars(f, recorded_locals):
    """A floating-point local s that the confirmed form of the function does not have and that is stored into an array cell right
    after every one of its assignments ( s = E; A[i] = s; ) is that cell:  A[i] = E,  later reads of s in the same block are A[i], and
    a read of s inside E itself - the value of the previous iteration of a unit-step counted loop whose index is i = v + c - is the
    neighbouring cell A[i - 1] (counting up) or A[i + 1] (counting down), provided s enters the loop holding exactly that cell (the
    store that precedes the loop, or the last cell of the preceding loop).  Undoes "carry the last entry in a register"."""
    if not recorded_locals:
        return 0
    rec = set(recorded_locals)
    done = 0
    for _round in range(6):
        cands = [st.name for st in f.walk() if isinstance(st, C.CDecl) and not st.pointer and not st.array and st.name not in rec and C._base_type(st.ctype) == 'double']
        progressed = False
        for s in cands:
            if _forward_one(f, s):
                done += 1
                progressed = True
                break
        if not progressed:
            break
    return done


def _forward_one(f, s):
    # every definition of s with the block it lies in
    sites = []          # (block, index, value expr holder (stmt), enclosing loops)
    ok = True

    def scan(stmts, loops):
        nonlocal ok
        for i, st in enumerate(stmts):
            is_def = (isinstance(st, C.CDecl) and st.name == s and st.init is not None) or (isinstance(st, C.CAssign) and isinstance(st.target, ast.Name) and st.target.id == s)
            if is_def:
                if isinstance(st, C.CAssign) and st.op != '=':
                    ok = False
                sites.append((stmts, i, st, list(loops)))
            if isinstance(st, C.CFor):
                for part in (st.init, st.step):
                    if isinstance(part, C.CAssign) and isinstance(part.target, ast.Name) and part.target.id == s:
                        ok = False
                scan(st.body, loops + [st])
            elif isinstance(st, C.CWhile):
                if any(isinstance(x, ast.Name) and x.id == s for b in _all(st.body) for e in _stmt_exprs(b) for x in ast.walk(e)):
                    ok = False
            elif isinstance(st, C.CIf):
                if any((isinstance(b, C.CAssign) and isinstance(b.target, ast.Name) and b.target.id == s) for b in _all(st.body + st.orelse)):
                    ok = False
    scan(f.body, [])
    if not ok or not sites:
        return False
    # address taken / incremented: not a plain value
    for st in f.walk():
        for e in _stmt_exprs(st):
            for x in ast.walk(e):
                if _is_call(x, ('addr', 'postinc', 'postdec')) and isinstance(x.args[0], ast.Name) and x.args[0].id == s:
                    return False
    arr = None
    cells = []
    for blk, i, st, loops in sites:
        # declarations without initialiser between the definition and the store do nothing: moved in front of the definition
        k_ = i + 1
        while k_ < len(blk) and isinstance(blk[k_], C.CDecl) and blk[k_].init is None and not blk[k_].array_init:
            k_ += 1
        if k_ > i + 1:
            moved = blk[i + 1:k_]
            blk[i:k_] = moved + [st]
            return _forward_one(f, s)
        if i + 1 >= len(blk):
            return False
        nx = blk[i + 1]
        if not (isinstance(nx, C.CAssign) and nx.op == '=' and isinstance(nx.target, ast.Subscript) and isinstance(nx.target.value, ast.Name) and isinstance(nx.value, ast.Name) and nx.value.id == s):
            return False
        if arr is None:
            arr = nx.target.value.id
        if nx.target.value.id != arr:
            return False
        cells.append(nx.target.slice)
    # no other store into the array except the forwarding stores
    fwd = {id(blk[i + 1]) for blk, i, st, loops in sites}
    for st in f.walk():
        if isinstance(st, C.CAssign) and isinstance(st.target, ast.Subscript) and isinstance(st.target.value, ast.Name) and st.target.value.id == arr and id(st) not in fwd:
            return False
        for e in _stmt_exprs(st):
            for x in ast.walk(e):
                if isinstance(x, ast.Call) and any(isinstance(a, ast.Name) and a.id == arr for a in x.args) and not _is_call(x, ('free',)):
                    return False

    def affine(idx, v):
        """c with idx = v + c, or None"""
        try:
            r = Translator().tr(idx) - Rat.atom(v)
        except AlgebraError:
            return None
        return None if v in r.atoms() else r

    def loop_range(lp):
        """(variable, direction, first value, last value) of a unit-step counted loop"""
        if not (isinstance(lp.init, C.CAssign) and lp.init.op == '=' and isinstance(lp.init.target, ast.Name) and isinstance(lp.cond, ast.Compare) and len(lp.cond.ops) == 1 and
                isinstance(lp.step, C.CAssign) and C.unparse(lp.step.target) == lp.init.target.id and C.unparse(lp.step.value) == '1' and C.unparse(lp.cond.left) == lp.init.target.id):
            return None
        v = lp.init.target.id
        try:
            a, b = Translator().tr(lp.init.value), Translator().tr(lp.cond.comparators[0])
        except AlgebraError:
            return None
        op = lp.cond.ops[0]
        if lp.step.op == '+=' and isinstance(op, (ast.Lt, ast.LtE)):
            return v, 'up', a, (b - Rat.const(1)) if isinstance(op, ast.Lt) else b
        if lp.step.op == '-=' and isinstance(op, (ast.Gt, ast.GtE)):
            return v, 'down', a, (b + Rat.const(1)) if isinstance(op, ast.Gt) else b
        return None
    # what s holds after each site, as a cell of arr: for a top-level site the cell itself; for a site inside a loop the last cell
    plan = []           # (site, carried replacement or None)
    holds = None        # Rat index of the cell s holds at the current point of the top-level block (None: unknown)
    top_sites = {id(st): k for k, (blk, i, st, loops) in enumerate(sites)}
    for k, (blk, i, st, loops) in enumerate(sites):
        if len(loops) > 1 or (loops and blk is not loops[0].body):
            return False
    # walk the top-level block in order
    for j, st in enumerate(f.body):
        if id(st) in top_sites:
            k = top_sites[id(st)]
            val = st.init if isinstance(st, C.CDecl) else st.value
            if any(isinstance(x, ast.Name) and x.id == s for x in ast.walk(val)):
                return False
            try:
                holds = Translator().tr(cells[k])
            except AlgebraError:
                return False
            plan.append((k, None))
            continue
        if isinstance(st, C.CFor):
            inner = [k for k, (blk, i, d, loops) in enumerate(sites) if loops and loops[0] is st]
            reads_in = any(isinstance(x, ast.Name) and x.id == s for b in _all(st.body) for e in _stmt_exprs(b) for x in ast.walk(e))
            if not inner:
                if reads_in:
                    return False
                continue
            if len(inner) != 1:
                return False
            k = inner[0]
            lr = loop_range(st)
            if lr is None:
                return False
            v, direction, first, last = lr
            c = affine(cells[k], v)
            if c is None:
                return False
            d = sites[k][2]
            val = d.init if isinstance(d, C.CDecl) else d.value
            carried = any(isinstance(x, ast.Name) and x.id == s for x in ast.walk(val))
            # reads of s before the definition inside the body are carried reads too
            blk, i = sites[k][0], sites[k][1]
            early = any(isinstance(x, ast.Name) and x.id == s for b in _all(blk[:i]) for e in _stmt_exprs(b) for x in ast.walk(e))
            if carried or early:
                entry = first + c + (Rat.const(-1) if direction == 'up' else Rat.const(1))
                if holds is None or not (holds - entry).is_zero():
                    return False
                plan.append((k, -1 if direction == 'up' else 1))
            else:
                plan.append((k, None))
            holds = last + c           # with zero iterations last + c is the entry cell, which s then still holds (when it was carried)
            if not (carried or early):
                # with zero iterations s keeps its old value: unknown unless that is the same cell
                holds = None if holds is None else holds
            continue
        # any other statement reading s is rewritten to the cell s holds; a statement that could change arr was excluded above
    # ---- rewrite ----------------------------------------------------------------------------------------------------
    def cell_expr(idx_ast, shift=0):
        idx = C._clone(idx_ast)
        if shift:
            idx = ast.BinOp(left=idx, op=ast.Add() if shift > 0 else ast.Sub(), right=ast.Constant(value=abs(shift)))
        return ast.Subscript(value=ast.Name(id=arr, ctx=ast.Load()), slice=idx, ctx=ast.Load())

    class Sub(ast.NodeTransformer):
        def __init__(self, repl):
            self.repl = repl

        def visit_Name(self, n):
            return self.repl() if n.id == s else n

    def replace_in(st, repl):
        for holder, attr in _holders(st):
            e = getattr(holder, attr)
            if isinstance(e, ast.AST):
                setattr(holder, attr, Sub(repl).visit(e))
    current = None          # AST index of the cell s holds at top level
    planned = dict(plan)
    new_body = []
    j = 0
    body = f.body
    while j < len(body):
        st = body[j]
        if id(st) in top_sites:
            k = top_sites[id(st)]
            store = body[j + 1]
            store.value = st.init if isinstance(st, C.CDecl) else st.value
            if isinstance(st, C.CDecl):
                new_body.append(C.CDecl(st.ctype, st.name, st.pointer, None, st.line, st.array, st.array_init))
            new_body.append(store)
            current = (cells[k], 0)
            j += 2
            continue
        if isinstance(st, C.CFor):
            inner = [k for k, (blk, i, d, loops) in enumerate(sites) if loops and loops[0] is st]
            if inner:
                k = inner[0]
                blk, i, d, loops = sites[k]
                shift = planned.get(k)
                for b in blk[:i]:
                    for x in _all([b]):
                        replace_in(x, lambda: cell_expr(cells[k], shift))
                val_holder = d
                if shift is not None:
                    replace_in(val_holder, lambda: cell_expr(cells[k], shift))
                store = blk[i + 1]
                store.value = d.init if isinstance(d, C.CDecl) else d.value
                rest = blk[i + 2:]
                for b in rest:
                    for x in _all([b]):
                        replace_in(x, lambda: cell_expr(cells[k], 0))
                blk[i:i + 2] = [store]
                lr = loop_range(st)
                # after the loop s holds the last cell: index with the loop variable at its last value
                v, direction, first, last = lr
                last_idx = rat_to_ast(last + affine(cells[k], v))
                current = (last_idx, 0)
                new_body.append(st)
                j += 1
                continue
        if current is not None:
            for x in _all([st]):
                replace_in(x, lambda: cell_expr(current[0], current[1]))
        new_body.append(st)
        j += 1
    f.body[:] = new_body
    # drop the declaration of s when nothing mentions it any more
    if not any(isinstance(x, ast.Name) and x.id == s for st in f.walk() for e in _stmt_exprs(st) for x in ast.walk(e)):
        def drop(stmts):
            for st in list(stmts):
                if isinstance(st, C.CDecl) and st.name == s:
                    stmts.remove(st)
                elif isinstance(st, (C.CFor, C.CWhile)):
                    drop(st.body)
                elif isinstance(st, C.CIf):
                    drop(st.body)
                    drop(st.orelse)
        drop(f.body)
    return True


def inline_expr_helpers(f, funcs, recorded_funcs):
    """calls, anywhere inside expressions, of functions of the same program that the confirmed tree does not have and whose body is a
    single `return E;` over their (value) parameters: replaced by E with the arguments substituted (arguments of such calls are
    pure arithmetic here: names, constants, array elements, arithmetic)"""
    done = 0

    def simple(h):
        body = [x for x in h.body if not (isinstance(x, C.CDecl) and x.init is None)]
        return body[0].value if len(body) == 1 and isinstance(body[0], C.CReturn) and body[0].value is not None and not any('*' in pt for pt, _ in h.params) else None

    def pure_arg(a):
        return all(isinstance(x, (ast.Name, ast.Constant, ast.BinOp, ast.UnaryOp, ast.Subscript, ast.Load, ast.operator, ast.unaryop, ast.expr_context)) or
                   (isinstance(x, ast.Call) and isinstance(x.func, ast.Name) and x.func.id in ('pow', 'exp', 'log', 'sqrt', 'fabs')) for x in ast.walk(a))
    for _round in range(6):
        changed = False
        for st in f.walk():
            for holder, attr in _holders(st):
                e = getattr(holder, attr)
                if not isinstance(e, ast.AST):
                    continue

                class T(ast.NodeTransformer):
                    def visit_Call(self, n):
                        nonlocal changed, done
                        self.generic_visit(n)
                        if isinstance(n.func, ast.Name):
                            h = funcs.get(n.func.id)
                            if h is not None and h is not f and h.name not in recorded_funcs and len(h.params) == len(n.args) and all(pure_arg(a) for a in n.args):
                                body = simple(h)
                                if body is not None:
                                    mp = {pn: a for (pt, pn), a in zip(h.params, n.args)}

                                    class S(ast.NodeTransformer):
                                        def visit_Name(self, m):
                                            return C._clone(mp[m.id]) if m.id in mp else m
                                    changed = True
                                    done += 1
                                    return S().visit(C._clone(body))
                        return n
                setattr(holder, attr, T().visit(e))
        if not changed:
            break
    return done


def normalise(f, funcs, recorded_funcs, recorded_locals, global_ptrs=()):
    """all of the above on one function; returns the number of rewrites; raises Unsupported"""
    n = inline_expr_helpers(f, funcs, recorded_funcs)
    n += inline_void_helpers(f, funcs, recorded_funcs)
    n += pointer_for_loops(f)
    n += countdown_while(f)
    n += countdown_loops(f)
    cur_locals = C.c_locals(f)
    if recorded_locals and len(cur_locals) > len(recorded_locals):
        # (a function with as many locals as the confirmed form has no new scalars, whatever they are called: renamed locals are paired
        # position by position afterwards)
        C.c_inline_new_scalars(f, set(recorded_locals))
        n += forward_scalars(f, recorded_locals)
        C.c_inline_new_scalars(f, set(recorded_locals))
    n += carve(f)
    w = Walk(f, recorded_locals, global_ptrs)
    if w.needed():
        w.run()
        n += 1
    return n
