"""E-ALG: exact rational-function normal form over Q (DESIGN.md 1.1).

Poly   = dict { monomial -> Fraction },  monomial = tuple of (atom, Fraction exponent) sorted by atom
Rat    = (num Poly, den Poly); equality by cross-multiplication (no gcd needed)
Atoms  = strings: names, array elements `a[<canonical index>]`, and opaque applications with
         canonicalised arguments.  exp() of a polynomial is split into one atom per monomial
         (exp(a+b) = exp(a)*exp(b); exp(c*m) = E[m]**c), sqrt / rational powers become rational
         exponents, log of a monomial is split into a sum of logs.
No path enumeration, no solver: this only normalises branch-free expressions.
"""
import ast
from fractions import Fraction
from .report import AnalysisError

ONE = ()


PARANOID = {'on': False, 'trials': 2, 'seed': 20261003, 'checked': 0, 'skipped': 0, 'disagreements': []}


class AlgebraError(Exception):
    pass


def _mono_mul(a, b):
    if not a:
        return b
    if not b:
        return a
    d = dict(a)
    for k, e in b:
        d[k] = d.get(k, 0) + e
    return tuple(sorted((k, e) for k, e in d.items() if e != 0))


class Poly:
    __slots__ = ('t',)

    def __init__(self, t=None):
        self.t = {m: c for m, c in (t or {}).items() if c != 0}

    @staticmethod
    def const(c):
        return Poly({ONE: Fraction(c)})

    @staticmethod
    def atom(name, e=1):
        return Poly({((name, Fraction(e)),): Fraction(1)})

    def __add__(self, o):
        d = dict(self.t)
        for m, c in o.t.items():
            d[m] = d.get(m, 0) + c
        return Poly(d)

    def __neg__(self):
        return Poly({m: -c for m, c in self.t.items()})

    def __sub__(self, o):
        return self + (-o)

    def __mul__(self, o):
        d = {}
        for m1, c1 in self.t.items():
            for m2, c2 in o.t.items():
                m = _mono_mul(m1, m2)
                d[m] = d.get(m, 0) + c1 * c2
        return Poly(d)

    def is_zero(self):
        return not self.t

    def is_const(self):
        return all(m == ONE for m in self.t)

    def const_value(self):
        return self.t.get(ONE, Fraction(0))

    def is_monomial(self):
        return len(self.t) == 1

    def __eq__(self, o):
        return isinstance(o, Poly) and self.t == o.t

    def __hash__(self):
        return hash(frozenset(self.t.items()))

    def atoms(self):
        s = set()
        for m in self.t:
            for k, e in m:
                s.add(k)
        return s

    def canon(self):
        if not self.t:
            return '0'
        parts = []
        for m in sorted(self.t, key=lambda mm: [(k, float(e)) for k, e in mm]):
            c = self.t[m]
            ms = '*'.join(k if e == 1 else '%s^%s' % (k, e) for k, e in m)
            if not ms:
                parts.append(str(c))
            elif c == 1:
                parts.append(ms)
            else:
                parts.append('%s*%s' % (c, ms))
        return ' + '.join(parts)

    def subs(self, mapping):
        """substitute atoms by Rat values (mapping atom -> Rat); only integer exponents for substituted atoms"""
        res = Rat.const(0)
        for m, c in self.t.items():
            term = Rat.const(c)
            for k, e in m:
                if k in mapping:
                    if e.denominator != 1:
                        raise AlgebraError('fractional power of substituted atom %s' % k)
                    term = term * (mapping[k] ** int(e))
                else:
                    term = term * Rat(Poly({((k, e),): Fraction(1)}))
            res = res + term
        return res


def _poly_key(p):
    return sorted(p.t, key=lambda mm: [(k, float(e)) for k, e in mm])


def _norm_factor(p):
    """(unit Fraction, monic-normalised Poly): p == unit * factor, factor's first coefficient (canonical order) is 1"""
    lead = p.t[_poly_key(p)[0]]
    if lead == 1:
        return Fraction(1), p
    return lead, p * Poly.const(1 / lead)


class Rat:
    """n / prod(f**k for f,k in d)

    The denominator is kept FACTORED (a multiset of normalised polynomial factors): sums over a common
    denominator use the lcm of the factor multisets and never expand products of denominators.  `nf` is an
    optional factorisation hint of the numerator (list of Poly whose product is n) that survives products, so
    that dividing by `(a-b)*(c-d)` yields two denominator factors rather than one expanded polynomial."""
    __slots__ = ('n', 'd', 'nf')

    def __init__(self, n, d=None, nf=None):
        self.n = n
        self.d = {}
        self.nf = nf
        if d is None:
            return
        if isinstance(d, Poly):
            d = {d: 1}
        for f, k in d.items():
            self._div_factor(f, k)

    def _div_factor(self, f, k=1):
        if k == 0:
            return
        if f.is_zero():
            raise AlgebraError('division by an identically zero expression')
        if f.is_monomial():
            (m, c), = f.t.items()
            inv = tuple((a, -e * k) for a, e in m)
            self.n = self.n * Poly({inv: (1 / c) ** k})
            self.nf = None
            return
        unit, g = _norm_factor(f)
        if unit != 1:
            self.n = self.n * Poly.const((1 / unit) ** k)
            self.nf = None
        # cancel against an identical numerator factor
        facs = self.nf if self.nf is not None else [self.n]
        for i, nfac in enumerate(facs):
            if k <= 0:
                break
            if nfac.is_zero() or nfac.is_monomial():
                continue
            u2, g2 = _norm_factor(nfac)
            if g2 == g:
                rest = Poly.const(u2)
                for j, x in enumerate(facs):
                    if j != i:
                        rest = rest * x
                self.n = rest
                facs = [x for j, x in enumerate(facs) if j != i] + [Poly.const(u2)]
                self.nf = facs
                k -= 1
                return self._div_factor(f, k) if k else None
        self.d[g] = self.d.get(g, 0) + k
        if self.d[g] == 0:
            del self.d[g]

    @staticmethod
    def const(c):
        return Rat(Poly.const(c))

    @staticmethod
    def atom(name):
        return Rat(Poly.atom(name))

    def den_poly(self):
        r = Poly.const(1)
        for f, k in self.d.items():
            for _ in range(k):
                r = r * f
        return r

    def _over(self, lcm):
        """numerator of self expressed over the factored denominator lcm (a superset of self.d)"""
        n = self.n
        for f, k in lcm.items():
            miss = k - self.d.get(f, 0)
            for _ in range(miss):
                n = n * f
        return n

    def __add__(self, o):
        if self.d == o.d:
            r = Rat(self.n + o.n)
            r.d = dict(self.d)
        else:
            lcm = dict(self.d)
            for f, k in o.d.items():
                if lcm.get(f, 0) < k:
                    lcm[f] = k
            r = Rat(self._over(lcm) + o._over(lcm))
            r.d = lcm
        if r.n.is_zero():
            r.d = {}
        return r

    def __neg__(self):
        r = Rat(-self.n)
        r.d = dict(self.d)
        return r

    def __sub__(self, o):
        return self + (-o)

    def __mul__(self, o):
        fa = self.nf if self.nf is not None else [self.n]
        fb = o.nf if o.nf is not None else [o.n]
        r = Rat(self.n * o.n, None, list(fa) + list(fb))
        if r.n.is_zero():
            return Rat.const(0)
        r.d = dict(self.d)
        # o's denominator factors: go through _div_factor so that they cancel against numerator factors
        for f, k in o.d.items():
            r._div_factor(f, k)
        # self's denominator factors may cancel against o's numerator factors
        for f in list(r.d):
            k = r.d[f]
            facs = r.nf if r.nf is not None else [r.n]
            if any((not x.is_zero()) and (not x.is_monomial()) and _norm_factor(x)[1] == f for x in facs):
                del r.d[f]
                r._div_factor(f, k)
        return r

    def __truediv__(self, o):
        if o.n.is_zero():
            raise AlgebraError('division by an identically zero expression')
        facs = o.nf if o.nf is not None else [o.n]
        r = Rat(self.n, None, list(self.nf) if self.nf is not None else None)
        r.d = dict(self.d)
        # multiply by o's denominator
        if o.d:
            up = Rat(Poly.const(1))
            for f, k in o.d.items():
                for _ in range(k):
                    up = up * Rat(f)
            r = r * up
        for f in facs:
            r._div_factor(f, 1)
        return r

    def __pow__(self, k):
        if isinstance(k, Fraction) and k.denominator == 1:
            k = int(k)
        if isinstance(k, int):
            if k < 0:
                return Rat.const(1) / (self ** (-k))
            r = Rat.const(1)
            for _ in range(k):
                r = r * self
            return r
        # rational power: only of a monomial (product of atoms with a positive rational coefficient)
        if not self.d and self.n.is_monomial():
            (m, c), = self.n.t.items()
            mono = tuple((a, e * k) for a, e in m)
            coef = _frac_pow(c, k)
            if coef is None:
                mono = _mono_mul(mono, ((('num(%s)' % c), Fraction(k)),))
                coef = Fraction(1)
            return Rat(Poly({mono: coef}))
        return Rat.atom('pow(%s,%s)' % (self.canon(), k))

    def is_zero(self):
        return self.n.is_zero()

    def equals(self, o):
        res = (self - o).is_zero()
        if PARANOID['on']:
            # thorough tier: every decision of the normaliser is re-derived by exact evaluation at random rational points
            chk = random_identity_test(self, o, trials=PARANOID['trials'], seed=PARANOID['seed'] + PARANOID['checked'])
            if chk is None:
                PARANOID['skipped'] += 1
            else:
                PARANOID['checked'] += 1
                if chk != res:
                    PARANOID['disagreements'].append((self.canon()[:200], o.canon()[:200], res, chk))
        return res

    def canon(self):
        if not self.d:
            return self.n.canon()
        ds = '*'.join(sorted(('(%s)' % f.canon()) + ('' if k == 1 else '^%d' % k) for f, k in self.d.items()))
        return '(%s)/(%s)' % (self.n.canon(), ds)

    def atoms(self):
        s = self.n.atoms()
        for f in self.d:
            s |= f.atoms()
        return s

    def subs(self, mapping):
        r = self.n.subs(mapping)
        for f, k in self.d.items():
            r = r / (f.subs(mapping) ** k)
        return r

    def is_const(self):
        return self.n.is_const() and not self.d

    def const_value(self):
        return self.n.const_value()


def _frac_pow(c, k):
    """exact c**k for Fractions when the result is rational, else None"""
    if c == 1:
        return Fraction(1)
    if c <= 0:
        return None
    num, den = k.numerator, k.denominator

    def root(v, r):
        x = round(v ** (1.0 / r))
        for y in (x - 1, x, x + 1):
            if y >= 0 and y ** r == v:
                return y
        return None
    rn, rd = root(c.numerator, den), root(c.denominator, den)
    if rn is None or rd is None:
        return None
    base = Fraction(rn, rd)
    return base ** num if num >= 0 else 1 / (base ** (-num))


# ---------------------------------------------------------------------------
# transcendental helpers
# ---------------------------------------------------------------------------

def exp_of(r):
    """exp of a Rat whose denominator is constant: split per monomial"""
    if r.d:
        return Rat.atom('exp(%s)' % r.canon())
    dv = Fraction(1)
    res = Rat.const(1)
    for m, c in r.n.t.items():
        c = c / dv
        if m == ONE:
            res = res * Rat(Poly({((('exp(1)'), Fraction(c)),): Fraction(1)}))
        else:
            name = 'exp(%s)' % Poly({m: Fraction(1)}).canon()
            res = res * Rat(Poly({((name, Fraction(c)),): Fraction(1)}))
    return res


def log_of(r):
    if not r.d and r.n.is_monomial():
        (m, c), = r.n.t.items()
        res = Rat.const(0)
        if c != 1:
            if c <= 0:
                return Rat.atom('log(%s)' % r.canon())
            res = res + Rat.atom('log(%s)' % c)
        for a, e in m:
            if a.startswith('exp(') and a.endswith(')'):
                # log(exp(m)^e) = e*m  -- re-parse the monomial text is avoided: keep opaque but linear
                res = res + Rat(Poly({((('log(%s)' % a), Fraction(1)),): e}))
            else:
                res = res + Rat(Poly({((('log(%s)' % a), Fraction(1)),): e}))
        return res
    return Rat.atom('log(%s)' % r.canon())


# ---------------------------------------------------------------------------
# Python AST -> Rat
# ---------------------------------------------------------------------------

FUNC_ALIASES = {
    'numpy.exp': 'exp', 'np.exp': 'exp', 'math.exp': 'exp', 'exp': 'exp', 'numpy.ma.exp': 'exp',
    'numpy.log': 'log', 'np.log': 'log', 'math.log': 'log', 'log': 'log', 'numpy.ma.log': 'log',
    'numpy.sqrt': 'sqrt', 'np.sqrt': 'sqrt', 'math.sqrt': 'sqrt', 'sqrt': 'sqrt', 'numpy.ma.sqrt': 'sqrt',
    'pow': 'pow', 'numpy.power': 'pow', 'np.power': 'pow', 'math.pow': 'pow',
    'float': 'id', 'numpy.float64': 'id', 'numpy.asarray': 'id', 'numpy.array': 'id', 'np.asarray': 'id', 'np.array': 'id',
    'numpy.asanyarray': 'id',
}


class Translator:
    """expression AST -> Rat.  env: name -> Rat (inlined temporaries).  Unknown calls become opaque atoms with
    canonical arguments, so that equal applications compare equal."""

    def __init__(self, env=None, index_hook=None, call_hook=None, name_hook=None, attr_hook=None):
        self.env = dict(env or {})
        self.index_hook = index_hook
        self.call_hook = call_hook
        self.name_hook = name_hook
        self.attr_hook = attr_hook

    def tr(self, e):
        if isinstance(e, ast.Constant):
            if isinstance(e.value, bool):
                return Rat.const(int(e.value))
            if isinstance(e.value, int):
                return Rat.const(e.value)
            if isinstance(e.value, float):
                return Rat.const(Fraction(repr(e.value)))
            raise AlgebraError('non-numeric constant %r' % (e.value,))
        if isinstance(e, ast.Name):
            if e.id in self.env:
                return self.env[e.id]
            if self.name_hook:
                r = self.name_hook(e.id)
                if r is not None:
                    return r
            return Rat.atom(e.id)
        if isinstance(e, ast.UnaryOp):
            v = self.tr(e.operand)
            if isinstance(e.op, ast.USub):
                return -v
            if isinstance(e.op, ast.UAdd):
                return v
            raise AlgebraError('unary operator %s' % type(e.op).__name__)
        if isinstance(e, ast.BinOp):
            if isinstance(e.op, ast.Pow):
                base = self.tr(e.left)
                k = self.tr(e.right)
                if k.is_const():
                    return base ** k.const_value()
                return Rat.atom('pow(%s,%s)' % (base.canon(), k.canon()))
            l, r = self.tr(e.left), self.tr(e.right)
            if isinstance(e.op, ast.Add):
                return l + r
            if isinstance(e.op, ast.Sub):
                return l - r
            if isinstance(e.op, ast.Mult):
                return l * r
            if isinstance(e.op, (ast.Div,)):
                return l / r
            raise AlgebraError('binary operator %s' % type(e.op).__name__)
        if isinstance(e, ast.Call):
            return self.call(e)
        if isinstance(e, ast.Subscript):
            if self.index_hook:
                r = self.index_hook(self, e)
                if r is not None:
                    return r
            base = self._basename(e.value)
            return Rat.atom('%s[%s]' % (base, self.index_text(e.slice)))
        if isinstance(e, ast.Attribute):
            if self.attr_hook:
                r = self.attr_hook(self, e)
                if r is not None:
                    return r
            return Rat.atom(self._basename(e))
        if isinstance(e, ast.IfExp):
            raise AlgebraError('conditional expression')
        raise AlgebraError('unsupported expression %s' % type(e).__name__)

    def _basename(self, e):
        if isinstance(e, ast.Name):
            return e.id
        if isinstance(e, ast.Attribute):
            return self._basename(e.value) + '.' + e.attr
        if isinstance(e, ast.Subscript):
            return '%s[%s]' % (self._basename(e.value), self.index_text(e.slice))
        return ast.unparse(e)

    def index_text(self, s):
        if isinstance(s, ast.Tuple):
            return ','.join(self.index_text(x) for x in s.elts)
        if isinstance(s, ast.Slice):
            return '%s:%s:%s' % tuple(('' if x is None else self.tr(x).canon()) for x in (s.lower, s.upper, s.step))
        try:
            return self.tr(s).canon()
        except AlgebraError:
            return ast.unparse(s)

    def call(self, e):
        fn = _dotted(e.func)
        kind = FUNC_ALIASES.get(fn)
        if self.call_hook:
            r = self.call_hook(self, e, fn)
            if r is not None:
                return r
        if kind == 'exp' and len(e.args) == 1:
            return exp_of(self.tr(e.args[0]))
        if kind == 'log' and len(e.args) == 1:
            return log_of(self.tr(e.args[0]))
        if kind == 'sqrt' and len(e.args) == 1:
            return self.tr(e.args[0]) ** Fraction(1, 2)
        if kind == 'pow' and len(e.args) == 2:
            k = self.tr(e.args[1])
            b = self.tr(e.args[0])
            if k.is_const():
                return b ** k.const_value()
            return Rat.atom('pow(%s,%s)' % (b.canon(), k.canon()))
        if kind == 'id' and len(e.args) >= 1:
            return self.tr(e.args[0])
        name = fn or ast.unparse(e.func)
        name = name.split('.')[-1] if name else name
        args = []
        for a in e.args:
            try:
                args.append(self.tr(a).canon())
            except AlgebraError:
                args.append(ast.unparse(a))
        for k in e.keywords:
            try:
                args.append('%s=%s' % (k.arg, self.tr(k.value).canon()))
            except AlgebraError:
                args.append('%s=%s' % (k.arg, ast.unparse(k.value)))
        return Rat.atom('%s(%s)' % (name, ','.join(args)))


def _dotted(e):
    if isinstance(e, ast.Name):
        return e.id
    if isinstance(e, ast.Attribute):
        b = _dotted(e.value)
        return (b + '.' + e.attr) if b else None
    return None


def parse_expr(text, env=None, **kw):
    return Translator(env, **kw).tr(ast.parse(text, mode='eval').body)


# ---------------------------------------------------------------------------
# derivative with respect to a named variable
# ---------------------------------------------------------------------------

def _atom_derivative(atom, var):
    """d(atom)/d(var) as Rat, for exp(<monomial>) atoms and plain names; None if var does not occur;
    raises AlgebraError for opaque atoms that mention var."""
    if atom == var:
        return Rat.const(1)
    if atom.startswith('exp(') and atom.endswith(')'):
        inner = atom[4:-1]
        p = _parse_canon_monomial(inner)
        dp = diff(Rat(p), var)
        if dp.is_zero():
            return None
        return dp * Rat.atom(atom)
    import re
    if re.search(r'(?<![A-Za-z0-9_])%s(?![A-Za-z0-9_])' % re.escape(var), atom):
        raise AlgebraError('cannot differentiate opaque atom %s with respect to %s' % (atom, var))
    return None


def _parse_canon_monomial(text):
    """inverse of Poly.canon() for a single monic monomial such as `gamma*x^2`"""
    mono = []
    if text in ('1', ''):
        return Poly.const(1)
    for f in text.split('*'):
        if '^' in f:
            k, e = f.rsplit('^', 1)
            mono.append((k, Fraction(e)))
        else:
            mono.append((f, Fraction(1)))
    return Poly({tuple(sorted(mono)): Fraction(1)})


def diff_poly(p, var):
    res = Rat.const(0)
    for m, c in p.t.items():
        for i, (k, e) in enumerate(m):
            da = _atom_derivative(k, var)
            if da is None:
                continue
            rest = tuple(x for j, x in enumerate(m) if j != i)
            # d(k^e) = e k^(e-1) dk
            lower = ((k, e - 1),) if e != 1 else ()
            term = Rat(Poly({_mono_mul(rest, lower): c * e})) * da
            res = res + term
    return res


def diff(r, var):
    """quotient rule"""
    den = r.den_poly()
    dn, dd = diff_poly(r.n, var), diff_poly(den, var)
    if dd.is_zero():
        return dn / Rat(den)
    return (dn * Rat(den) - Rat(r.n) * dd) / (Rat(den) * Rat(den))


def eval_exact(r, values):
    """exact evaluation of a Rat at rational values of its atoms (integer exponents only) -- used as an
    independent identity test (Schwartz-Zippel) of the normaliser in the thorough tier"""
    def ev(p):
        tot = Fraction(0)
        for m, c in p.t.items():
            term = c
            for k, e in m:
                if e.denominator != 1:
                    raise AlgebraError('fractional exponent in exact evaluation')
                term *= values[k] ** int(e)
            tot += term
        return tot
    den = Fraction(1)
    for f, k in r.d.items():
        den *= ev(f) ** k
    return ev(r.n) / den


def random_identity_test(a, b, trials=5, seed=12345):
    """True when a and b agree at `trials` random rational points (exact arithmetic); None if not evaluable"""
    import random
    rnd = random.Random(seed)
    atoms = sorted(a.atoms() | b.atoms())
    done = 0
    for _ in range(trials * 4):
        vals = {k: Fraction(rnd.randint(1, 10 ** 6), rnd.randint(1, 10 ** 3)) for k in atoms}
        try:
            va, vb = eval_exact(a, vals), eval_exact(b, vals)
        except ZeroDivisionError:
            continue
        except AlgebraError:
            return None
        if va != vb:
            return False
        done += 1
        if done >= trials:
            return True
    return None


def to_sympy(r):
    """independent normaliser for the thorough tier"""
    import sympy
    syms = {}

    def sym(a):
        if a not in syms:
            syms[a] = sympy.Symbol('a%d' % len(syms), positive=True)
        return syms[a]

    def poly(p):
        tot = sympy.Integer(0)
        for m, c in p.t.items():
            term = sympy.Rational(c.numerator, c.denominator)
            for k, e in m:
                term *= sym(k) ** sympy.Rational(e.numerator, e.denominator)
            tot += term
        return tot
    return poly(r.n) / poly(r.den_poly()), syms
