"""Helpers that turn branch-free Python code into algebra (E-ALG front end) and small def-use utilities."""
import ast
from .algebra import Translator, Rat, AlgebraError
from .srcmodel import func_params, own_nodes


def is_docstring(st):
    return isinstance(st, ast.Expr) and isinstance(st.value, ast.Constant) and isinstance(st.value.value, str)


def straightline(fn_or_body, env=None, translator_kw=None, stop_at_return=True, allow=()):
    """symbolically execute a branch-free statement list; returns (env, return Rat or None).
    Tuple-unpacking `a, b = p` of an unknown name p yields atoms p[0], p[1]."""
    body = fn_or_body.body if isinstance(fn_or_body, (ast.FunctionDef, ast.Lambda)) else fn_or_body
    if isinstance(fn_or_body, ast.Lambda):
        tr = Translator(env, **(translator_kw or {}))
        return tr.env, tr.tr(body)
    tr = Translator(env, **(translator_kw or {}))
    ret = None
    for st in body:
        if is_docstring(st) or isinstance(st, (ast.Pass, ast.Import, ast.ImportFrom, ast.Global)):
            continue
        if isinstance(st, ast.Assign):
            if len(st.targets) == 1 and isinstance(st.targets[0], ast.Name):
                tr.env[st.targets[0].id] = tr.tr(st.value)
                continue
            if len(st.targets) == 1 and isinstance(st.targets[0], (ast.Tuple, ast.List)):
                tg = st.targets[0]
                if isinstance(st.value, (ast.Tuple, ast.List)) and len(st.value.elts) == len(tg.elts):
                    vals = [tr.tr(v) for v in st.value.elts]
                    for t, v in zip(tg.elts, vals):
                        if not isinstance(t, ast.Name):
                            raise AlgebraError('unsupported unpack target')
                        tr.env[t.id] = v
                    continue
                if isinstance(st.value, ast.Name):
                    for i, t in enumerate(tg.elts):
                        if not isinstance(t, ast.Name):
                            raise AlgebraError('unsupported unpack target')
                        tr.env[t.id] = Rat.atom('%s[%d]' % (st.value.id, i))
                    continue
            raise AlgebraError('unsupported assignment %s' % ast.unparse(st)[:60])
        if isinstance(st, ast.AugAssign) and isinstance(st.target, ast.Name):
            cur = tr.tr(ast.Name(id=st.target.id, ctx=ast.Load()))
            v = tr.tr(st.value)
            if isinstance(st.op, ast.Add):
                tr.env[st.target.id] = cur + v
            elif isinstance(st.op, ast.Sub):
                tr.env[st.target.id] = cur - v
            elif isinstance(st.op, ast.Mult):
                tr.env[st.target.id] = cur * v
            elif isinstance(st.op, ast.Div):
                tr.env[st.target.id] = cur / v
            else:
                raise AlgebraError('unsupported augmented assignment')
            continue
        if isinstance(st, ast.Return):
            ret = tr.tr(st.value) if st.value is not None else None
            if stop_at_return:
                break
            continue
        if isinstance(st, allow):
            continue
        raise AlgebraError('not branch-free: %s at line %d' % (type(st).__name__, st.lineno))
    return tr.env, ret


def single_assignments(fn):
    """name -> value node for locals assigned exactly once by a plain `name = expr` (and never augmented,
    deleted, or bound by a loop / with / unpacking)"""
    counts, vals = {}, {}
    for n in own_nodes(fn):
        if isinstance(n, ast.Assign):
            for t in n.targets:
                for x in ast.walk(t):
                    if isinstance(x, ast.Name) and isinstance(x.ctx, ast.Store):
                        counts[x.id] = counts.get(x.id, 0) + 1
                if isinstance(t, ast.Name) and len(n.targets) == 1:
                    vals[t.id] = n.value
        elif isinstance(n, (ast.AugAssign, ast.AnnAssign)):
            if isinstance(n.target, ast.Name):      # x[i] += v rebinds nothing
                counts[n.target.id] = counts.get(n.target.id, 0) + 2
        elif isinstance(n, (ast.For, ast.comprehension)):
            for x in ast.walk(n.target):
                if isinstance(x, ast.Name):
                    counts[x.id] = counts.get(x.id, 0) + 2
        elif isinstance(n, ast.Name) and isinstance(n.ctx, (ast.Store, ast.Del)):
            pass
    for p in func_params(fn):
        counts[p] = counts.get(p, 0) + 1
    return {k: v for k, v in vals.items() if counts.get(k) == 1}


def inline(expr, singles, depth=6):
    """substitute single-assignment temporaries into expr (returns a new AST)"""
    from .srcmodel import clone

    class T(ast.NodeTransformer):
        def visit_Name(self, n):
            if isinstance(n.ctx, ast.Load) and n.id in singles and depth > 0:
                return inline(singles[n.id], singles, depth - 1)
            return n
    return T().visit(clone(expr))


def assignments_to(fn, name):
    """all (stmt, value) that bind `name` by plain assignment inside fn's own scope"""
    out = []
    for n in own_nodes(fn):
        if isinstance(n, ast.Assign):
            for t in n.targets:
                if isinstance(t, ast.Name) and t.id == name:
                    out.append((n, n.value))
    return out


def find_calls(fn, pred):
    return [n for n in own_nodes(fn) if isinstance(n, ast.Call) and pred(n)]


def names_in(node):
    return {n.id for n in ast.walk(node) if isinstance(n, ast.Name)}


def loop_fills(fn):
    """summaries of loops that fill arrays row by row:  for v in range(..): [t = E(v) ...] A[v] = F(v, t ...)
    returns {array name: [(start text, stop text, value text)]} with the loop variable renamed to _i, loop-local temporaries
    resolved sequentially (a temporary may be re-bound between two stores) and single-assignment locals of the function inlined"""
    from .srcmodel import clone
    singles = single_assignments(fn)
    out = {}
    for lp in own_nodes(fn):
        if not (isinstance(lp, ast.For) and isinstance(lp.target, ast.Name) and isinstance(lp.iter, ast.Call) and isinstance(lp.iter.func, ast.Name)
                and lp.iter.func.id == 'range' and 1 <= len(lp.iter.args) <= 2 and not lp.orelse):
            continue
        v = lp.target.id
        rng = [ast.unparse(inline(a, singles)) for a in lp.iter.args]
        start, stop = ('0', rng[0]) if len(rng) == 1 else rng
        env = {}

        def res(e):
            class T(ast.NodeTransformer):
                def visit_Name(self, n):
                    if isinstance(n.ctx, ast.Load):
                        if n.id in env:
                            return clone(env[n.id])
                        if n.id == v:
                            return ast.Name(id='_i', ctx=ast.Load())
                        if n.id in singles and not _bound_in(lp, n.id):
                            return res(singles[n.id])
                    return n
            return T().visit(clone(e))
        ok = True
        stores = []
        for st in lp.body:
            if isinstance(st, ast.Assign) and len(st.targets) == 1 and isinstance(st.targets[0], ast.Name):
                env[st.targets[0].id] = res(st.value)
            elif isinstance(st, ast.Assign) and len(st.targets) == 1 and isinstance(st.targets[0], ast.Subscript) and isinstance(st.targets[0].value, ast.Name) \
                    and isinstance(st.targets[0].slice, ast.Name) and st.targets[0].slice.id == v:
                stores.append((st.targets[0].value.id, ast.unparse(res(st.value))))
            else:
                ok = False
                break
        if ok:
            for a, val in stores:
                out.setdefault(a, []).append((start, stop, val))
    return out


def _bound_in(node, name):
    return any(isinstance(n, ast.Name) and n.id == name and isinstance(n.ctx, (ast.Store, ast.Del)) for n in ast.walk(node))


def two_way_return(stmts):
    """(test text, value text when true, value text when false) of a function tail written as `if c: return A else: return B`, or as
    `if c: return A` followed by `return B`; a leading `not` is removed by exchanging the values; None when the tail has neither form"""
    if not stmts:
        return None
    last = stmts[-1]
    if isinstance(last, ast.If) and len(last.body) == 1 and len(last.orelse) == 1 and isinstance(last.body[0], ast.Return) and isinstance(last.orelse[0], ast.Return):
        t, a, b = last.test, last.body[0].value, last.orelse[0].value
    elif len(stmts) >= 2 and isinstance(last, ast.Return) and isinstance(stmts[-2], ast.If) and not stmts[-2].orelse and len(stmts[-2].body) == 1 and isinstance(stmts[-2].body[0], ast.Return):
        t, a, b = stmts[-2].test, stmts[-2].body[0].value, last.value
    else:
        return None
    if isinstance(t, ast.UnaryOp) and isinstance(t.op, ast.Not):
        t, a, b = t.operand, b, a
    return ast.unparse(t), (ast.unparse(a) if a is not None else None), (ast.unparse(b) if b is not None else None)
