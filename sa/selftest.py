"""Sensitivity sweep of a check (thorough tier): the same static check is run on scratch copies of /repo's sources in which one
construct has been changed, and must report a violation.  Three catalogues:

  seeds    /verif/seeded/<Pxx_*>/patch.diff   changes written by independent agents against this property (must be reported)
  curated  /verif/selftest/<Pxx>.json         one-line edits I confirmed by hand as property-breaking (must be reported)
  auto     generated here from the AST of the functions the check analysed: operator swaps, constants, adjacent-argument
           swaps, index shifts, negated conditions, dropped .copy() -- informational (equivalent mutants exist); the
           fraction reported is recorded in the evidence, it is not a verdict.

Nothing is executed but the static check itself; the copies live in a temporary directory that is removed afterwards."""
import ast, os, sys, json, shutil, subprocess, tempfile, random, re
from concurrent.futures import ThreadPoolExecutor
from .report import VERIF, REPO

SRC_EXT = ('.py', '.c', '.h', '.pyx', '.pxd', '.cu')


def make_copy(tmp, n):
    dst = os.path.join(tmp, 'copy%d' % n)
    src = os.path.join(REPO, 'dadi')

    def ignore(d, names):
        return [x for x in names if x == '__pycache__' or (os.path.isfile(os.path.join(d, x)) and not x.endswith(SRC_EXT))]
    shutil.copytree(src, os.path.join(dst, 'dadi'), ignore=ignore)
    return dst


def run_check(pid, root, evdir):
    env = dict(os.environ, VERIF_REPO=root, VERIF_EVIDENCE_DIR=evdir, VERIF_TIER='quick', VERIF_NO_SELFTEST='1')
    p = subprocess.run([sys.executable, os.path.join(VERIF, 'check.py'), pid, '--tier', 'quick'], capture_output=True, text=True, env=env, timeout=900)
    failed = [l.strip()[7:] for l in p.stdout.splitlines() if l.startswith('  FAILED')]
    return p.returncode, failed


# ---- automatic mutants ---------------------------------------------------------------------------------------------------
def _offsets(src):
    offs = [0]
    for line in src.splitlines(keepends=True):
        offs.append(offs[-1] + len(line))
    return offs


def _span(offs, src_bytes_lines, node):
    # ast columns are utf-8 byte offsets; convert through the encoded line
    def pos(line, col):
        raw = src_bytes_lines[line - 1][:col]
        return offs[line - 1] + len(raw.decode('utf-8', 'replace'))
    return pos(node.lineno, node.col_offset), pos(node.end_lineno, node.end_col_offset)


def auto_mutants(rel, qualnames):
    """list of (rel, start, end, new_text, description) for the named functions of one file"""
    path = os.path.join(REPO, rel)
    try:
        src = open(path, encoding='utf-8').read()
        tree = ast.parse(src)
    except (OSError, SyntaxError, UnicodeDecodeError):
        return []
    offs = _offsets(src)
    blines = [l.encode('utf-8') for l in src.splitlines(keepends=True)]
    out = []

    def walk_defs(node, prefix):
        for ch in ast.iter_child_nodes(node):
            if isinstance(ch, (ast.FunctionDef, ast.ClassDef)):
                q = prefix + ch.name
                if isinstance(ch, ast.FunctionDef) and (q in qualnames or any(x == q or x.startswith(q + '.') for x in qualnames)):
                    mutate_fn(ch, q)
                walk_defs(ch, q + '.')

    def add(node, new, desc, q):
        a, b = _span(offs, blines, node)
        out.append((rel, a, b, new, '%s:%s line %d: %s' % (rel, q, node.lineno, desc)))

    def seg(node):
        a, b = _span(offs, blines, node)
        return src[a:b]

    def mutate_fn(fn, q):
        doc = fn.body[0] if fn.body and isinstance(fn.body[0], ast.Expr) and isinstance(fn.body[0].value, ast.Constant) else None
        for n in ast.walk(fn):
            if doc is not None and n is doc.value:
                continue
            if isinstance(n, ast.BinOp) and isinstance(n.op, (ast.Add, ast.Sub)) and not isinstance(n.left, ast.Constant) or \
                    isinstance(n, ast.BinOp) and isinstance(n.op, (ast.Mult, ast.Div)) and isinstance(n.right, (ast.Name, ast.Attribute, ast.Subscript, ast.Call)):
                la, lb = _span(offs, blines, n.left)
                ra, rb = _span(offs, blines, n.right)
                mid = src[lb:ra]
                sym = {ast.Add: '+', ast.Sub: '-', ast.Mult: '*', ast.Div: '/'}[type(n.op)]
                new = {'+': '-', '-': '+', '*': '/', '/': '*'}[sym]
                if mid.count(sym) == 1 and '#' not in mid and '**' not in mid and '//' not in mid:
                    a = lb + mid.index(sym)
                    out.append((rel, a, a + 1, new, '%s:%s line %d: operator %s -> %s in `%s`' % (rel, q, n.lineno, sym, new, seg(n)[:50].replace('\n', ' '))))
            elif isinstance(n, ast.Constant) and isinstance(n.value, (int, float)) and not isinstance(n.value, bool) and n.value not in (0,):
                t = seg(n)
                if re.fullmatch(r'[0-9.eE+-]+', t):
                    new = repr(n.value + 1) if isinstance(n.value, int) else repr(n.value * 2)
                    add(n, new, 'constant %s -> %s' % (t, new), q)
            elif isinstance(n, ast.Call) and len(n.args) >= 2 and not any(isinstance(a_, ast.Starred) for a_ in n.args):
                a0, a1 = n.args[0], n.args[1]
                s0, s1 = seg(a0), seg(a1)
                if s0 != s1:
                    x0, y0 = _span(offs, blines, a0)
                    x1, y1 = _span(offs, blines, a1)
                    out.append((rel, x0, y1, s1 + src[y0:x1] + s0, '%s:%s line %d: first two arguments of %s swapped' % (rel, q, n.lineno, seg(n.func)[:40])))
            elif isinstance(n, ast.If) and not isinstance(n.test, ast.Constant):
                t = seg(n.test)
                add(n.test, 'not (%s)' % t, 'condition `%s` negated' % t[:50].replace('\n', ' '), q)
            if isinstance(n, ast.Call) and isinstance(n.func, ast.Attribute) and n.func.attr == 'copy' and not n.args:
                add(n, seg(n.func.value), '.copy() dropped from `%s`' % seg(n)[:40], q)
            if isinstance(n, ast.Subscript) and isinstance(n.slice, ast.Constant) and isinstance(n.slice.value, int) and not isinstance(n.slice.value, bool):
                add(n.slice, repr(n.slice.value + 1), 'index %d -> %d in `%s`' % (n.slice.value, n.slice.value + 1, seg(n)[:40]), q)
    walk_defs(tree, '')
    return out


def apply_span(root, rel, a, b, new):
    p = os.path.join(root, rel)
    src = open(p, encoding='utf-8').read()
    open(p, 'w', encoding='utf-8').write(src[:a] + new + src[b:])
    return src


def compiles(root, rel):
    if not rel.endswith('.py'):
        return True
    try:
        ast.parse(open(os.path.join(root, rel), encoding='utf-8').read())
        return True
    except SyntaxError:
        return False


# ---- driver ----------------------------------------------------------------------------------------------------------------
def sweep(pid, analysed_functions, seed=0, max_auto=48, jobs=None):
    """returns a dict for the evidence file"""
    max_auto = int(os.environ.get('VERIF_SWEEP_MAX', max_auto))
    keep_examples = int(os.environ.get('VERIF_SWEEP_EXAMPLES', 12))
    jobs = jobs or min(16, (os.cpu_count() or 4))
    tmp = tempfile.mkdtemp(prefix='verif_selftest_%s_' % pid)
    res = {'seeds': {'run': 0, 'reported': 0, 'missed': []}, 'curated': {'run': 0, 'reported': 0, 'missed': [], 'not_applicable': 0},
           'auto': {'generated': 0, 'run': 0, 'reported': 0, 'unreported_examples': []}}
    try:
        tasks = []
        # seeds of this property
        sd = os.path.join(VERIF, 'seeded')
        if os.path.isdir(sd):
            for name in sorted(os.listdir(sd)):
                if name.startswith(pid + '_') and os.path.isfile(os.path.join(sd, name, 'patch.diff')):
                    tasks.append(('seed', name, os.path.join(sd, name, 'patch.diff')))
        # curated one-line edits
        cf = os.path.join(VERIF, 'selftest', pid + '.json')
        if os.path.isfile(cf):
            for i, ed in enumerate(json.load(open(cf)).get('edits', [])):
                tasks.append(('curated', ed.get('name', 'edit%d' % i), ed))
        # automatic mutants inside the analysed functions
        by_file = {}
        for f in analysed_functions:
            if ':' in f:
                rel, q = f.split(':', 1)
                if rel.endswith('.py'):
                    by_file.setdefault(rel, set()).add(q)
        auto = []
        for rel, qs in sorted(by_file.items()):
            auto.extend(auto_mutants(rel, qs))
        res['auto']['generated'] = len(auto)
        rnd = random.Random(seed * 7919 + 17)
        rnd.shuffle(auto)
        for m in auto[:max_auto]:
            tasks.append(('auto', m[4], m))
        copies = [make_copy(tmp, i) for i in range(min(jobs, max(1, len(tasks))))]
        free = list(copies)

        def work(task):
            kind, name, payload = task
            root = free.pop()
            evd = os.path.join(tmp, 'ev_%d' % copies.index(root))
            saved = {}
            try:
                if kind == 'seed':
                    # outside a repository `git apply` behaves like patch -p1 in the current directory
                    p = subprocess.run(['git', 'apply', payload], capture_output=True, text=True, cwd=root)
                    if p.returncode != 0:
                        return kind, name, 'not_applicable', []
                    rc, failed = run_check(pid, root, evd)
                    subprocess.run(['git', 'apply', '-R', payload], capture_output=True, text=True, cwd=root)
                    return kind, name, rc, failed
                if kind == 'curated':
                    rel, old, new = payload['file'], payload['old'], payload['new']
                    p = os.path.join(root, rel)
                    src = open(p, encoding='utf-8').read()
                    if src.count(old) != 1:
                        return kind, name, 'not_applicable', []
                    saved[p] = src
                    open(p, 'w', encoding='utf-8').write(src.replace(old, new))
                else:
                    rel, a, b, new, desc = payload
                    saved[os.path.join(root, rel)] = apply_span(root, rel, a, b, new)
                    if not compiles(root, rel):
                        return kind, name, 'not_applicable', []
                rc, failed = run_check(pid, root, evd)
                return kind, name, rc, failed
            except Exception as e:   # infrastructure problem: never a verdict
                return kind, name, 'error:%s' % type(e).__name__, []
            finally:
                for p_, s_ in saved.items():
                    open(p_, 'w', encoding='utf-8').write(s_)
                free.append(root)
        with ThreadPoolExecutor(len(copies)) as ex:
            for kind, name, rc, failed in ex.map(work, tasks):
                key = {'seed': 'seeds', 'curated': 'curated', 'auto': 'auto'}[kind]
                if rc == 'not_applicable' or (isinstance(rc, str) and rc.startswith('error')):
                    if key == 'curated':
                        res['curated']['not_applicable'] += 1
                    continue
                res[key]['run'] += 1
                if rc == 1:
                    res[key]['reported'] += 1
                elif key == 'auto':
                    if len(res['auto']['unreported_examples']) < keep_examples:
                        res['auto']['unreported_examples'].append(name + (' [analysis-error]' if rc == 2 else ''))
                else:
                    res[key]['missed'].append(name + (' [analysis-error]' if rc == 2 else ''))
    finally:
        shutil.rmtree(tmp, ignore_errors=True)
    return res
