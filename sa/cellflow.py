"""Final cell values of one-dimensional C kernels (guarded store dataflow).

A function of the shared C library sweeps arrays with loops `for (ii = lo; ii < N+k; ii++)` and stores into `X[ii+d]` or into
fixed cells (`X[0]`, `X[N-1]`); some stores sit under tests, after `continue`, or after an early `return`.  The order and grouping
of those stores is free (initialisation loop or initialisation fused into the sweep, a default followed by an overwrite or an
if/else): what the caller sees is the content of every cell when the function returns.  This module computes that content.

Every store is recorded with the conjunction of test outcomes under which it executes (its guard), its loop, the offset of the
written cell from the loop variable and its position in the body.  The content of a cell of class c (the k-th cell from the low
end, the k-th from the high end, or a generic interior cell) is the fold of the stores that reach it, in execution order: stores of
earlier top-level statements first, within one loop the earlier iteration first (larger offset), within one iteration the earlier
statement.  `=` replaces, `+=` / `-=` / `*=` / `/=` combine.  All array reads are written relative to the cell (`A@d`), so one
reference expression serves every class.  Guards are evaluated under every truth assignment of their atomic tests.

Not modelled (AlgebraError -> the caller reports 'not recognised'): nested loops, `break`, `return` inside a loop, scalars carried
from one iteration to the next, reads of an array the function also writes (other than the compound-assignment forms), calls as
statements, pointer arithmetic, loop bounds that are not const / N+const.  Cells are classified for N large enough that the low and
the high classes do not overlap."""
import ast
import re
import itertools
from fractions import Fraction
from .algebra import Rat, Poly, Translator, AlgebraError
from .cfront import CFor, CAssign, CDecl, CIf, CExpr, CReturn, CJump, unparse
from .stencil import _c_index

_AT = re.compile(r'([A-Za-z_][\w.]*)@(-?\d+)')
_ABS = re.compile(r'([A-Za-z_][\w.]*)\[(N[+-]\d+|\d+)\]')


def rename_atoms(r, fn):
    """apply fn to every atom name of a Rat (function atoms included: fn sees the whole name)"""
    def poly(p):
        out = {}
        for m, c in p.t.items():
            m2 = tuple(sorted((fn(k), e) for k, e in m))
            out[m2] = out.get(m2, 0) + c
        return Poly(out)
    res = Rat(poly(r.n))
    for f, k in r.d.items():
        res = res / (Rat(poly(f)) ** k)
    return res


def shift_text(name, delta):
    return _AT.sub(lambda m: '%s@%d' % (m.group(1), int(m.group(2)) + delta), name)


def shift(r, delta):
    return r if delta == 0 else rename_atoms(r, lambda n: shift_text(n, delta))


def abs_to_rel_text(name, cls):
    """fixed reads A[k] / A[N-m] as reads relative to the cell of class cls = ('lo', c) | ('hi', c); unchanged for the generic class"""
    def sub(m):
        a, idx = m.group(1), m.group(2)
        if cls[0] == 'lo' and idx.isdigit():
            return '%s@%d' % (a, int(idx) - cls[1])
        if cls[0] == 'hi' and idx.startswith('N'):
            return '%s@%d' % (a, int(idx[1:]) - (-1 - cls[1]))
        return m.group(0)
    return _ABS.sub(sub, name)


class Store:
    def __init__(self, array, kind, where, lo, hi, op, expr, lits, order, line):
        # kind 'rel': cell = loop variable + where, loop variable in [lo, N+hi);  kind 'abs': cell text where ('0', 'N-1', ...)
        self.array, self.kind, self.where, self.lo, self.hi, self.op, self.expr, self.lits, self.order, self.line = array, kind, where, lo, hi, op, expr, lits, order, line

    def __repr__(self):
        g = ' if ' + ' and '.join(('' if v else 'not ') + k for k, v in self.lits) if self.lits else ''
        if self.kind == 'abs':
            return '%s[%s] %s %s%s' % (self.array, self.where, self.op, self.expr.canon(), g)
        return '%s[i%+d] %s %s for i in [%d, N%+d)%s' % (self.array, self.where, self.op, self.expr.canon(), self.lo, self.hi, g)


# ---- tests ---------------------------------------------------------------------------------------------------

def key_of(kind, r):
    """canonical name of the atomic test `r == 0` ('eq') / `r < 0` ('lt') / `r != 0 as a truth value` ('nz'); eq and nz are
    insensitive to the sign of r"""
    if kind in ('eq', 'nz'):
        a, b = r.canon(), (-r).canon()
        return '%s:%s' % (kind, min(a, b))
    return '%s:%s' % (kind, r.canon())


def formula(e, tr):
    """test expression -> nested ('and'|'or', [..]) / ('not', f) / ('atom', key)"""
    if isinstance(e, ast.BoolOp):
        return ('and' if isinstance(e.op, ast.And) else 'or', [formula(v, tr) for v in e.values])
    if isinstance(e, ast.UnaryOp) and isinstance(e.op, ast.Not):
        return ('not', formula(e.operand, tr))
    if isinstance(e, ast.Compare) and len(e.ops) == 1:
        l, r = tr.tr(e.left), tr.tr(e.comparators[0])
        op = e.ops[0]
        if isinstance(op, ast.Eq):
            return ('atom', key_of('eq', l - r))
        if isinstance(op, ast.NotEq):
            return ('not', ('atom', key_of('eq', l - r)))
        if isinstance(op, ast.Lt):
            return ('atom', key_of('lt', l - r))
        if isinstance(op, ast.Gt):
            return ('atom', key_of('lt', r - l))
        if isinstance(op, ast.GtE):
            return ('not', ('atom', key_of('lt', l - r)))
        if isinstance(op, ast.LtE):
            return ('not', ('atom', key_of('lt', r - l)))
        raise AlgebraError('comparison %s' % unparse(e))
    return ('atom', key_of('nz', tr.tr(e)))


def decide(f, lits):
    """all ways of giving f a truth value, deciding atoms left to right with short-circuit: yields (truth, lits)"""
    kind = f[0]
    if kind == 'atom':
        d = dict(lits)
        if f[1] in d:
            yield d[f[1]], lits
        else:
            yield True, lits + ((f[1], True),)
            yield False, lits + ((f[1], False),)
    elif kind == 'not':
        for t, l2 in decide(f[1], lits):
            yield (not t), l2
    else:
        stop = (kind == 'or')

        def rec(i, l):
            if i == len(f[1]):
                yield (not stop), l
                return
            for t, l2 in decide(f[1][i], l):
                if t == stop:
                    yield stop, l2
                else:
                    yield from rec(i + 1, l2)
        yield from rec(0, lits)


# ---- the walk ------------------------------------------------------------------------------------------------------

class _Dead:
    """a loop-body scalar after its loop"""


class Flow:
    def __init__(self, func, extent='N', inputs=None):
        self.func, self.extent = func, extent
        self.stores = []
        self.written = set()
        self.loops = 0
        self._ids = {}
        n = 0
        for s in func.walk():
            self._ids[id(s)] = n
            n += 1
        env = dict(inputs or {})
        self.paths = 0
        for _ in self.block(func.body, env, (), None, 0):
            self.paths += 1

    # a block: generator of (env, lits, status) per path; status 'fall' | 'continue' | 'return'
    def block(self, stmts, env, lits, loop, top):
        if not stmts:
            yield env, lits, 'fall'
            return
        st, rest = stmts[0], stmts[1:]
        for env2, lits2, status in self.stmt(st, env, lits, loop, top):
            if status == 'fall':
                yield from self.block(rest, env2, lits2, loop, top + (1 if loop is None else 0))
            else:
                yield env2, lits2, status

    def translator(self, env, loop):
        lv = loop[0] if loop else None
        ext = self.extent
        written = self.written

        def index_hook(tr, e):
            base = tr._basename(e.value)
            kind, v = _c_index(e.slice, lv, ext)
            if base in written:
                raise AlgebraError('reads %s, which the function also writes' % unparse(e))
            if kind == 'rel':
                return Rat.atom('%s@%d' % (base, v))
            return Rat.atom('%s[%s]' % (base, v))
        def name_hook(n):
            if env.get(n) is _Dead:
                raise AlgebraError('scalar %s of a loop body read after the loop' % n)
            return None
        return Translator({k: v for k, v in env.items() if v is not _Dead}, index_hook=index_hook, name_hook=name_hook)

    def stmt(self, st, env, lits, loop, top):
        if isinstance(st, CDecl):
            if st.array or st.pointer:
                raise AlgebraError('local array or pointer %s' % st.name)
            if st.init is not None:
                env = dict(env)
                env[st.name] = self.translator(env, loop).tr(st.init)
            yield env, lits, 'fall'
        elif isinstance(st, CAssign) and isinstance(st.target, ast.Name):
            tr = self.translator(env, loop)
            nm = st.target.id
            v = tr.tr(st.value)
            if st.op != '=':
                if nm not in env or env[nm] is _Dead:
                    raise AlgebraError('compound assignment to scalar %s without a value in this iteration' % nm)
                v = _combine(env[nm], st.op, v)
            env = dict(env)
            env[nm] = v
            yield env, lits, 'fall'
        elif isinstance(st, CAssign) and isinstance(st.target, ast.Subscript):
            tr = self.translator(env, loop)
            base = tr._basename(st.target.value)
            kind, v = _c_index(st.target.slice, loop[0] if loop else None, self.extent)
            op, val = st.op, st.value
            # X[i] = X[i] + e  is  X[i] += e
            if op == '=' and isinstance(val, ast.BinOp) and isinstance(val.op, (ast.Add, ast.Sub)) and unparse(val.left) == unparse(st.target):
                op, val = ('+=' if isinstance(val.op, ast.Add) else '-='), val.right
            elif op == '=' and isinstance(val, ast.BinOp) and isinstance(val.op, ast.Add) and unparse(val.right) == unparse(st.target):
                op, val = '+=', val.left
            expr = tr.tr(val)
            if kind == 'rel':
                self.stores.append(Store(base, 'rel', v, loop[1], loop[2], op, expr, lits, (loop[3], self._ids[id(st)]), st.line))
            else:
                if loop is not None:
                    raise AlgebraError('loop writes the fixed cell %s' % unparse(st.target))
                self.stores.append(Store(base, 'abs', v, None, None, op, expr, lits, (self._ids[id(st)], self._ids[id(st)]), st.line))
            yield env, lits, 'fall'
        elif isinstance(st, CIf):
            f = formula(st.cond, self.translator(env, loop))
            for truth, l2 in decide(f, lits):
                yield from self.block(st.body if truth else st.orelse, env, l2, loop, top)
        elif isinstance(st, CJump):
            if st.kind != 'continue' or loop is None:
                raise AlgebraError('%s (line %d)' % (st.kind, st.line))
            yield env, lits, 'continue'
        elif isinstance(st, CReturn):
            if loop is not None:
                raise AlgebraError('return inside a loop (line %d)' % st.line)
            yield env, lits, 'return'
        elif isinstance(st, CFor):
            if loop is not None:
                raise AlgebraError('nested loop (line %d)' % st.line)
            lv = unparse(st.init.target)
            lo = Translator().tr(st.init.value)
            cond = st.cond
            if not lo.is_const():
                raise AlgebraError('loop lower bound %s is not constant' % unparse(st.init.value))
            if not (isinstance(cond, ast.Compare) and unparse(cond.left) == lv and isinstance(cond.ops[0], (ast.Lt, ast.LtE))):
                raise AlgebraError('unsupported loop condition %s' % unparse(cond))
            hi = Translator(dict((k, v) for k, v in env.items() if v is not _Dead)).tr(cond.comparators[0]) - Rat.atom(self.extent)
            if not hi.is_const():
                raise AlgebraError('loop upper bound %s is not extent+const' % unparse(cond.comparators[0]))
            if not _unit_step(st.step, lv):
                raise AlgebraError('loop step of line %d' % st.line)
            hi = int(hi.const_value()) + (1 if isinstance(cond.ops[0], ast.LtE) else 0)
            lp = (lv, int(lo.const_value()), hi, self._ids[id(st)])
            # the body once, with reads relative to the loop variable; scalars assigned in the body start undefined in every iteration
            assigned = {s.target.id for s in _walk(st.body) if isinstance(s, CAssign) and isinstance(s.target, ast.Name)} | \
                       {s.name for s in _walk(st.body) if isinstance(s, CDecl)}
            for s in _walk(st.body):
                if isinstance(s, CAssign) and isinstance(s.target, ast.Subscript):
                    self.written.add(Translator()._basename(s.target.value))
            benv = {k: v for k, v in env.items() if k not in assigned}
            benv.pop(lv, None)
            # (a scalar of the body that is read before it is assigned would be loop-carried: it is then a free atom named like a
            # scalar the body assigns -- refused below)
            n0 = len(self.stores)
            for _e, _l, status in self.block(st.body, benv, lits, lp, top):
                pass
            for s_ in self.stores[n0:]:
                for a in s_.expr.atoms() | {k.split(':', 1)[1] for k, _ in s_.lits}:
                    for nm in assigned | {lv}:
                        if re.search(r'(?<![\w@.\[])%s(?![\w@\[])' % re.escape(nm), a):
                            raise AlgebraError('scalar %s is used in the loop before it has a value in the iteration (loop-carried)' % nm)
            self.loops += 1
            env = dict(env)
            for nm in assigned | {lv}:
                env[nm] = _Dead
            yield env, lits, 'fall'
        elif isinstance(st, CExpr):
            raise AlgebraError('expression statement (line %d)' % st.line)
        else:
            raise AlgebraError('unsupported statement %s' % type(st).__name__)

    # ---- cell classes and contents --------------------------------------------------------------------------------
    def arrays(self):
        return sorted({s.array for s in self.stores})

    def classes(self, array):
        k = 0
        for s in self.stores:
            if s.array != array:
                continue
            if s.kind == 'rel':
                k = max(k, abs(s.lo + s.where), abs(s.hi + s.where))
            else:
                k = max(k, int(s.where) if s.where.isdigit() else abs(int(s.where[1:])) - 1 if re.fullmatch(r'N[+-]\d+', s.where) else 0)
        return [('lo', c) for c in range(k + 1)] + [('mid', 0)] + [('hi', c) for c in range(k, -1, -1)]

    def hits(self, array, cls):
        out = []
        for s in self.stores:
            if s.array != array:
                continue
            if s.kind == 'abs':
                if (cls[0] == 'lo' and s.where == str(cls[1])) or (cls[0] == 'hi' and s.where == 'N%+d' % (-1 - cls[1])):
                    out.append(((s.order[0], 0, s.order[1]), s, 0))
                elif not (s.where.isdigit() or re.fullmatch(r'N[+-]\d+', s.where)):
                    raise AlgebraError('store to the cell %s[%s]' % (array, s.where))
                continue
            if cls[0] == 'lo' and not s.lo + s.where <= cls[1]:
                continue
            if cls[0] == 'hi' and not s.hi + s.where >= -cls[1]:
                continue
            # iteration that writes the cell: cell - where; earlier iteration first
            out.append(((s.order[0], -s.where, s.order[1]), s, -s.where))
        out.sort(key=lambda h: h[0])
        return out

    def content(self, array, cls):
        """{frozenset of (test, truth)} -> Rat: the content of the cell under every assignment of the tests that guard its stores;
        tests and reads are relative to the cell"""
        hs = self.hits(array, cls)
        prepared = []
        keys = []
        for _, s, d in hs:
            lits = tuple((abs_to_rel_text(shift_text(k, d), cls), v) for k, v in s.lits)
            expr = rename_atoms(shift(s.expr, d), lambda n: abs_to_rel_text(n, cls))
            prepared.append((lits, s.op, expr))
            for k, _ in lits:
                if k not in keys:
                    keys.append(k)
        if len(keys) > 10:
            raise AlgebraError('%d tests guard the stores of %s' % (len(keys), array))
        out = {}
        for vals in itertools.product((True, False), repeat=len(keys)):
            sigma = dict(zip(keys, vals))
            v = Rat.atom('%s.in@0' % array)
            for lits, op, expr in prepared:
                if all(sigma[k] == t for k, t in lits):
                    v = expr if op == '=' else _combine(v, op, expr)
            out[frozenset(sigma.items())] = v
        return out, keys


def _combine(a, op, b):
    if op == '+=':
        return a + b
    if op == '-=':
        return a - b
    if op == '*=':
        return a * b
    if op == '/=':
        return a / b
    raise AlgebraError('assignment operator %s' % op)


def _walk(stmts):
    for s in stmts:
        yield s
        if isinstance(s, CFor):
            yield from _walk(s.body)
        elif isinstance(s, CIf):
            yield from _walk(s.body)
            yield from _walk(s.orelse)


def _unit_step(step, lv):
    if step is None:
        return False
    t = unparse(step) if not isinstance(step, (CAssign, CExpr)) else None
    if isinstance(step, CAssign):
        return unparse(step.target) == lv and ((step.op == '+=' and unparse(step.value) == '1') or (step.op == '=' and unparse(step.value).replace(' ', '') in (lv + '+1', '1+' + lv)))
    if isinstance(step, CExpr):
        t = unparse(step.expr)
    return t is not None and t.replace(' ', '') in (lv + '++', '++' + lv, lv + '+=1')


def compare(flow, array, ref, known_keys=None):
    """contents of every cell class of `array` against ref(cls, sigma) -> Rat (sigma: {test: truth}); returns (ok, details, unknown
    tests).  A cell whose content depends on a test the reference does not know is reported as unknown, not as different."""
    bad, unknown, n = [], [], 0
    for cls in flow.classes(array):
        table, keys = flow.content(array, cls)
        if known_keys is not None:
            unk = [k for k in keys if k not in known_keys]
            if unk:
                unknown.extend(unk)
                continue
        for sigma, v in table.items():
            n += 1
            want = ref(cls, dict(sigma))
            if want is None:
                continue
            if not v.equals(want):
                cond = ', '.join('%s=%s' % (k, t) for k, t in sorted(sigma))
                bad.append('%s cell %s%s: %s, expected %s' % (array, {'lo': '%d' % cls[1], 'hi': 'N-%d' % (cls[1] + 1), 'mid': 'j'}[cls[0]], (' under ' + cond) if cond else '', v.canon()[:90], want.canon()[:90]))
    return not bad and not unknown, bad, unknown, n
