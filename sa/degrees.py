"""E-DEG: abstract interpretation in the lattice of homogeneity degrees (DESIGN.md 1.1, Appendix B).

Value domain: int degree | None (unknown / polymorphic, e.g. the literal 0 or numpy.zeros) | Func(d) (a callable whose
result has degree d, from Misc.ensure_1arg_func or a lambda) .  Transfer: constants 0 (literal zero polymorphic), `*` adds,
`/` subtracts, `**k` multiplies, `+ - < > == min max where` require equal degrees (else a finding), `exp log sin` require
degree 0, `sum diff abs asarray copy` preserve, repository callees are analysed with the caller's argument degrees
(memoised).  Containers take the join of what is stored into them.  The same evaluator runs over the C kernels (their
expressions are Python `ast` nodes)."""
import ast
from .flow import Analysis, Engine
from .srcmodel import func_params, positional_params, dotted, own_nodes, bind_call, param_defaults
from .cfront import CFor, CAssign, CDecl, CIf, CExpr, CReturn, CJump, unparse


class Func:
    def __init__(self, d):
        self.d = d

    def __eq__(self, o):
        return isinstance(o, Func) and self.d == o.d

    def __hash__(self):
        return hash(('F', self.d))

    def __repr__(self):
        return 'Func(%s)' % self.d


class Finding:
    def __init__(self, node, text, where):
        self.node, self.text, self.where = node, text, where


PRESERVE = {'abs', 'fabs', 'sum', 'diff', 'asarray', 'asanyarray', 'array', 'copy', 'float64', 'float', 'mean', 'squeeze', 'ravel', 'transpose', 'maximum_reduce', 'cumsum', 'sqrt_NOT',
            'ascontiguousarray', 'atleast_1d', 'negative', 'fold', 'unfold', 'list', 'tuple', 'sorted', 'reversed'}
DIMLESS_ARG = {'exp', 'log', 'log10', 'sin', 'cos', 'expm1', 'log1p', 'tanh'}
SAME = {'min', 'max', 'minimum', 'maximum', 'where_vals', 'less', 'greater', 'equal', 'less_equal', 'greater_equal', 'isclose', 'allclose'}
ZERO_RESULT = {'len', 'shape', 'ndim', 'arange', 'linspace', 'isscalar', 'isnan', 'isinf', 'any', 'all', 'range', 'enumerate', 'zip', 'isinstance', 'hasattr', 'callable', 'int', 'str', 'comb',
               'logical_and', 'logical_or', 'logical_not', 'default_grid', 'searchsorted', 'argmin', 'argmax', 'index', 'betainc', 'gammaln', 'betaln', 'count'}


class DegEval:
    """expression evaluator shared by the Python and the C analyses"""

    def __init__(self, owner):
        self.o = owner

    def join(self, a, b, node, what):
        if a is None:
            return b
        if b is None:
            return a
        if isinstance(a, Func) or isinstance(b, Func):
            return a if a == b else None
        if a == b:
            return a
        self.o.finding(node, '%s combines a quantity of degree %+d with one of degree %+d' % (what, a, b))
        return None

    def ev(self, e, s):
        o = self.o
        if e is None:
            return None
        if isinstance(e, ast.Constant):
            if isinstance(e.value, bool) or e.value is None or isinstance(e.value, str):
                return None
            return None if e.value == 0 else 0
        if isinstance(e, ast.Name):
            if e.id in s:
                return s[e.id]
            return o.name_degree(e.id)
        if isinstance(e, ast.UnaryOp):
            return self.ev(e.operand, s) if not isinstance(e.op, ast.Not) else None
        if isinstance(e, ast.BinOp):
            l, r = self.ev(e.left, s), self.ev(e.right, s)
            if isinstance(l, Func) or isinstance(r, Func):
                return None
            if isinstance(e.op, ast.Mult):
                if l is None and r is None:
                    return None
                return (l or 0) + (r or 0) if (l is not None or r is not None) and not (l is None and self.is_zero(e.left)) and not (r is None and self.is_zero(e.right)) else None
            if isinstance(e.op, (ast.Div, ast.FloorDiv)):
                if l is None and self.is_zero(e.left):
                    return None
                if l is None and r is None:
                    return None
                return (l or 0) - (r or 0)
            if isinstance(e.op, ast.Pow):
                k = self.const_value(e.right)
                if l is None:
                    return None
                if k is not None:
                    d = l * k
                    return int(d) if d == int(d) else d
                if r not in (None, 0):
                    o.finding(e, 'exponent of degree %+d' % r)
                if l != 0:
                    o.finding(e, 'power with a non-constant exponent applied to a quantity of degree %+d' % l)
                return 0
            if isinstance(e.op, (ast.Add, ast.Sub)):
                return self.join(l, r, e, 'sum `%s`' % self.txt(e))
            if isinstance(e.op, ast.Mod):
                return l
            return None
        if isinstance(e, ast.Compare):
            l = self.ev(e.left, s)
            for c in e.comparators:
                r = self.ev(c, s)
                self.join(l, r, e, 'comparison `%s`' % self.txt(e))
            return None
        if isinstance(e, ast.BoolOp):
            for v in e.values:
                self.ev(v, s)
            return None
        if isinstance(e, ast.IfExp):
            self.ev(e.test, s)
            return self.join(self.ev(e.body, s), self.ev(e.orelse, s), e, 'conditional expression')
        if isinstance(e, ast.Subscript):
            b = self.ev(e.value, s)
            return b
        if isinstance(e, ast.Attribute):
            if e.attr in ('shape', 'ndim', 'size'):
                return None
            if e.attr in ('inf', 'pi', 'nan', 'newaxis'):
                return 0 if e.attr == 'pi' else None
            if e.attr in ('T', 'data', 'real', 'flat'):
                return self.ev(e.value, s)
            d = o.attr_degree(e, s)
            return d
        if isinstance(e, ast.Tuple) and getattr(self.o, 'tuple_values', False) and e.elts and not any(isinstance(x, ast.Starred) for x in e.elts):
            return tuple(self.ev(x, s) for x in e.elts)
        if isinstance(e, (ast.List, ast.Tuple)):
            ds = [self.ev(x.value if isinstance(x, ast.Starred) else x, s) for x in e.elts]
            known = {d for d in ds if d is not None and not isinstance(d, Func)}
            if len(known) == 1:
                return next(iter(known))
            return None     # heterogeneous display: no common degree
        if isinstance(e, (ast.ListComp, ast.GeneratorExp)):
            s2 = dict(s)
            for g in e.generators:
                it = self.ev(g.iter, s2)
                for n in ast.walk(g.target):
                    if isinstance(n, ast.Name):
                        s2[n.id] = it
            return self.ev(e.elt, s2)
        if isinstance(e, ast.Lambda):
            s2 = dict(s)
            for a in e.args.args:
                s2[a.arg] = o.name_degree(a.arg)
            for a, dv in zip(e.args.args[len(e.args.args) - len(e.args.defaults):], e.args.defaults):
                s2[a.arg] = self.ev(dv, s)
            return Func(self.ev(e.body, s2))
        if isinstance(e, ast.Call):
            return self.call(e, s)
        return None

    def txt(self, e):
        try:
            return unparse(e)[:70]
        except Exception:
            return '?'

    def is_zero(self, e):
        return isinstance(e, ast.Constant) and e.value == 0 and not isinstance(e.value, bool)

    def const_value(self, e):
        if isinstance(e, ast.Constant) and isinstance(e.value, (int, float)) and not isinstance(e.value, bool):
            return e.value
        if isinstance(e, ast.UnaryOp) and isinstance(e.op, ast.USub):
            v = self.const_value(e.operand)
            return -v if v is not None else None
        if isinstance(e, ast.BinOp) and isinstance(e.op, ast.Div):
            a, b = self.const_value(e.left), self.const_value(e.right)
            return a / b if a is not None and b else None
        return None

    def call(self, e, s):
        o = self.o
        f = dotted(e.func) or ''
        last = f.split('.')[-1]
        args = [self.ev(a.value if isinstance(a, ast.Starred) else a, s) for a in e.args]
        kws = {k.arg: self.ev(k.value, s) for k in e.keywords}
        # calling a wrapped parameter function  nu_f(t)
        if isinstance(e.func, ast.Name) and isinstance(s.get(e.func.id), Func):
            return s[e.func.id].d
        r = o.special_call(e, f, last, args, kws, s)
        if r is not NotImplemented:
            return r
        if isinstance(e.func, ast.Attribute) and last in ('copy', 'sum', 'ravel', 'transpose', 'reshape', 'squeeze', 'astype', 'max', 'min', 'mean', 'fold', 'filled', 'flatten', 'swapaxes') \
                and not (isinstance(e.func.value, ast.Name) and e.func.value.id in ('numpy', 'np', 'math')) and not (dotted(e.func.value) or '').startswith(('numpy', 'np.')):
            return self.ev(e.func.value, s)
        if last in DIMLESS_ARG:
            if args and args[0] not in (None, 0) and not isinstance(args[0], Func):
                o.finding(e, 'argument of %s() has degree %+d (must be dimensionless): `%s`' % (last, args[0], self.txt(e)))
            return 0
        if last == 'sqrt':
            return None if not args or args[0] is None else args[0] / 2
        if last in ('pow', 'power') and len(e.args) == 2:
            k = self.const_value(e.args[1])
            if args[0] is None:
                return None
            if k is not None:
                return args[0] * k
            if args[0] != 0 or args[1] not in (None, 0):
                o.finding(e, 'pow() with non-constant exponent on degree %s base / exponent degree %s' % (args[0], args[1]))
            return 0
        if last in SAME:
            d = None
            for a in args:
                if isinstance(a, Func):
                    continue
                d = self.join(d, a, e, '%s(...) `%s`' % (last, self.txt(e)))
            return d if last in ('min', 'max', 'minimum', 'maximum') else None
        if last == 'where' and len(args) == 3:
            return self.join(args[1], args[2], e, 'where(...)')
        if last == 'take_along_axis' and args:
            return args[0]
        if last in ('put_along_axis', 'put', 'copyto', 'place', 'putmask') or (last == 'at' and f.split('.')[0] in ('numpy', 'np') and len(f.split('.')) == 3):
            # library procedures that store values into their first argument: the container takes the join, like a subscript store
            vals = args[2] if last in ('put_along_axis', 'put', 'place', 'putmask', 'at') and len(args) > 2 else (args[1] if len(args) > 1 else None)
            if e.args and isinstance(e.args[0], ast.Name) and not isinstance(vals, Func):
                s[e.args[0].id] = self.join(s.get(e.args[0].id), vals, e, '%s(...)' % last)
            return None
        if last in ZERO_RESULT:
            return None
        if last in ('zeros', 'ones', 'empty', 'zeros_like', 'empty_like'):
            return None
        if last in PRESERVE and args:
            return args[0]
        if last == 'dot' and len(args) == 2:
            return None if args[0] is None and args[1] is None else (args[0] or 0) + (args[1] or 0)
        if last in ('trapz', 'trapezoid'):
            return args[0] if args else None     # integration over a dimensionless grid
        if last == 'outer' and len(args) == 2:
            return None if args[0] is None and args[1] is None else (args[0] or 0) + (args[1] or 0)
        callee = o.resolve(e)
        if callee is not None:
            return o.call_repo(callee, e, args, kws, s)
        if isinstance(e.func, ast.Attribute) and last in ('copy', 'sum', 'ravel', 'transpose', 'reshape', 'squeeze', 'astype', 'max', 'min', 'mean', 'fold', 'filled', 'flatten', 'swapaxes'):
            return self.ev(e.func.value, s)
        return None


class PyDeg(Analysis):
    """degree analysis of one Python function under given argument degrees"""
    for_body_runs_at_least_once = False

    def __init__(self, ctx, m, fn, argdeg):
        self.ctx, self.m, self.fn = ctx, m, fn
        self.argdeg = argdeg
        self.E = DegEval(self)
        self.returns = []
        self.world = ctx.world

    # owner interface -----------------------------------------------------------------------------
    def finding(self, node, text):
        self.ctx.findings.append(Finding(node, text, '%s:%s' % (self.m.rel, getattr(self.fn, '_qualname', self.fn.name))))

    def name_degree(self, name):
        return self.ctx.seed(name)

    def attr_degree(self, e, s):
        t = dotted(e)
        return self.ctx.seed(t.split('.')[-1]) if t else None

    def resolve(self, call):
        c = self.ctx.prog.resolve_call(self.m, call, scope=self.fn)
        return c

    def special_call(self, e, f, last, args, kws, s):
        return self.ctx.special_call(self, e, f, last, args, kws, s)

    def call_repo(self, callee, e, args, kws, s):
        b, problems = bind_call(callee, e)
        degs = {}
        for p, node in b.items():
            degs[p] = self.E.ev(node, s)
        # an omitted parameter takes its default: a non-zero numeric constant has degree 0, so leaving out a parameter whose
        # seed degree is not 0 replaces a scaling quantity by a fixed number inside the callee (defaults of 0/None/bools are
        # neutral; public entry points called by users are not call sites of this analysis)
        a = callee.args
        pos = a.posonlyargs + a.args
        defaults = dict(zip([x.arg for x in pos[len(pos) - len(a.defaults):]], a.defaults))
        defaults.update({k.arg: d for k, d in zip(a.kwonlyargs, a.kw_defaults) if d is not None})
        for pn, dnode in defaults.items():
            if pn in b or any(k.arg is None for k in e.keywords) or any(isinstance(x, ast.Starred) for x in e.args):
                continue
            sd = self.ctx.seed(pn)
            if sd not in (None, 0) and isinstance(dnode, ast.Constant) and isinstance(dnode.value, (int, float)) and not isinstance(dnode.value, bool) and dnode.value != 0:
                self.finding(e, 'call `%s` omits `%s`: the constant default %r stands in for a quantity of degree %+d' % (self.E.txt(e)[:60], pn, dnode.value, sd))
        return self.ctx.analyse(callee._module, callee, degs)

    # flow hooks ---------------------------------------------------------------------------------------
    def initial(self):
        s = {}
        for p in func_params(self.fn):
            s[p] = self.argdeg.get(p, self.ctx.seed(p))
        return s

    def copy(self, s):
        return dict(s)

    def join(self, a, b):
        r = {}
        for k in set(a) | set(b):
            x, y = a.get(k), b.get(k)
            r[k] = x if x == y else (x if y is None else (y if x is None else None))
        return r

    def expr(self, e, s, st):
        if isinstance(st, ast.Return) and st.value is e:
            self.tuple_values = True
            d = self.E.ev(e, s)
            self.tuple_values = False
            self.returns.append((st, d))
            return s
        self.E.ev(e, s)
        return s

    def assign(self, target, value, s, st):
        E = self.E
        if isinstance(st, ast.AugAssign):
            tv = E.ev(_load(st.target), s)
            vv = E.ev(st.value, s)
            if isinstance(st.op, (ast.Add, ast.Sub)):
                d = E.join(tv, vv, st, 'in-place update `%s`' % E.txt(st))
            elif isinstance(st.op, ast.Mult):
                d = None if tv is None and vv is None else (tv or 0) + (vv or 0)
            elif isinstance(st.op, ast.Div):
                d = None if tv is None and vv is None else (tv or 0) - (vv or 0)
            else:
                d = tv
            self._bind(st.target, d, s, st, aug=True)
            return s
        if isinstance(st, (ast.For, ast.AsyncFor)) and target is st.target:
            it = st.iter
            if isinstance(it, ast.Call) and dotted(it.func) == 'enumerate' and it.args and isinstance(target, ast.Tuple) and len(target.elts) == 2:
                self._bind(target.elts[0], None, s, st)
                self._bind(target.elts[1], E.ev(it.args[0], s), s, st)
                return s
            if isinstance(it, ast.Call) and dotted(it.func) == 'zip' and isinstance(target, ast.Tuple) and len(target.elts) == len(it.args):
                for t, a in zip(target.elts, it.args):
                    self._bind(t, E.ev(a, s), s, st)
                return s
            self._bind(target, E.ev(it, s), s, st)
            return s
        if value is None or isinstance(value, (ast.FunctionDef, ast.ClassDef)):
            self._bind(target, None, s, st)
            return s
        if isinstance(target, (ast.Tuple, ast.List)) and isinstance(value, (ast.Tuple, ast.List)) and len(target.elts) == len(value.elts):
            vals = [E.ev(v, s) for v in value.elts]
            for t, v in zip(target.elts, vals):
                self._bind(t, v, s, st)
            return s
        d = E.ev(value, s)
        self._bind(target, d, s, st)
        return s

    def _bind(self, target, d, s, st, aug=False):
        if isinstance(target, ast.Name):
            s[target.id] = d if not isinstance(d, tuple) else None
        elif isinstance(target, (ast.Tuple, ast.List)):
            if isinstance(d, tuple) and len(d) == len(target.elts):
                for x, dx in zip(target.elts, d):
                    self._bind(x, dx, s, st)
                return
            for x in target.elts:
                self._bind(x, d if not isinstance(d, tuple) else None, s, st)
        elif isinstance(target, ast.Subscript):
            root = target.value
            while isinstance(root, (ast.Subscript, ast.Attribute)) and not isinstance(root, ast.Name):
                if isinstance(root, ast.Attribute) and root.attr == 'data':
                    root = root.value
                    continue
                root = root.value
            if isinstance(root, ast.Name):
                cur = s.get(root.id, self.ctx.seed(root.id))
                if aug:
                    s[root.id] = d if cur is None else cur if d is None else d
                    return
                if cur is None:
                    s[root.id] = d
                elif d is not None and d != cur and not isinstance(d, Func):
                    self.finding(st, 'store `%s`: value of degree %+d written into %s of degree %+d' % (self.E.txt(st), d, root.id, cur))

    def branch(self, test, s, truth):
        return dict(s)

    def const_truth(self, test):
        if isinstance(test, ast.Constant):
            return bool(test.value)
        t = ast.unparse(test)
        if t in self.world:
            return self.world[t]
        if isinstance(test, ast.UnaryOp) and isinstance(test.op, ast.Not) and ast.unparse(test.operand) in self.world:
            return not self.world[ast.unparse(test.operand)]
        return None


def _load(t):
    from .srcmodel import clone
    t2 = clone(t)
    for n in ast.walk(t2):
        if hasattr(n, 'ctx'):
            n.ctx = ast.Load()
    return t2


class DegContext:
    """one scale group: seeds by name, special library calls, memoised interprocedural analysis"""

    def __init__(self, prog, seeds, patterns, world=None, kernel_sig=None, cprog=None):
        self.prog = prog
        self.seeds = seeds            # exact name -> degree
        self.patterns = patterns      # list of (compiled regex, degree)
        self.world = world or {}
        self.findings = []
        self.memo = {}
        self.active = set()
        self.kernel_sig = kernel_sig or {}
        self.cprog = cprog
        self.analysed_functions = set()

    def seed(self, name):
        if name in self.seeds:
            return self.seeds[name]
        for rx, d in self.patterns:
            if rx.fullmatch(name):
                return d
        return None

    def analyse(self, m, fn, argdeg):
        key = (id(fn), tuple(sorted((k, repr(v)) for k, v in argdeg.items())))
        if key in self.memo:
            return self.memo[key]
        if key in self.active:
            return None
        self.active.add(key)
        an = PyDeg(self, m, fn, argdeg)
        Engine(an, max_iter=6).run_function(fn, an.initial())
        self.active.discard(key)
        self.analysed_functions.add('%s:%s' % (m.rel, getattr(fn, '_qualname', fn.name)))
        d = None
        first = True
        for st, x in an.returns:
            if first:
                d, first = x, False
            elif isinstance(x, tuple) or isinstance(d, tuple):
                if isinstance(x, tuple) and isinstance(d, tuple) and len(x) == len(d):
                    d = tuple(a if a == b else (a if b is None else b if a is None else None) for a, b in zip(d, x))
                else:
                    d = None
            elif x != d:
                if d is None:
                    d = x
                elif x is not None and not isinstance(x, Func) and not isinstance(d, Func):
                    self.findings.append(Finding(st, 'return paths of %s have degrees %s and %s' % (fn.name, d, x), '%s:%s' % (m.rel, fn.name)))
        self.memo[key] = d
        return d

    def special_call(self, an, e, f, last, args, kws, s):
        if last == 'ensure_1arg_func' and args:
            return Func(args[0] if not isinstance(args[0], Func) else args[0].d)
        if f.startswith('int_c.implicit_') or f.startswith('dadi.integration_c.implicit_'):
            return self.kernel_call(an, e, last, args)
        if f in ('tridiag.tridiag', 'dadi.tridiag_cython.tridiag') and len(args) == 4:
            a, b, c, r = args
            d = an.E.join(an.E.join(a, b, e, 'tridiagonal system rows'), c, e, 'tridiagonal system rows')
            if r is None:
                return None
            return r - (d or 0)
        return NotImplemented

    def kernel_call(self, an, e, name, args):
        """check the degrees of the scalar arguments against the C signature (analysed separately) and return degree(phi)"""
        cf = self.cprog.funcs.get(name) if self.cprog else None
        if cf is not None and 'precalc' not in name:
            pn = [p for p in cf.param_names() if p not in ('L', 'M', 'N', 'O', 'P') and not p.endswith(('start', 'end'))]
            for p, d, node in zip(pn, args, e.args):
                want = self.seed(p)
                if d is not None and want is not None and d != want and not isinstance(d, Func):
                    an.finding(node, 'argument `%s` of degree %+d passed as kernel parameter %s of degree %+d' % (an.E.txt(node), d, p, want))
        elif cf is not None:
            # precalc: (phi, a, b, c, dt): solution degree = deg(phi) [r = phi/dt, rows a,b,c + 1/dt]
            if len(args) >= 5:
                rows = an.E.join(an.E.join(args[1], args[2], e, 'coefficient arrays'), args[3], e, 'coefficient arrays')
                dt = args[4]
                if rows is not None and dt is not None and rows != -dt:
                    an.finding(e, 'coefficient arrays of degree %+d combined with 1/dt of degree %+d' % (rows, -dt))
        return args[0] if args else None


# ---------------------------------------------------------------------------
# C side
# ---------------------------------------------------------------------------

class CDeg:
    def __init__(self, ctx, cf):
        self.ctx, self.cf = ctx, cf
        self.E = DegEval(self)
        self.ret = []

    def finding(self, node, text):
        if not hasattr(node, 'lineno') or not getattr(node, 'lineno', 0):
            try:
                node.lineno = getattr(self, 'cur_line', self.cf.line)
            except Exception:
                pass
        self.ctx.findings.append(Finding(node, text, '%s:%s' % (self.cf.rel, self.cf.name)))

    def name_degree(self, name):
        return self.ctx.seed(name)

    def attr_degree(self, e, s):
        return None

    def resolve(self, call):
        return None

    def call_repo(self, *a):
        return None

    def special_call(self, e, f, last, args, kws, s):
        cf = self.ctx.cprog.funcs.get(f)
        if f in ('malloc', 'free', 'tridiag_malloc', 'tridiag_free', 'addr'):
            return args[0] if f == 'addr' and args else None
        if f in ('tridiag_premalloc', 'tridiag', 'tridiag_fl') and len(args) >= 5:
            a, b, c, r, u = args[:5]
            d = self.E.join(self.E.join(a, b, e, 'tridiagonal system rows'), c, e, 'tridiagonal system rows')
            out = e.args[4]
            root = out
            while isinstance(root, (ast.Subscript, ast.Call)):
                root = root.value if isinstance(root, ast.Subscript) else root.args[0]
            if isinstance(root, ast.Name) and r is not None:
                dd = r - (d or 0)
                cur = s.get(root.id, self.ctx.seed(root.id))
                if cur is not None and cur != dd:
                    self.finding(e, 'solver output of degree %+d written into %s of degree %+d' % (dd, root.id, cur))
                elif cur is None:
                    s[root.id] = dd
            return None
        if cf is not None:
            if cf.ret.startswith('void'):
                # output parameters: analyse callee with argument degrees, write back pointer-parameter degrees
                sub = CDeg(self.ctx, cf)
                s2 = {}
                for (t, p), d in zip(cf.params, args):
                    s2[p] = d
                sub.run(s2)
                for (t, p), node in zip(cf.params, e.args):
                    if t.endswith('*') and isinstance(node, ast.Name):
                        nd = s2.get(p)
                        if nd is not None:
                            s[node.id] = nd
                return None
            sub = CDeg(self.ctx, cf)
            s2 = {p: d for (t, p), d in zip(cf.params, args)}
            return sub.run(s2)
        return NotImplemented

    def run(self, s):
        self.block(self.cf.body, s)
        d = None
        for x in self.ret:
            d = x if d is None else d
        self.ctx.analysed_functions.add('%s:%s' % (self.cf.rel, self.cf.name))
        return d

    def block(self, stmts, s):
        E = self.E
        for st in stmts:
            self.cur_line = getattr(st, 'line', self.cf.line)
            if isinstance(st, CDecl):
                if st.init is not None and not (isinstance(st.init, ast.Call) and unparse(st.init.func) == 'malloc'):
                    s[st.name] = E.ev(st.init, s)
                continue
            if isinstance(st, CAssign):
                v = E.ev(st.value, s)
                root = st.target
                while isinstance(root, ast.Subscript):
                    root = root.value
                name = root.id if isinstance(root, ast.Name) else None
                cur = s.get(name, self.ctx.seed(name)) if name else None
                if st.op in ('+=', '-='):
                    d = E.join(cur, v, st.value, 'update of %s' % unparse(st.target))
                elif st.op == '*=':
                    d = None if cur is None and v is None else (cur or 0) + (v or 0)
                elif st.op == '/=':
                    d = None if cur is None and v is None else (cur or 0) - (v or 0)
                else:
                    d = v
                    if isinstance(st.target, ast.Subscript) and cur is not None and v is not None and cur != v:
                        self.finding(st.value, 'store into %s: value of degree %+d, array of degree %+d' % (unparse(st.target), v, cur))
                if name and not (isinstance(root, ast.Name) and name in ('ii', 'jj', 'kk', 'll', 'mm')):
                    if d is not None or cur is None:
                        s[name] = d if d is not None else cur
                continue
            if isinstance(st, CExpr):
                E.ev(st.expr, s)
                continue
            if isinstance(st, CFor):
                for _ in range(2):
                    self.block(st.body, s)
                continue
            if isinstance(st, CIf):
                E.ev(st.cond, s)
                s1, s2 = dict(s), dict(s)
                self.block(st.body, s1)
                self.block(st.orelse, s2)
                for k in set(s1) | set(s2):
                    a, b = s1.get(k), s2.get(k)
                    s[k] = a if a == b else (a if b is None else b if a is None else None)
                continue
            if isinstance(st, CReturn):
                if st.value is not None:
                    self.ret.append(E.ev(st.value, s))
            if isinstance(st, CJump):
                continue
