"""C13 - genotype data become the spectrum and statistics direct counting gives: the statically decidable plumbing."""
import ast, re
from fractions import Fraction
from sa.algebra import Rat, Translator, AlgebraError, parse_expr
from sa.srcmodel import own_nodes, dotted, positional_params, func_params, clone
from sa.report import AnalysisError
from sa.pattern import has, flat
from sa.extract import single_assignments, inline

EXPLANATION = (
    "The property is about data content, so only the plumbing is decided. (1) count_data_dict is executed abstractly, once per "
    "loop iteration started from a fresh environment, over the finite domain of outgroup states {key missing, '-', third "
    "allele, allele1, allele2}: exactly one configuration is counted per biallelic SNP, it is marked polarised iff the "
    "outgroup is one of the two segregating alleles, the derived calls are those of the other allele, and no variable is "
    "read that was not bound in the same iteration (no stale value from the previous SNP). (2) the key (called, derived, "
    "polarised) is unpacked in the same order by Spectrum._from_count_dict, each population contributes "
    "_cached_projection(to, from, hits) in the parameter order of its definition, broadcast along its own axis, multiplied "
    "over populations and weighted by the SNP count; unpolarised SNPs are skipped iff polarized, folded otherwise. (3) "
    "fragment_data_dict: the key printer is the inverse of the key parser (last '_' / first '.' afterwards), every position "
    "is appended exactly once, the chunk index moves together with the chunk list, values are copied under the rebuilt key; "
    "bootstraps are sums of len(spectra) chunk spectra drawn with replacement. (4) subsampling draws subsample[pop] "
    "individuals without replacement and the SNP is stored only if no population fell short (for/else); (ref, alt) call "
    "order equals the 'segregating' order in both parsers. (5) R-ALG on the statistics: Watterson's theta, pi, theta_L, "
    "Tajima's D constants and Weir-Cockerham Fst (the code's a, d are compared, for r = 2 and 3 populations of unequal "
    "size, with the published equations 2-4 after solving b = 0 for the heterozygosity); S() restores the mask."
    " (6) both data-dict parsers by role flow: the columns of the split line and the genotype counts that reach each position of what is stored under 'segregating', 'calls' and 'outgroup_allele'; the VCF line filters as skip predicates evaluated over allele / FILTER worlds before anything of the line is stored; the stored outgroup allele is assigned on every path of its own iteration; the list zipped with the sample columns has one entry per header sample column."
    " (7) R-CMP: the (position, info) tuples of fragment_data_dict are sorted with a comparison defined for every pair - no default tuple ordering over a component that is None on one path and a str on another; a sort key orders by position first. A bounded interpretation of the chunker on 71 small dictionaries is recorded as a cross-check only (it runs the function, so it never decides).")
TECHNIQUE = "finite-domain abstract execution of the polarisation loop + comparability typing of sorted tuples + role flow through the parsers + skip predicates over finite worlds + argument/slot correspondence + exact rational algebra (vector-valued for Fst) + loop-shape rules"
DECLINED = ["VCF tokenisation details (genotype separators, ploidy, FORMAT fields)", "equality of a spectrum with an independent count of a genotype matrix (numerical)",
            "distributional properties of bootstraps / subsamples"]

MISC = 'dadi.Misc'
SM = 'dadi.Spectrum_mod'


# ---------------------------------------------------------------------------------------------------------------------
# (1) abstract execution of count_data_dict
class Sym:
    def __init__(self, n):
        self.n = n

    def __eq__(self, o):
        return isinstance(o, Sym) and o.n == self.n

    def __hash__(self):
        return hash(self.n)

    def __repr__(self):
        return self.n


class Opaque:
    def __init__(self, t):
        self.t = t

    def __repr__(self):
        return '<%s>' % self.t


MISSING = object()


class Unknown(Exception):
    pass


class AbsErr(Exception):
    pass


class Skip(Exception):
    pass


class CountExec:
    """one iteration of the SNP loop; conditions that cannot be decided fork"""

    def __init__(self, loop, snp_var, outgroup, decisions):
        self.loop, self.snp = loop, snp_var
        self.info = {'segregating': (Sym('A1'), Sym('A2')), 'outgroup_allele': outgroup, 'calls': Opaque('calls')}
        self.env = {}
        self.decisions = list(decisions)      # pre-chosen outcomes of undecidable tests
        self.asked = 0
        self.keys = []

    def ev(self, e):
        if isinstance(e, ast.Constant):
            if e.value == '-':
                return Sym('DASH')
            return e.value
        if isinstance(e, ast.Name):
            if e.id == self.snp:
                return self.info
            if e.id in self.env:
                return self.env[e.id]
            if e.id in ('pop_ids', 'count_dict', 'data_dict', 'True', 'False'):
                return Opaque(e.id)
            raise AbsErr('`%s` is read before it is bound in this iteration (line %d)' % (e.id, e.lineno))
        if isinstance(e, ast.Tuple) or isinstance(e, ast.List):
            return tuple(self.ev(x) for x in e.elts)
        if isinstance(e, ast.Subscript):
            b = self.ev(e.value)
            if b is self.info:
                k = self.ev(e.slice)
                if k not in self.info:
                    return Opaque('snp_info[%r]' % (k,))
                v = self.info[k]
                if v is MISSING:
                    raise AbsErr('snp_info[%r] is read although the key may be absent (line %d)' % (k, e.lineno))
                return v
            if isinstance(b, tuple):
                k = self.ev(e.slice)
                if isinstance(k, int) and -len(b) <= k < len(b):
                    return b[k]
            return Opaque(ast.unparse(e))
        if isinstance(e, ast.Call):
            fn = dotted(e.func) or ''
            if isinstance(e.func, ast.Attribute) and e.func.attr == 'get' and self.ev(e.func.value) is self.info:
                k = self.ev(e.args[0])
                v = self.info.get(k, MISSING)
                if v is MISSING:
                    return self.ev(e.args[1]) if len(e.args) > 1 else None
                return v
            if fn in ('tuple', 'list') and len(e.args) == 1:
                v = self.ev(e.args[0])
                return v
            if fn == 'len' and len(e.args) == 1:
                v = self.ev(e.args[0])
                if isinstance(v, tuple):
                    return len(v)
            for a in e.args:
                self.ev(a)
            return Opaque(ast.unparse(e))
        if isinstance(e, ast.ListComp):
            t = ast.unparse(e)
            m = re.fullmatch(r"\[%s\['calls'\]\[(\w+)\]\[(\d)\] for (\w+) in pop_ids\]" % re.escape(self.snp), t)
            if m and m.group(1) == m.group(3):
                return Sym('CALLS%s' % m.group(2))
            # evaluate free names so that unbound reads are seen
            bound = {n.id for g in e.generators for n in ast.walk(g.target) if isinstance(n, ast.Name)}
            for n in ast.walk(e):
                if isinstance(n, ast.Name) and isinstance(n.ctx, ast.Load) and n.id not in bound and n.id not in ('zip', 'int', 'sum', 'range', 'len'):
                    self.ev(n)
            return Opaque(t)
        if isinstance(e, ast.UnaryOp) and isinstance(e.op, ast.Not):
            return not self.truth(e.operand)
        if isinstance(e, ast.BoolOp):
            if isinstance(e.op, ast.And):
                for v in e.values:
                    if not self.truth(v):
                        return False
                return True
            for v in e.values:
                if self.truth(v):
                    return True
            return False
        if isinstance(e, ast.Compare) and len(e.ops) == 1:
            op = e.ops[0]
            if isinstance(op, (ast.In, ast.NotIn)):
                r = self.ev(e.comparators[0])
                if r is self.info:
                    k = self.ev(e.left)
                    res = self.info.get(k, MISSING) is not MISSING
                elif isinstance(r, tuple):
                    l = self.ev(e.left)
                    if isinstance(l, Opaque) or any(isinstance(x, Opaque) for x in r):
                        raise Unknown(ast.unparse(e))
                    res = l in r
                else:
                    raise Unknown(ast.unparse(e))
                return res if isinstance(op, ast.In) else not res
            if isinstance(op, (ast.Eq, ast.NotEq)):
                l, r = self.ev(e.left), self.ev(e.comparators[0])
                if isinstance(l, Opaque) or isinstance(r, Opaque):
                    raise Unknown(ast.unparse(e))
                res = (l == r)
                return res if isinstance(op, ast.Eq) else not res
            raise Unknown(ast.unparse(e))
        if isinstance(e, ast.BinOp):
            self.ev(e.left), self.ev(e.right)
            return Opaque(ast.unparse(e))
        if isinstance(e, ast.IfExp):
            return self.ev(e.body) if self.truth(e.test) else self.ev(e.orelse)
        return Opaque(ast.unparse(e))

    def truth(self, e):
        try:
            v = self.ev(e)
        except Unknown:
            v = Opaque('?')
        if isinstance(v, bool):
            return v
        if isinstance(v, Opaque) or v is None or isinstance(v, (Sym, tuple, int, str)):
            if isinstance(v, (Sym,)):
                return True
            if v is None:
                return False
            if isinstance(v, (int, str, tuple)) and not isinstance(v, bool):
                return bool(v)
            # undecidable: take the pre-chosen outcome, or ask for a fork
            if self.asked < len(self.decisions):
                d = self.decisions[self.asked]
                self.asked += 1
                return d
            self.asked += 1
            raise Fork()
        return bool(v)

    def bind(self, t, v):
        if isinstance(t, ast.Name):
            self.env[t.id] = v
        elif isinstance(t, (ast.Tuple, ast.List)):
            if isinstance(v, tuple) and len(v) == len(t.elts):
                for a, b in zip(t.elts, v):
                    self.bind(a, b)
            else:
                for a in t.elts:
                    self.bind(a, Opaque('unpacked'))

    def run(self, body):
        for st in body:
            if isinstance(st, ast.Assign):
                v = self.ev(st.value)
                for t in st.targets:
                    self.bind(t, v)
            elif isinstance(st, ast.If):
                self.run(st.body if self.truth(st.test) else st.orelse)
            elif isinstance(st, ast.Continue):
                raise Skip()
            elif isinstance(st, ast.AugAssign):
                if isinstance(st.target, ast.Subscript) and isinstance(st.target.value, ast.Name) and st.target.value.id == 'count_dict':
                    self.keys.append((self.ev(st.target.slice), ast.unparse(st.value)))
                else:
                    self.ev(st.value)
            elif isinstance(st, ast.Expr):
                self.ev(st.value)
            elif isinstance(st, ast.Pass):
                pass
            else:
                raise AnalysisError('count_data_dict: statement kind %s at line %d is outside the analysed subset' % (type(st).__name__, st.lineno))


class Fork(Exception):
    pass


def all_runs(loop, snp, outgroup):
    """every outcome (over undecidable tests) of one iteration: list of ('skip'|'keys'|'error', payload)"""
    out = []
    todo = [[]]
    while todo:
        dec = todo.pop()
        ex = CountExec(loop, snp, outgroup, dec)
        try:
            ex.run(loop.body)
            out.append(('keys', ex.keys))
        except Skip:
            out.append(('skip', None))
        except AbsErr as e:
            out.append(('error', str(e)))
        except Fork:
            if len(dec) > 8:
                raise AnalysisError('count_data_dict: too many undecidable tests')
            todo.append(dec + [True])
            todo.append(dec + [False])
    return out


def check_count_data_dict(rep, prog):
    m = prog.mod(MISC)
    fn = prog.func(MISC, 'count_data_dict')
    rep.saw_function(m.rel + ':count_data_dict')
    loops = [n for n in fn.body if isinstance(n, ast.For)]
    if len(loops) != 1 or not isinstance(loops[0].target, ast.Name):
        raise AnalysisError('count_data_dict: SNP loop not found')
    loop = loops[0]
    snp = loop.target.id
    ok_iter = ast.unparse(loop.iter) in ('data_dict.values()',)
    rep.ob('R-FLOW', 'count_data_dict iteration', ok_iter, 'iterates `%s`' % ast.unparse(loop.iter), m.rel, loop.lineno, what='every SNP of the dictionary is visited once')
    cases = [('key missing', MISSING, False, None), ("'-'", Sym('DASH'), False, None), ('third allele', Sym('OTHER'), False, None),
             ('allele1', Sym('A1'), True, Sym('CALLS1')), ('allele2', Sym('A2'), True, Sym('CALLS0'))]
    for label, og, want_pol, want_der in cases:
        runs = all_runs(loop, snp, og)
        problems = []
        for kind, payload in runs:
            if kind == 'error':
                problems.append(payload)
            elif kind == 'skip':
                problems.append('the biallelic SNP is skipped')
            else:
                if len(payload) != 1:
                    problems.append('%d configurations counted' % len(payload))
                    continue
                key, inc = payload[0]
                if inc != '1':
                    problems.append('count incremented by %s' % inc)
                if not (isinstance(key, tuple) and len(key) == 3):
                    problems.append('key is not (called, derived, polarised)')
                    continue
                called, derived, pol = key
                if pol is not want_pol:
                    problems.append('marked polarised=%s' % (pol,))
                if want_der is not None and derived != want_der:
                    problems.append('derived calls are %s (expected %s)' % (derived, want_der))
                if want_der is None and derived not in (Sym('CALLS0'), Sym('CALLS1')):
                    problems.append('derived calls are %s' % (derived,))
                if not (isinstance(called, Opaque) and 'zip(allele1_calls, allele2_calls)' in called.t.replace('zip(allele2_calls, allele1_calls)', 'zip(allele1_calls, allele2_calls)')
                        and re.search(r'\ba1 \+ a2\b|\ba2 \+ a1\b', called.t)):
                    problems.append('called chromosomes are %s' % (called,))
        rep.ob('R-EXH', 'count_data_dict outgroup %s' % label, not problems, '; '.join(sorted(set(problems))) if problems else
               'one configuration, polarised=%s, derived=%s' % (want_pol, want_der or 'either allele (folded later)'), m.rel, loop.lineno,
               what='polarised iff the outgroup allele is one of the two segregating alleles; derived = the other allele; nothing carried over from the previous SNP')
    # non-biallelic SNPs are skipped first
    first = loop.body[0]
    okb = isinstance(first, ast.If) and ast.unparse(first.test) in ("len(%s['segregating']) != 2" % snp,) and len(first.body) == 1 and isinstance(first.body[0], ast.Continue)
    rep.ob('R-DOM', 'count_data_dict biallelic filter', okb, '`%s`' % ast.unparse(first).split('\n')[0], m.rel, first.lineno, what='non-biallelic SNPs are skipped before anything is counted')
    rets = [n for n in own_nodes(fn) if isinstance(n, ast.Return)]
    rep.ob('R-FLOW', 'count_data_dict result', len(rets) == 1 and ast.unparse(rets[0].value) == 'count_dict', 'returns %s' % (ast.unparse(rets[0].value) if rets else '?'), m.rel, fn.lineno,
           what='the counts accumulated in the loop are returned')


_CD_SUMMARY = {}


def count_dict_summary(prog):
    """abstract execution of Spectrum._from_count_dict for 1..3 populations, polarised or not; per path: the names the key is
    unpacked into, whether the configuration is skipped, whether the result is folded, and for every population the arguments of
    its _cached_projection call and the index that aligns the weights with the axes of the spectrum"""
    if _CD_SUMMARY:
        return _CD_SUMMARY
    from sa import miniexec as mx
    from sa import alpha
    m = prog.mod(SM)
    fn = prog.func(SM, 'Spectrum._from_count_dict')
    known = alpha.load_table().get('__params__', {}).get(m.rel)
    known = set(known) if known is not None else None
    for P in (1, 2, 3):
        for polarized in (True, False):
            it = mx.Interp(prog, m, known_functions=known, symbolic_loops=True)
            try:
                paths = it.run(fn, {'count_dict': mx.Sym('count_dict'), 'projections': mx.Sym('projections', length=P), 'polarized': polarized,
                                    'pop_ids': mx.Sym('pop_ids'), 'mask_corners': mx.Sym('mask_corners')})
            except mx.Undecidable as e:
                raise AnalysisError('_from_count_dict is not recognised: %s' % e)
            out = []
            for outcome, events, dec in paths:
                rec = {'error': None, 'skipped': False, 'folded': False, 'factors': {}, 'extra': '', 'names': [], 'count': None}
                out.append(rec)
                if outcome[0] != 'return':
                    rec['error'] = 'raises %s' % outcome[1]
                    continue
                lps = [e for e in events if e[0] == 'loop' and 'count_dict' in e[1]]
                if len(lps) != 1 or lps[0][1] != 'count_dict.items()':
                    rec['error'] = 'loop over the configurations not found'
                    continue
                mt = re.fullmatch(r'\(\((\w+), (\w+), (\w+)\), (\w+)\)', lps[0][2])
                if not mt:
                    rec['error'] = 'loop target %s' % lps[0][2]
                    continue
                rec['names'], rec['count'] = list(mt.groups()[:3]), mt.group(4)
                v = outcome[1]
                base = mx.method_call(v, 'fold')
                if base is not None:
                    rec['folded'], v = True, base
                terms = mx.factors(v, '+')
                if len(terms) == 1:
                    rec['skipped'] = True           # nothing added on this path (configuration skipped)
                    continue
                if len(terms) != 2:
                    rec['error'] = '%d terms added per configuration' % (len(terms) - 1)
                    continue
                fac = mx.factors(terms[1], '*')
                cnt = [f for f in fac if isinstance(f, mx.Sym) and f.text == rec['count']]
                rest = [f for f in fac if not (isinstance(f, mx.Sym) and f.text == rec['count'])]
                if len(cnt) != 1:
                    rec['extra'] = 'the SNP count enters %d times' % len(cnt)
                for f in rest:
                    st = f.struct if isinstance(f, mx.Sym) else None
                    if not (st and st[0] == 'index' and mx.call_of(st[1], '_cached_projection') is not None):
                        rec['extra'] = 'unexpected factor %s' % mx.show(f)[:60]
                        continue
                    cargs, ckw = mx.call_of(st[1], '_cached_projection')
                    key = st[2] if isinstance(st[2], tuple) else (st[2],)
                    free = [k for k, x in enumerate(key) if mx.is_full_slice(x)]
                    axis_ok = len(key) == P and len(free) == 1 and all(mx.is_newaxis(x) for k, x in enumerate(key) if k != free[0])
                    mi = re.fullmatch(r'projections\[(\d+)\]', mx.show(cargs[0])) if cargs else None
                    pop = int(mi.group(1)) if mi else (free[0] if free else -1)
                    if pop in rec['factors']:
                        rec['extra'] = 'population %d enters twice' % pop
                    rec['factors'][pop] = {'args': [mx.show(a) for a in cargs] + ['%s=%s' % kv for kv in ckw.items()], 'axis_ok': axis_ok and free[0] == pop, 'key': mx.show(key)}
                if len(rest) != P and not rec['extra']:
                    rec['extra'] = '%d weight factors for %d populations' % (len(rest), P)
            _CD_SUMMARY[(P, polarized)] = out
    return _CD_SUMMARY


# ---------------------------------------------------------------------------------------------------------------------
def check_from_count_dict(rep, prog):
    m = prog.mod(SM)
    fn = prog.func(SM, 'Spectrum._from_count_dict')
    rep.saw_function(m.rel + ':Spectrum._from_count_dict')
    loops = [n for n in fn.body if isinstance(n, ast.For) and 'count_dict' in ast.unparse(n.iter)]
    if len(loops) != 1:
        raise AnalysisError('_from_count_dict: configuration loop not found')
    lp = loops[0]
    tgt = ast.unparse(lp.target)
    mt = re.fullmatch(r'\(\((\w+), (\w+), (\w+)\), (\w+)\)', tgt)
    ok = bool(mt) and ast.unparse(lp.iter) == 'count_dict.items()'
    rep.ob('R-ARGS', '_from_count_dict key order', ok, 'loop target %s over %s' % (tgt, ast.unparse(lp.iter)), m.rel, lp.lineno, what='key unpacked as (called, derived, polarised), value is the SNP count')
    if not mt:
        return
    called, derived, pol, count = mt.groups()
    # skip rule
    first = lp.body[0]

    def truth(e, env):
        if isinstance(e, ast.Name) and e.id in env:
            return env[e.id]
        if isinstance(e, ast.UnaryOp) and isinstance(e.op, ast.Not):
            v_ = truth(e.operand, env)
            return None if v_ is None else not v_
        if isinstance(e, ast.BoolOp):
            vals = [truth(v_, env) for v_ in e.values]
            if None in vals:
                return None
            return all(vals) if isinstance(e.op, ast.And) else any(vals)
        return None

    def skips(test, negate):
        """the test (negated when it guards the work instead of a `continue`) is true exactly for an unpolarised SNP under polarized=True"""
        for P in (True, False):
            for S in (True, False):
                v_ = truth(test, {'polarized': P, pol: S})
                if v_ is None or (v_ != negate) != (P and not S):
                    return False
        return True
    oks = isinstance(first, ast.If) and not first.orelse and (
        (len(first.body) == 1 and isinstance(first.body[0], ast.Continue) and skips(first.test, False)) or
        (len(lp.body) == 1 and skips(first.test, True)))
    rep.ob('R-DOM', '_from_count_dict unpolarised SNPs', oks, '`if %s`' % ast.unparse(first.test) if isinstance(first, ast.If) else 'no guard', m.rel, first.lineno,
           what='unpolarised SNPs are skipped exactly when a polarised spectrum is requested')
    # what is added to the spectrum per configuration, for 1..3 populations: abstract execution (one symbolic iteration of the
    # loop over configurations); the way the per-population weights are collected and multiplied does not matter
    cp = prog.func('dadi.Numerics', '_cached_projection')
    cpp = positional_params(cp)
    summ = count_dict_summary(prog)
    bad_args, bad_slices, bad_acc, bad_fold = [], [], [], []
    for (P, polarized), paths in sorted(summ.items()):
        for pth in paths:
            tagp = 'P=%d polarized=%s' % (P, polarized)
            if pth.get('error'):
                bad_acc.append('%s: %s' % (tagp, pth['error']))
                continue
            if pth['folded'] != (not polarized):
                bad_fold.append('%s: result %s' % (tagp, 'folded' if pth['folded'] else 'not folded'))
            if pth['skipped']:
                continue
            if pth['names'][:2] != [called, derived] or pth['count'] != count:
                bad_args.append('%s: loop target %s' % (tagp, pth['names']))
            for i in range(P):
                f = pth['factors'].get(i)
                if f is None:
                    bad_acc.append('%s: no weight for population %d' % (tagp, i))
                    continue
                if f['args'] != ['projections[%d]' % i, '%s[%d]' % (called, i), '%s[%d]' % (derived, i)]:
                    bad_args.append('%s: _cached_projection(%s) for population %d' % (tagp, ', '.join(f['args']), i))
                if not f['axis_ok']:
                    bad_slices.append('%s: weights of population %d indexed by %s' % (tagp, i, f['key']))
            if pth['extra']:
                bad_acc.append('%s: %s' % (tagp, pth['extra']))
    okp = not bad_args and cpp[:3] == ['proj_to', 'proj_from', 'hits']
    rep.ob('R-ARGS', '_from_count_dict projection arguments', okp, '; '.join(bad_args[:3]) if bad_args else '_cached_projection(projections[i], %s[i], %s[i]) for every population i (1..3 populations executed abstractly)' % (called, derived),
           m.rel, lp.lineno, what='_cached_projection(to = requested size, from = called chromosomes, hits = derived calls) for each population on its own axis')
    rep.ob('R-IDX', '_from_count_dict broadcast slices', not bad_slices, '; '.join(bad_slices[:3]) if bad_slices else 'weights of population i: full slice on axis i, new axes elsewhere', m.rel, fn.lineno,
           what='population i varies along axis i of the product')
    rep.ob('R-ALG', '_from_count_dict accumulation', not bad_acc, '; '.join(bad_acc[:3]) if bad_acc else 'adds count * product over all populations of the weights, once per configuration', m.rel, lp.lineno,
           what='fs_total += count * prod_i projection_i (outer product)')
    init = [s for s in fn.body if isinstance(s, ast.Assign) and ast.unparse(s.targets[0]) == 'fs_total']
    oki = len(init) == 1 and 'numpy.zeros(numpy.array(projections) + 1)' in ast.unparse(init[0].value)
    rep.ob('R-IDX', '_from_count_dict shape', oki, ast.unparse(init[0].value) if init else '?', m.rel, fn.lineno, what='result has projections+1 entries per axis and starts at zero')
    # fold rule
    rep.ob('R-DOM', '_from_count_dict folding', not bad_fold, '; '.join(bad_fold[:3]) if bad_fold else 'returns the accumulated spectrum when polarized, its fold() otherwise', m.rel, fn.lineno,
           what='unpolarised spectra are folded, polarised ones are not')
    # from_data_dict forwarding
    fd = prog.func(SM, 'Spectrum.from_data_dict')
    t = ast.unparse(fd)
    # the call is bound to the callee's parameters (positional or keyword spelling), the count dictionary resolved through a local
    from sa.extract import single_assignments as _sa, inline as _inl
    from sa.srcmodel import bind_call as _bind
    callee_ = prog.func(SM, 'Spectrum._from_count_dict')
    calls_ = [c for c in own_nodes(fd) if isinstance(c, ast.Call) and (dotted(c.func) or '').endswith('_from_count_dict')]
    okd = False
    if len(calls_) == 1:
        b_, problems_ = _bind(callee_, calls_[0])
        sing_ = _sa(fd)
        got_ = {k: ast.unparse(_inl(v, sing_)) for k, v in b_.items()}
        okd = not problems_ and got_ == {'count_dict': 'dadi.Misc.count_data_dict(data_dict, pop_ids)', 'projections': 'projections', 'polarized': 'polarized', 'pop_ids': 'pop_ids', 'mask_corners': 'mask_corners'}
    ps = func_params(callee_)
    okd = okd and ps[:4] == ['count_dict', 'projections', 'polarized', 'pop_ids']
    rep.ob('R-ARGS', 'Spectrum.from_data_dict forwarding', okd, 'count_data_dict(data_dict, pop_ids) -> _from_count_dict(cd, projections, polarized, pop_ids, mask_corners=)', m.rel, fd.lineno,
           what='arguments reach the parameters of the same meaning')


# ---------------------------------------------------------------------------------------------------------------------
_FRAG_CHROMS = ('chr1', 'chr_1', 'c.2_x', 'sc_7.1')
_FRAG_INFOS = (None, 'x', 'b.1')


def _fragment_worlds():
    """finite domain of data dictionaries for fragment_data_dict: chromosome names with '_' and '.', positions on both sides of
    every chunk boundary (and one far away, so that empty chunks lie between), optional additional info, several insertion orders"""
    import random
    rnd = random.Random(13)
    worlds = []
    for c in (1, 3, 10):
        pos = sorted({1, c, c + 1, 2 * c, 2 * c + 1, 5 * c + 2})
        pool = [(ch, p_, inf) for ch in _FRAG_CHROMS for p_ in pos for inf in _FRAG_INFOS]
        sets = [pool, pool[::-1]] + [[k] for k in pool[::7]]
        for _ in range(12):
            sets.append(rnd.sample(pool, rnd.randint(2, 14)))
        for ks in sets:
            dd = {}
            for ch, p_, inf in ks:
                key = '%s_%d' % (ch, p_) + ('.%s' % inf if inf else '')
                dd[key] = ('rec', key)
            worlds.append((c, dd, dict(('%s_%d' % (ch, p_) + ('.%s' % inf if inf else ''), (ch, p_)) for ch, p_, inf in ks)))
    return worlds


def fragment_domain_verdict(prog):
    """fragment_data_dict executed by the checker's own interpreter (sa.miniexec over the syntax tree of /repo's source; dadi is
    not imported) on every world of the finite domain; the result must be a partition of the input into per-chromosome position
    intervals shorter than chunk_size.  Returns (ok, detail, n_worlds) or None when the interpreter cannot follow the code."""
    import collections
    from sa import miniexec as mx
    m = prog.mod(MISC)
    fn = prog.func(MISC, 'fragment_data_dict')

    def hook(name, args, kw):
        if name in ('collections.defaultdict', 'defaultdict') and len(args) <= 1 and not kw:
            fac = {'list': list, 'dict': dict, 'int': int, 'set': set}.get(getattr(args[0], 'name', None) or mx.show(args[0])) if args else None
            if args and fac is None:
                return NotImplemented
            return collections.defaultdict(fac)
        return NotImplemented
    worlds = _fragment_worlds()
    for c, dd, truth in worlds:
        it = mx.Interp(prog, m, call_hook=hook)
        try:
            paths = it.run(fn, {'dd': dict(dd), 'chunk_size': c})
        except (mx.Undecidable, RecursionError):
            return None
        except Exception:
            return None
        if len(paths) != 1:
            return None
        outcome = paths[0][0]
        tag = 'chunk_size=%d, keys %s' % (c, sorted(dd)[:6] + (['...'] if len(dd) > 6 else []))
        if outcome[0] == 'raise':
            return (False, 'raises %s for %s' % (outcome[1], tag), len(worlds))
        out = outcome[1]
        if not isinstance(out, (list, tuple)) or not all(isinstance(d, dict) and mx.is_concrete(d) for d in out):
            return None
        seen = collections.Counter(k for d in out for k in d)
        if set(seen) != set(dd) or any(v != 1 for v in seen.values()):
            lost = sorted(set(dd) - set(seen))[:3]
            dup = sorted(k for k, v in seen.items() if v > 1)[:3]
            new = sorted(set(seen) - set(dd))[:3]
            return (False, 'the chunks are not a partition of the SNPs: lost %s, duplicated %s, invented %s (%s)' % (lost, dup, new, tag), len(worlds))
        for d in out:
            for k, v in d.items():
                if v is not dd[k] and v != dd[k]:
                    return (False, 'SNP %s carries the record of another SNP (%s)' % (k, tag), len(worlds))
        spans = collections.defaultdict(list)
        for d in out:
            if not d:
                continue
            chs = {truth[k][0] for k in d}
            ps = [truth[k][1] for k in d]
            if len(chs) != 1:
                return (False, 'one chunk mixes chromosomes %s (%s)' % (sorted(chs), tag), len(worlds))
            if max(ps) - min(ps) >= c:
                return (False, 'one chunk spans positions %d..%d, not shorter than chunk_size (%s)' % (min(ps), max(ps), tag), len(worlds))
            spans[chs.pop()].append((min(ps), max(ps)))
        for ch, iv in spans.items():
            iv.sort()
            for a_, b_ in zip(iv, iv[1:]):
                if b_[0] <= a_[1]:
                    return (False, 'two chunks of chromosome %s interleave: positions %s and %s (%s)' % (ch, a_, b_, tag), len(worlds))
    return (True, 'partition into per-chromosome position intervals shorter than chunk_size on %d worlds' % len(worlds), len(worlds))


def check_sort_comparability(rep, prog):
    """R-CMP (static): the sites of one chromosome are sorted before they are cut into chunks.  Default tuple ordering compares the
    second component whenever the first ties, and that component is None on one path and a str on another (a site without / with
    additional info): `sorted` without a key raises TypeError for a site present in both forms.  Rule: either the sorted tuples have
    no component that is None on one path and not None on another, or the sort has a key whose first component is the position and
    which never exposes the None/str component bare."""
    m = prog.mod(MISC)
    fn = prog.func(MISC, 'fragment_data_dict')
    # tuple appended per key, and the kinds of value each of its Name components is assigned
    kinds = {}
    for n in own_nodes(fn):
        if isinstance(n, ast.Assign):
            tg, v = n.targets[0], n.value
            pairs = list(zip(tg.elts, v.elts)) if isinstance(tg, ast.Tuple) and isinstance(v, ast.Tuple) and len(tg.elts) == len(v.elts) else [(tg, v)]
            if isinstance(tg, ast.Tuple) and not isinstance(v, ast.Tuple):
                pairs = [(e, None) for e in tg.elts]          # unpacked from a call (str.split ...): not None
            for t_, val in pairs:
                if isinstance(t_, ast.Name):
                    kinds.setdefault(t_.id, set()).add('none' if isinstance(val, ast.Constant) and val.value is None else 'value')
    single = {}
    for n in own_nodes(fn):
        if isinstance(n, ast.Assign) and len(n.targets) == 1 and isinstance(n.targets[0], ast.Name):
            single.setdefault(n.targets[0].id, []).append(n.value)

    def _tuple_of(e):
        # the appended tuple, written in place or held in a temporary assigned once
        if isinstance(e, ast.Name) and len(single.get(e.id, [])) == 1:
            e = single[e.id][0]
        return e if isinstance(e, ast.Tuple) else None
    apps = [_tuple_of(c.args[0]) for c in own_nodes(fn) if isinstance(c, ast.Call) and isinstance(c.func, ast.Attribute) and c.func.attr == 'append' and len(c.args) == 1
            and isinstance(c.func.value, ast.Subscript) and _tuple_of(c.args[0]) is not None and any(isinstance(x, ast.Call) and ast.unparse(x.func) == 'int' for x in ast.walk(_tuple_of(c.args[0])))]
    hetero = set()
    width = None
    for tup in apps[:1]:
        width = len(tup.elts)
        for k, e in enumerate(tup.elts):
            if isinstance(e, ast.Name) and kinds.get(e.id, set()) >= {'none', 'value'}:
                hetero.add(k)
    sorts = [c for c in own_nodes(fn) if isinstance(c, ast.Call) and ((isinstance(c.func, ast.Name) and c.func.id == 'sorted') or (isinstance(c.func, ast.Attribute) and c.func.attr == 'sort'))]
    what = 'the sites of a chromosome are ordered by position with a comparison that is defined for every pair (additional info is None or a str)'
    if width is None or len(sorts) != 1:
        rep.ob('R-CMP', 'fragment_data_dict site order', False, 'the per-chromosome list of (position, info) tuples or its single sort was not found', m.rel, fn.lineno, what=what)
        return
    c = sorts[0]
    key = next((k.value for k in c.keywords if k.arg == 'key'), None)
    if any(k.arg not in ('key',) for k in c.keywords):
        rep.ob('R-CMP', 'fragment_data_dict site order', False, 'sort `%s` not recognised' % ast.unparse(c)[:80], m.rel, c.lineno, what=what)
        return
    if key is None:
        ok = not hetero
        det = 'default tuple order; no component is None on one path and a value on another' if ok else \
            'default tuple order compares component %s, which is None for sites without additional info and a str for sites with it: a site present in both forms raises TypeError' % sorted(hetero)
        rep.ob('R-CMP', 'fragment_data_dict site order', ok, det, m.rel, c.lineno, what=what)
        return
    if not (isinstance(key, ast.Lambda) and len(key.args.args) == 1):
        rep.ob('R-CMP', 'fragment_data_dict site order', False, 'sort key `%s` not recognised' % ast.unparse(key)[:80], m.rel, c.lineno, what=what)
        return
    a = key.args.args[0].arg
    comps = key.body.elts if isinstance(key.body, ast.Tuple) else [key.body]
    texts = [ast.unparse(x) for x in comps]
    first_ok = texts[0] == '%s[0]' % a
    bare = [t for t in texts[1:] if re.fullmatch(r'%s\[(\d+)\]' % a, t) and int(re.fullmatch(r'%s\[(\d+)\]' % a, t).group(1)) in hetero]
    safe_forms = lambda t: any(re.fullmatch(rx % {'a': a}, t) for rx in (
        r'%(a)s\[\d+\]', r'%(a)s\[\d+\] is not None', r'%(a)s\[\d+\] is None', r"%(a)s\[\d+\] or ''", r'str\(%(a)s\[\d+\]\)',
        r"'' if %(a)s\[\d+\] is None else %(a)s\[\d+\]", r"%(a)s\[\d+\] if %(a)s\[\d+\] is not None else ''", r"%(a)s\[\d+\] if %(a)s\[\d+\] else ''"))
    if not all(safe_forms(t) for t in texts):
        rep.ob('R-CMP', 'fragment_data_dict site order', False, 'sort key `%s` not recognised' % ast.unparse(key)[:100], m.rel, c.lineno, what=what)
        return
    ok = first_ok and not bare
    det = 'key %s: position first, the None/str component only through is-None tests or with a str default' % ast.unparse(key.body)
    if not first_ok:
        det = 'key %s does not order by position first: sites are visited out of position order, so chunks interleave and span more than chunk_size' % ast.unparse(key.body)
    elif bare:
        det = 'key %s still compares %s, which is None or a str' % (ast.unparse(key.body), bare[0])
    rep.ob('R-CMP', 'fragment_data_dict site order', ok, det, m.rel, c.lineno, what=what)


def check_fragment(rep, prog):
    _check_fragment_templates(rep, prog)
    check_sort_comparability(rep, prog)
    # bounded interpretation of the chunker on a finite domain of dictionaries: this RUNS the function (in the checker's interpreter), so
    # it is not a static decision and never changes the verdict; it is recorded as a cross-check of the static rules above
    verdict = None
    try:
        verdict = fragment_domain_verdict(prog)
    except Exception:
        verdict = None
    static_ok = not any((not o.ok) and 'fragment_data_dict' in o.construct for o in rep.obls)
    rep.extra['fragment_bounded_interpretation_crosscheck'] = {
        'status': 'not executable' if verdict is None else ('agrees' if verdict[0] == static_ok else 'disagrees'),
        'detail': None if verdict is None else verdict[1], 'worlds': None if verdict is None else verdict[2], 'decides': False}
    if verdict is not None and verdict[0] != static_ok:
        print('CROSS-CHECK (informational, not a static decision) fragment_data_dict: static rules say %s, bounded interpretation says: %s'
              % ('held' if static_ok else 'violated', verdict[1]))
    check_bootstraps(rep, prog)


def _check_fragment_templates(rep, prog):
    m = prog.mod(MISC)
    fn = prog.func(MISC, 'fragment_data_dict')
    rep.saw_function(m.rel + ':fragment_data_dict')
    t = ast.unparse(fn)
    # parser
    okp = has(t, "chrname, position = ('_'.join(k.split('_')[:-1]), k.split('_')[-1])") and has(t, "position, add_info = position.split('.', 1)") and \
        has(t, "ndd[chrname].append((int(position), add_info))") and (has(t, "if not '.' in position:\n    add_info = None") or has(t, "if '.' not in position:\n    add_info = None"))
    if not okp:
        # the same parser with the split kept in a local
        from sa.extract import single_assignments as _sa3, inline as _inl3
        sing_f = _sa3(fn)
        for n in own_nodes(fn):
            if isinstance(n, ast.Assign) and len(n.targets) == 1 and isinstance(n.targets[0], ast.Tuple) and isinstance(n.value, ast.Tuple) and len(n.value.elts) == 2 and len(n.targets[0].elts) == 2:
                a_, b_ = [ast.unparse(_inl3(x, sing_f)) for x in n.value.elts]
                mk = re.fullmatch(r"'_'\.join\((\w+)\.split\('_'\)\[:-1\]\)", a_)
                if mk and b_ == "%s.split('_')[-1]" % mk.group(1):
                    cn, pn_ = [ast.unparse(x) for x in n.targets[0].elts]
                    okp = has(t, "%s, add_info = %s.split('.', 1)" % (pn_, pn_)) and has(t, "ndd[%s].append((int(%s), add_info))" % (cn, pn_)) and \
                        (has(t, "if not '.' in %s:\n    add_info = None" % pn_) or has(t, "if '.' not in %s:\n    add_info = None" % pn_) or
                         has(t, "if '.' in %s:\n    %s, add_info = %s.split('.', 1)\nelse:\n    add_info = None" % (pn_, pn_, pn_)))
    parser_found = any(isinstance(c, ast.Call) and isinstance(c.func, ast.Attribute) and c.func.attr == 'join' and isinstance(c.func.value, ast.Constant) and c.func.value.value == '_' for c in own_nodes(fn))
    rep.ob('R-TPL', 'fragment_data_dict key parser', okp, "chromosome = everything before the last '_'; position[.info] after it, info split at the first '.'" + ('' if okp or parser_found else ' (parser not found)'), m.rel, fn.lineno,
           what="keys are parsed as chromosome_position[.info] with '_' and '.' allowed in the chromosome name")
    # printer (inverse)
    fmts = [c for c in own_nodes(fn) if isinstance(c, ast.Call) and isinstance(c.func, ast.Attribute) and c.func.attr == 'format' and isinstance(c.func.value, ast.Constant)]
    got = sorted((c.func.value.value, tuple(ast.unparse(a) for a in c.args)) for c in fmts)
    okf = got == [('{0}_{1}', ('chrname', 'pos')), ('{0}_{1}.{2}', ('chrname', 'pos', 'add_info'))]
    guard = [n for n in own_nodes(fn) if isinstance(n, ast.If) and ast.unparse(n.test) == 'not add_info']
    okf = okf and len(guard) == 1 and '{0}_{1}' == [c.func.value.value for c in ast.walk(guard[0].body[0]) if isinstance(c, ast.Call) and isinstance(c.func, ast.Attribute) and c.func.attr == 'format'][0]
    rep.ob('R-TPL', 'fragment_data_dict key printer', okf, 'formats %s%s' % (got, '' if guard or okf else ' (the choice between the two formats was not found)'), m.rel, fn.lineno,
           what='the key is rebuilt with the separators the parser split at (inverse of the parser)')
    okv = has(t, 'new_dds[-1][key] = dd[key]')
    rep.ob('R-FLOW', 'fragment_data_dict values', okv, 'new_dds[-1][key] = dd[key]' + ('' if okv else ' not found'), m.rel, fn.lineno, what='each SNP record is copied under its own key')
    # exactly once + chunk index pairing
    fl = [n for n in own_nodes(fn) if isinstance(n, ast.For) and ast.unparse(n.iter) == 'positions']
    ok1 = False
    det = ''
    if len(fl) == 1:
        body = fl[0].body
        apps = [s for s in body if isinstance(s, ast.Expr) and ast.unparse(s.value) == 'chunks_dict[chrname][chunk_index].append((p, add_info))']
        wh = [s for s in body if isinstance(s, ast.While)]
        nested_apps = [c for s in body if not isinstance(s, ast.Expr) for c in ast.walk(s) if isinstance(c, ast.Call) and 'append((p' in ast.unparse(c)]
        ok1 = len(apps) == 1 and body[-1] is apps[0] and not nested_apps and len(wh) == 1 and ast.unparse(wh[0].test) == 'p > end' and \
            sorted(ast.unparse(s) for s in wh[0].body) == ['chunk_index += 1', 'chunks_dict[chrname].append([])', 'end += chunk_size'] and \
            not any(isinstance(x, (ast.Break, ast.Continue, ast.Return)) for s in body for x in ast.walk(s))
        det = 'one unconditional append per position after `while p > end` has advanced (end, chunk_index, chunk list) together'
    outer = [n for n in own_nodes(fn) if isinstance(n, ast.For) and ast.unparse(n.iter) == 'ndd.keys()']
    def _head(s_):
        # the sort may carry a key (None and str do not compare); whether the order it gives is the position order is decided by
        # check_sort_comparability (R-CMP)
        if isinstance(s_, ast.Assign) and isinstance(s_.value, ast.Call) and ast.unparse(s_.value.func) == 'sorted' and len(s_.value.args) == 1 and \
                [k_.arg for k_ in s_.value.keywords] in ([], ['key']):
            return '%s = sorted(%s)' % (ast.unparse(s_.targets[0]), ast.unparse(s_.value.args[0]))
        return ast.unparse(s_)
    ok0 = len(outer) == 1 and sorted(_head(s) for s in outer[0].body[:4]) == sorted(['positions = sorted(ndd[chrname])', 'end = chunk_size', 'chunk_index = 0', 'chunks_dict[chrname].append([])'])
    if ok1 and not ok0:
        det = 'preparation of the position loop not recognised'
    rep.ob('R-PAIR', 'fragment_data_dict chunk assignment', ok1 and ok0, det or 'position loop not recognised', m.rel, fn.lineno,
           what='every SNP lands in exactly one chunk; the chunk index always points at the last chunk created; positions are visited in sorted order')
    okr = has(t, 'for (chrname, chunks) in chunks_dict.items():') and has(t, 'for pos_list in chunks:') and has(t, 'new_dds.append({})') and \
        has(t, 'for pos, add_info in pos_list:') and flat(t).endswith(flat('return new_dds'))
    rep.ob('R-FLOW', 'fragment_data_dict output', okr, 'one dictionary per chunk, all chunks of all chromosomes' + ('' if okr else ' (output loops not recognised)'), m.rel, fn.lineno,
           what='the chunk dictionaries partition the input')


def check_bootstraps(rep, prog):
    m = prog.mod(MISC)
    bf = prog.func(MISC, 'bootstraps_from_dd_chunks')
    rep.saw_function(m.rel + ':bootstraps_from_dd_chunks')
    tb = ast.unparse(bf)
    # the draw: random.choices(<the chunk spectra>, k=<their number>), summed with reduce(operator.add, .), once per bootstrap
    from sa.extract import single_assignments as _sa2, inline as _inl2
    sing_b = _sa2(bf)
    okb = False
    draws = [c for c in own_nodes(bf) if isinstance(c, ast.Call) and dotted(c.func) == 'random.choices']
    if len(draws) == 1 and draws[0].args and isinstance(draws[0].args[0], ast.Name):
        S_ = draws[0].args[0].id
        kk = {k.arg: k.value for k in draws[0].keywords}.get('k')
        lc = sing_b.get(S_)
        src_ok = isinstance(lc, ast.ListComp) and len(lc.generators) == 1 and not lc.generators[0].ifs and isinstance(lc.generators[0].target, ast.Name) and ast.unparse(lc.generators[0].iter) == 'fragments' \
            and ast.unparse(lc.elt) == 'Spectrum.from_data_dict(%s, pop_ids, projections, mask_corners, polarized)' % lc.generators[0].target.id
        if isinstance(kk, ast.Name) and kk.id in sing_b:
            kk = sing_b[kk.id]
        k_ok = kk is not None and ast.unparse(kk) == 'len(%s)' % S_
        # summed
        summed = False
        rep_ = False
        node = draws[0]
        par = getattr(node, '_parent', None)
        if isinstance(par, ast.Assign) and len(par.targets) == 1 and isinstance(par.targets[0], ast.Name):
            tmp = par.targets[0].id
            uses = [c for c in own_nodes(bf) if isinstance(c, ast.Call) and dotted(c.func) == 'functools.reduce' and len(c.args) == 2 and ast.unparse(c.args[0]) == 'operator.add' and ast.unparse(c.args[1]) == tmp]
            summed = len(uses) == 1
            node = uses[0] if uses else node
        elif isinstance(par, ast.Call) and dotted(par.func) == 'functools.reduce' and len(par.args) == 2 and ast.unparse(par.args[0]) == 'operator.add' and par.args[1] is node:
            summed = True
            node = par
        # once per bootstrap: inside a loop / comprehension over range(Nboot)
        p_ = node
        while p_ is not None and p_ is not bf:
            p_ = getattr(p_, '_parent', None)
            if isinstance(p_, ast.For) and ast.unparse(p_.iter) == 'range(Nboot)':
                rep_ = True
            if isinstance(p_, (ast.ListComp, ast.GeneratorExp)) and len(p_.generators) == 1 and ast.unparse(p_.generators[0].iter) == 'range(Nboot)':
                rep_ = True
        okb = src_ok and k_ok and summed and rep_
    fdp = func_params(prog.func(SM, 'Spectrum.from_data_dict'))
    okb = okb and fdp[:5] == ['data_dict', 'pop_ids', 'projections', 'mask_corners', 'polarized']
    rep.ob('R-TPL', 'bootstraps_from_dd_chunks resampling', okb, 'Nboot times: len(spectra) chunk spectra drawn with replacement and added', m.rel, bf.lineno,
           what='a bootstrap is the sum of as many chunk spectra as there are chunks')
    okw = has(tb, "Spectrum(_, mask_corners=mask_corners, data_folded=not polarized, pop_ids=pop_ids)")
    rep.ob('R-TPL', 'bootstraps_from_dd_chunks wrapping', okw, 'bootstraps carry folding status and labels', m.rel, bf.lineno, what='folded iff unpolarised; population labels kept')
    bs = prog.func(MISC, 'bootstraps_subsample_vcf')
    ts = ast.unparse(bs)
    oks = has(ts, 'projections = [subsample[pop] * 2 for pop in pop_ids]') and has(ts, 'fragments = fragment_data_dict(dd, chunk_size)') and \
        has(ts, 'bootstraps_from_dd_chunks(fragments, 1, pop_ids, projections, mask_corners, polarized)[0]') and has(ts, 'subsample=subsample')
    rep.ob('R-TPL', 'bootstraps_subsample_vcf', oks, 'a fresh subsample per bootstrap, projections = 2*individuals', m.rel, bs.lineno, what='projection equals the subsampled chromosome number (no further projection)')


# ---------------------------------------------------------------------------------------------------------------------
def check_parsers(rep, prog):
    m = prog.mod(MISC)
    fn = prog.func(MISC, 'make_data_dict_vcf')
    rep.saw_function(m.rel + ':make_data_dict_vcf')
    t = ast.unparse(fn)
    # allele order == call order: role flow (sa/roles.py) - which columns / which genotype counts reach which position of what is stored
    from sa import roles as RF

    def is_split_line(e):
        return isinstance(e, ast.Call) and isinstance(e.func, ast.Attribute) and e.func.attr == 'split' and \
            (len(e.args) == 0 or (len(e.args) == 1 and isinstance(e.args[0], ast.Constant) and e.args[0].value in ('\t', None)))

    def vcf_source(e, ev):
        if isinstance(e, ast.Call) and isinstance(e.func, ast.Attribute) and e.func.attr == 'count' and len(e.args) == 1 and isinstance(e.args[0], ast.Constant) and e.args[0].value in ('0', '1'):
            return {'count of 0'} if e.args[0].value == '0' else {'count of 1'}
        if is_split_line(e):
            return {'FIELDS'}
        if isinstance(e, ast.Subscript):
            bv = ev(e.value)
            if isinstance(bv, RF.S) and bv.roles == {'FIELDS'}:
                sl = e.slice
                if isinstance(sl, ast.Constant) and isinstance(sl.value, int) and not isinstance(sl.value, bool) and sl.value >= 0:
                    return {'column %d' % sl.value}
                if isinstance(sl, ast.Slice) and sl.step is None and all(isinstance(x_, ast.Constant) and isinstance(x_.value, int) and x_.value >= 0 for x_ in (sl.lower, sl.upper)) and \
                        0 < sl.upper.value - sl.lower.value <= 8:
                    return RF.T([RF.S({'column %d' % k}) for k in range(sl.lower.value, sl.upper.value)])
        return None
    rf = RF.RoleFlow(fn, vcf_source).run()
    seg = RF.stored_under(rf, 'segregating')
    calls = RF.elements_stored_under(rf, 'calls')
    want_seg = RF.T([RF.S({'column 3'}), RF.S({'column 4'})])
    want_calls = RF.T([RF.S({'count of 0'}), RF.S({'count of 1'})])
    oko = seg == want_seg and calls == want_calls
    deto = "segregating = (REF column, ALT column); calls = (count of '0', count of '1') on every path that stores them"
    unrec = False
    if not oko:
        known = {'column 3', 'column 4', 'count of 0', 'count of 1'}
        got = (RF.flat(seg) if seg is not None else set()) | (RF.flat(calls) if calls is not None else set())
        if seg is None or calls is None or not isinstance(seg, RF.T) or not isinstance(calls, RF.T) or not (got & known):
            unrec = True
            deto = 'genotype counting statements not found in the form the rule follows (segregating %s, calls %s)' % (seg, calls)
        else:
            deto = 'segregating holds %s, calls hold %s: exchanged or mixed positions' % (seg, calls)
    rep.ob('R-IDX', 'make_data_dict_vcf allele order', oko, deto, m.rel, fn.lineno, what="calls are stored in the order of 'segregating'")
    # ---- outgroup allele and line filters, by meaning -----------------------------------------------------------------
    # the loop over data lines: the for statement whose body stores the record of one SNP
    line_loops = [n for n in own_nodes(fn) if isinstance(n, ast.For) and any(
        isinstance(x, ast.Assign) and isinstance(x.targets[0], ast.Subscript) and isinstance(x.targets[0].slice, ast.Constant) and x.targets[0].slice.value == 'segregating' for x in ast.walk(n))]
    line_loop = line_loops[0] if len(line_loops) == 1 else None

    def roles_of(e):
        return RF.flat(rf.ev(e))

    def pred_value(test, world):
        """truth of a boolean expression when the names / subscripts that carry exactly one column role have the world's string for that
        column and boolean parameters have the world's flag; None when something else is read"""
        def val(e):
            if isinstance(e, ast.Constant):
                return ('v', e.value)
            if isinstance(e, ast.Name) and e.id in world.get('flags', {}):
                return ('v', world['flags'][e.id])
            if isinstance(e, (ast.Name, ast.Subscript, ast.Call, ast.Attribute)):
                r = roles_of(e)
                if len(r) == 1 and list(r)[0] in world['cols']:
                    # the value as the code sees it (after its own case folding); transformations other than case are not followed
                    return ('v', world['cols'][list(r)[0]])
            if isinstance(e, (ast.List, ast.Tuple, ast.Set)):
                items = [val(x) for x in e.elts]
                if all(i is not None for i in items):
                    return ('v', [i[1] for i in items])
                return None
            if isinstance(e, ast.Call) and isinstance(e.func, ast.Name) and e.func.id in ('set', 'frozenset', 'list', 'tuple') and len(e.args) == 1:
                a_ = val(e.args[0])
                return ('v', list(a_[1])) if a_ is not None and isinstance(a_[1], (str, list)) else None
            return None

        def tr(e):
            if isinstance(e, ast.BoolOp):
                vs = [tr(v) for v in e.values]
                if None in vs:
                    return None
                return all(vs) if isinstance(e.op, ast.And) else any(vs)
            if isinstance(e, ast.UnaryOp) and isinstance(e.op, ast.Not):
                v = tr(e.operand)
                return None if v is None else not v
            if isinstance(e, ast.Compare):
                left = val(e.left)
                res = True
                for op, c in zip(e.ops, e.comparators):
                    right = val(c)
                    if left is None or right is None:
                        return None
                    l_, r_ = left[1], right[1]
                    try:
                        if isinstance(op, ast.In):
                            ok_ = l_ in r_
                        elif isinstance(op, ast.NotIn):
                            ok_ = l_ not in r_
                        elif isinstance(op, ast.Eq):
                            ok_ = l_ == r_
                        elif isinstance(op, ast.NotEq):
                            ok_ = l_ != r_
                        else:
                            return None
                    except TypeError:
                        return None
                    res = res and ok_
                    left = right
                return res
            v = val(e)
            if v is not None and isinstance(v[1], bool):
                return v[1]
            return None
        return tr(test)

    BASES = ['A', 'C', 'G', 'T']
    ALLELES = ['A', 'C', 'G', 'T', 'N', '*', '.', '', 'AC', 'CG', 'AT', 'ACGT', 'GA']      # single bases, other symbols, contiguous and other multi-base strings

    def skip_guards(loop):
        """top-level `if test: continue` statements of the loop body that precede the first store of the record, with the position of
        that store"""
        out, first_store = [], None
        for i, st in enumerate(loop.body):
            if first_store is None and any(isinstance(x, ast.Assign) and isinstance(x.targets[0], ast.Subscript) and isinstance(x.targets[0].slice, ast.Constant) and
                                           x.targets[0].slice.value in ('segregating', 'calls', 'outgroup_allele', 'context') for x in ast.walk(st)):
                first_store = i
            if isinstance(st, ast.If) and not st.orelse and st.body and isinstance(st.body[-1], ast.Continue) and len(st.body) == 1:
                out.append((i, st))
        return out, first_store
    okf, detf, unrecf = False, 'line loop not found', True
    if line_loop is not None:
        guards, first_store = skip_guards(line_loop)
        early = [g for i, g in guards if first_store is None or i < first_store]
        late = [g for i, g in guards if first_store is not None and i >= first_store and roles_of(g.test) & {'column 3', 'column 4', 'column 6'}]
        allele_g = [g for g in early if roles_of(g.test) and roles_of(g.test) <= {'column 3', 'column 4'}]
        filter_g = [g for g in early if roles_of(g.test) == {'column 6'}]
        problems = []
        unrecf = False
        if late:
            problems.append('a line is rejected after part of its record was stored (`if %s`)' % ast.unparse(late[0].test)[:60])
        if not allele_g or not filter_g:
            unrecf = True
            detf = 'filter guards not found in the form the rule follows (%d on the alleles, %d on the FILTER column)' % (len(allele_g), len(filter_g))
        else:
            bad = []
            for r_ in ALLELES:
                for a_ in ALLELES:
                    vs = [pred_value(g.test, {'cols': {'column 3': r_, 'column 4': a_}}) for g in allele_g]
                    if None in vs:
                        unrecf = True
                        break
                    v = any(vs)
                    if v != (r_ not in BASES or a_ not in BASES):
                        bad.append((r_, a_))
                if unrecf:
                    break
            if bad:
                problems.append('alleles %s are %s' % (', '.join('%s/%s' % (x or "''", y or "''") for x, y in bad[:4]), 'stored' if (bad[0][0] not in BASES or bad[0][1] not in BASES) else 'rejected'))
            badf = []
            for flag in (True, False):
                for fv in ('PASS', '.', 'q10', 'LowQual', '', 'PASS;q10', 'pass'):
                    vs = [pred_value(g.test, {'cols': {'column 6': fv}, 'flags': {'filter': flag}}) for g in filter_g]
                    if None in vs:
                        unrecf = True
                        break
                    v = any(vs)
                    if v != (flag and fv not in ('PASS', '.')):
                        badf.append((flag, fv))
            if badf:
                problems.append('FILTER value %r with filter=%s is %s' % (badf[0][1], badf[0][0], 'rejected' if not (badf[0][0] and badf[0][1] not in ('PASS', '.')) else 'stored'))
            if unrecf and not problems:
                detf = 'filter tests not evaluable on the allele / FILTER worlds (they read something else)'
        okf = not problems and not unrecf
        if problems:
            detf, unrecf = '; '.join(problems), False
        elif okf:
            detf = 'a line is skipped, before anything of it is stored, exactly when filter is set and FILTER is neither PASS nor ., or when REF or ALT is not one of A C G T (%d allele pairs, 14 filter worlds)' % (len(ALLELES) ** 2)
    rep.ob('R-DOM', 'make_data_dict_vcf filters', okf, detf, m.rel, fn.lineno, what='only biallelic single-base SNPs that pass the filter are stored')

    # outgroup allele: where it comes from, that it belongs to this line, and which values are kept
    og = RF.stored_under(rf, 'outgroup_allele')
    okg, detg = False, 'store of the outgroup allele not found'
    if line_loop is not None and og is not None:
        problems, unrecg = [], False
        if not (isinstance(og, RF.S) and og.roles == {'column 7'}):
            if not RF.flat(og):
                unrecg = True
            else:
                problems.append('the stored outgroup allele is made of %s' % og)
        # (a) this line's value: the name stored is assigned on every path of the iteration before the store
        from sa.generic import DefAnalysis
        from sa.flow import Engine
        stores_og = [x for x in ast.walk(line_loop) if isinstance(x, ast.Assign) and isinstance(x.targets[0], ast.Subscript) and isinstance(x.targets[0].slice, ast.Constant) and x.targets[0].slice.value == 'outgroup_allele']
        assigned_in_loop = {n.id for st_ in line_loop.body for n in ast.walk(st_) if isinstance(n, ast.Name) and isinstance(n.ctx, ast.Store)} | \
            {n.id for n in ast.walk(line_loop.target) if isinstance(n, ast.Name)}
        body_fn = ast.FunctionDef(name='_iteration', args=ast.arguments(posonlyargs=[], args=[], kwonlyargs=[], kw_defaults=[], defaults=[]), body=list(line_loop.body), decorator_list=[], lineno=line_loop.lineno, col_offset=0)

        class Fresh(DefAnalysis):
            def __init__(self, f_):
                DefAnalysis.__init__(self, f_, True)
                self.stale = set()

            def initial(self):
                from sa.generic import DefState
                return DefState(frozenset({n.id for n in ast.walk(line_loop.target) if isinstance(n, ast.Name)}), frozenset())

            def assign(self, target, value, s, st):
                if isinstance(target, ast.Subscript) and isinstance(target.slice, ast.Constant) and target.slice.value == 'outgroup_allele' and value is not None:
                    for n in ast.walk(value):
                        if isinstance(n, ast.Name) and isinstance(n.ctx, ast.Load) and n.id in assigned_in_loop and n.id not in s.d:
                            self.stale.add(n.id)
                return DefAnalysis.assign(self, target, value, s, st)
        try:
            fa = Fresh(body_fn)
            Engine(fa).run_function(body_fn, fa.initial())
            if fa.stale:
                problems.append('`%s` may still hold the value of an earlier line when it is stored (some path through the iteration leaves it unassigned)' % sorted(fa.stale)[0])
        except Exception as e_:
            unrecg = True
            detg = 'iteration not analysable: %s' % e_
        # (b) which values are kept: tests on the outgroup allele keep exactly the single bases
        og_names = {n.id for x in stores_og for n in ast.walk(x.value) if isinstance(n, ast.Name)}
        tests = [x for x in ast.walk(line_loop) if isinstance(x, ast.If) and roles_of(x.test) == {'column 7'} and any(isinstance(c, (ast.In, ast.NotIn)) for n_ in ast.walk(x.test) if isinstance(n_, ast.Compare) for c in n_.ops) and
                 og_names & {n.id for n in ast.walk(x.test) if isinstance(n, ast.Name)}]
        if len(tests) == 1:
            badb = []
            for v_ in ALLELES + ['a', 'N|N']:
                got = pred_value(tests[0].test, {'cols': {'column 7': v_}})
                if got is None:
                    unrecg = True
                    break
                # the body of the test replaces the value by '-' (not kept)
                if got != (v_ not in BASES):
                    badb.append(v_)
            replaced = any(isinstance(x, ast.Assign) and isinstance(x.value, ast.Constant) and x.value.value == '-' for x in tests[0].body)
            if badb and replaced:
                problems.append('ancestral allele %r is %s' % (badb[0], 'kept' if badb[0] not in BASES else 'dropped'))
            elif not replaced:
                unrecg = True
        else:
            unrecg = True
        # (c) the INFO keys are matched whole: every prefix tested on a field ends with '='
        prefixes = [c.args[0].value for c in ast.walk(line_loop) if isinstance(c, ast.Call) and isinstance(c.func, ast.Attribute) and c.func.attr == 'startswith' and len(c.args) == 1 and
                    isinstance(c.args[0], ast.Constant) and isinstance(c.args[0].value, str) and c.args[0].value.startswith('AA')]
        if prefixes and any(not p_.endswith('=') for p_ in prefixes):
            problems.append('INFO key prefix %r also matches longer keys' % [p_ for p_ in prefixes if not p_.endswith('=')][0])
        if 'AA=' not in prefixes:
            unrecg = True
        okg = not problems and not unrecg
        detg = '; '.join(problems) if problems else ("outgroup allele from the AA= field of this line's INFO column, '-' when absent or not a single base" if okg else
                                                    'outgroup handling not found in the form the rule follows')
    rep.ob('R-DEF', 'make_data_dict_vcf outgroup', okg, detg, m.rel, fn.lineno,
           what="every SNP gets an outgroup allele of its own line ('-' when missing), never the previous line's")
    # sample columns are paired with their populations position by position: whatever is zipped with the sample columns of a data line
    # has exactly one entry per sample column of the header
    def is_sample_slice(e):
        return isinstance(e, ast.Subscript) and isinstance(e.slice, ast.Slice) and isinstance(e.slice.lower, ast.Constant) and e.slice.lower.value == 9 and e.slice.upper is None and \
            e.slice.step is None and roles_of(e.value) == {'FIELDS'}
    zips = [c for c in ast.walk(fn) if isinstance(c, ast.Call) and isinstance(c.func, ast.Name) and c.func.id == 'zip' and len(c.args) == 2 and any(is_sample_slice(a) for a in c.args)]
    okz, detz = bool(zips), 'no zip over the sample columns found'
    wrongz = []
    for z in zips:
        other = [a for a in z.args if not is_sample_slice(a)]
        if len(other) != 1 or not isinstance(other[0], ast.Name):
            okz, detz = False, 'the sequence paired with the sample columns is not a plain list variable: not recognised'
            continue
        nm_ = other[0].id
        defs = [x for x in ast.walk(fn) if isinstance(x, (ast.Assign, ast.AugAssign)) and any(isinstance(t_, ast.Name) and t_.id == nm_ for t_ in (x.targets if isinstance(x, ast.Assign) else [x.target]))]
        muts = [c for c in ast.walk(fn) if isinstance(c, ast.Call) and isinstance(c.func, ast.Attribute) and isinstance(c.func.value, ast.Name) and c.func.value.id == nm_ and
                c.func.attr in ('append', 'remove', 'pop', 'insert', 'extend', 'clear', 'sort', 'reverse')]
        for d_ in defs:
            v_ = d_.value
            aligned = isinstance(d_, ast.Assign) and isinstance(v_, ast.ListComp) and len(v_.generators) == 1 and not v_.generators[0].ifs and is_sample_slice(v_.generators[0].iter)
            if aligned:
                continue
            okz = False
            if isinstance(v_, (ast.ListComp, ast.GeneratorExp)) and any(g.ifs for g in v_.generators) or (isinstance(v_, ast.Call) and isinstance(v_.func, ast.Name) and v_.func.id == 'filter'):
                wrongz.append('`%s` keeps only some entries of %s: it no longer has one entry per sample column (line %d)' % (ast.unparse(v_)[:60], nm_, d_.lineno))
            else:
                detz = 'definition of %s not found in the form the rule follows' % nm_
        for c in muts:
            okz = False
            if c.func.attr in ('remove', 'pop', 'clear', 'sort', 'reverse'):
                wrongz.append('%s.%s(...) changes which entry belongs to which sample column (line %d)' % (nm_, c.func.attr, c.lineno))
            else:
                detz = 'definition of %s not found in the form the rule follows' % nm_
        if not defs:
            okz, detz = False, 'definition of %s not found' % nm_
    rep.ob('R-PAIR', 'make_data_dict_vcf sample columns', okz, '; '.join(wrongz) if wrongz else ('the population list zipped with the sample columns is built with one entry per header sample column and never filtered or reordered' if okz else detz),
           m.rel, fn.lineno, what='the i-th sample column is counted for the population of the i-th sample of the header')
    # subsampling
    loops = [n for n in own_nodes(fn) if isinstance(n, ast.For) and ast.unparse(n.iter) == 'subsample_dict.items()']
    oks = False
    det = 'subsampling loop not found'
    if len(loops) == 1:
        lp = loops[0]
        brk = [n for n in lp.body if isinstance(n, ast.If) and any(isinstance(x, ast.Break) for x in n.body)]
        ch = [c for c in ast.walk(lp) if isinstance(c, ast.Call) and dotted(c.func) == 'numpy.random.choice']
        stores_else = [ast.unparse(s) for s in lp.orelse]
        stores_all = [s for s in own_nodes(fn) if isinstance(s, ast.Assign) and ast.unparse(s.targets[0]) == 'data_dict[snp_id]']
        in_else = [s for s in stores_all if any(s is x or any(s is y for y in ast.walk(x)) for x in lp.orelse)]
        # the if do_subsampling arm must not contain another store
        arm = lp._parent if hasattr(lp, '_parent') else None
        arm_stores = [s for s in stores_all if arm is not None and isinstance(arm, ast.If) and any(s is y for x in arm.body for y in ast.walk(x))]
        oks = len(brk) == 1 and ast.unparse(brk[0].test) == 'len(genotypes) < subsample[pop]' and len(ch) == 1 and \
            ast.unparse(ch[0].args[1]) == 'subsample[pop]' and any(k.arg == 'replace' and ast.unparse(k.value) == 'False' for k in ch[0].keywords) and \
            ast.unparse(ch[0].args[0]) in ('[i for i in range(0, len(genotypes))]', '[i for i in range(len(genotypes))]', 'range(len(genotypes))', 'len(genotypes)', 'list(range(len(genotypes)))',
                                           'list(range(0, len(genotypes)))', 'numpy.arange(len(genotypes))') and \
            len(in_else) == 1 and arm_stores == in_else and "snp_dict['calls'] = calls_dict" in stores_else and \
            lp.body.index(brk[0]) < [i for i, s in enumerate(lp.body) if any(c is ch[0] for c in ast.walk(s))][0]
        det = 'choice(range(len(genotypes)), subsample[pop], replace=False) after `if len(genotypes) < subsample[pop]: break`; SNP stored in the for/else only'
        idxl = [n for n in lp.body if isinstance(n, ast.For) and ast.unparse(n.iter) == 'idx']
        # the drawn individuals are read from the list the draw was made over (the loop target of subsample_dict.items() or the entry itself)
        gname = lp.target.elts[1].id if isinstance(lp.target, ast.Tuple) and len(lp.target.elts) == 2 and isinstance(lp.target.elts[1], ast.Name) else 'genotypes'
        reads = [ast.unparse(x) for l_ in idxl for x in ast.walk(l_) if isinstance(x, ast.Subscript) and ast.unparse(x.slice) == 'ii']
        oks = oks and len(idxl) == 1 and any(r_ in ('subsample_dict[pop][ii]', '%s[ii]' % gname) for r_ in reads)
    if not oks and len(loops) == 1:
        # recognisably wrong (FAILED) or merely written differently (not recognised)
        wrong = []
        ch_ = [c for c in ast.walk(loops[0]) if isinstance(c, ast.Call) and (dotted(c.func) or '').endswith('random.choice')]
        for c in ch_:
            rk = [k for k in c.keywords if k.arg == 'replace']
            if not rk or not (isinstance(rk[0].value, ast.Constant) and rk[0].value.value is False):
                wrong.append('individuals are drawn with replacement (`%s`)' % ast.unparse(c)[:70])
            if len(c.args) >= 2 and not ('subsample' in {n.id for n in ast.walk(c.args[1]) if isinstance(n, ast.Name)}):
                wrong.append('the number drawn is `%s`' % ast.unparse(c.args[1])[:40])
        for b_ in [n for n in loops[0].body if isinstance(n, ast.If) and any(isinstance(x, ast.Break) for x in n.body)]:
            t_ = b_.test
            if isinstance(t_, ast.Compare) and len(t_.ops) == 1:
                l_, r_ = ast.unparse(t_.left), ast.unparse(t_.comparators[0])
                is_len = lambda x: x.startswith('len(')
                is_need = lambda x: x.startswith('subsample[')
                if (is_len(l_) and is_need(r_) and not isinstance(t_.ops[0], ast.Lt)) or (is_need(l_) and is_len(r_) and not isinstance(t_.ops[0], ast.Gt)):
                    wrong.append('SNPs are dropped when `%s`' % ast.unparse(t_))
        det = '; '.join(wrong) if wrong else 'subsampling loop not found in the form the rule follows'
    rep.ob('R-DOM', 'make_data_dict_vcf subsampling', oks, det, m.rel, fn.lineno,
           what='exactly subsample[pop] distinct individuals per population and SNP; SNPs with too few calls in any population are dropped')
    # SNP-file parser
    f2 = prog.func(MISC, 'make_data_dict')
    rep.saw_function(m.rel + ':make_data_dict')

    def snp_source(e, ev):
        if isinstance(e, ast.Call) and isinstance(e.func, ast.Attribute) and e.func.attr == 'index' and len(e.args) == 1 and isinstance(e.args[0], ast.Constant) and e.args[0].value == 'Allele2':
            return {'A2'}
        if is_split_line(e):
            return {'FIELDS'}
        if isinstance(e, ast.Subscript):
            bv = ev(e.value)
            sl = e.slice
            if isinstance(bv, RF.S) and bv.roles == {'FIELDS'}:
                if isinstance(sl, ast.Slice):
                    if sl.step is None and isinstance(sl.lower, ast.Constant) and sl.upper is not None and RF.flat(ev(sl.upper)) == {'A2'} and isinstance(sl.upper, ast.Name):
                        return {'columns %s..A2' % sl.lower.value}
                    return None
                # constant + A2 + loop variable, in any order; named offsets (`calls2_start = allele2_index + 1`) are written out first
                consts, names, a2 = 0, [], 0
                stack = [inline(sl, {k_: v_ for k_, v_ in single_assignments(f2).items() if isinstance(v_, (ast.Constant, ast.BinOp, ast.Name))}, depth=3)]
                while stack:
                    x_ = stack.pop()
                    if isinstance(x_, ast.BinOp) and isinstance(x_.op, ast.Add):
                        stack += [x_.left, x_.right]
                    elif isinstance(x_, ast.Constant) and isinstance(x_.value, int) and not isinstance(x_.value, bool):
                        consts += x_.value
                    elif isinstance(x_, ast.Name):
                        if RF.flat(ev(x_)) == {'A2'}:
                            a2 += 1
                        else:
                            names.append(x_.id)
                    else:
                        return None
                if a2 > 1 or len(names) > 1:
                    return None
                return {'column %s%d%s' % ('A2+' if a2 else '', consts, ('+' + names[0]) if names else '')}
            if isinstance(bv, RF.S) and len(bv.roles) == 1 and list(bv.roles)[0].startswith('column ') and isinstance(sl, ast.Constant) and isinstance(sl.value, int):
                return {'%s[%d]' % (list(bv.roles)[0], sl.value)}
        return None
    rf2 = RF.RoleFlow(f2, snp_source).run()
    seg2 = RF.stored_under(rf2, 'segregating')
    calls2 = RF.elements_stored_under(rf2, 'calls')
    keys2 = RF.keys_stored_under(rf2, 'calls')
    og2 = RF.stored_under(rf2, 'outgroup_allele')
    ok2 = False
    det2 = 'segregating %s, calls %s under %s, outgroup allele %s' % (seg2, calls2, keys2, og2)
    if isinstance(seg2, RF.T) and isinstance(calls2, RF.T) and len(seg2.items) == 2 and len(calls2.items) == 2 and all(isinstance(x_, RF.S) and len(x_.roles) == 1 for x_ in seg2.items + calls2.items):
        s0, s1 = [list(x_.roles)[0] for x_ in seg2.items]
        c0, c1 = [list(x_.roles)[0] for x_ in calls2.items]
        mm0 = re.fullmatch(r'column 3\+(\w+)', c0)
        mm1 = re.fullmatch(r'column A2\+1\+(\w+)', c1)
        ok2 = s0 == 'column 2' and s1 == 'column A2+0' and bool(mm0 and mm1 and mm0.group(1) == mm1.group(1)) and \
            keys2 == RF.S({'columns 3..A2'}) and og2 == RF.S({'column 1[1]'})
    unrec2 = not ok2 and (seg2 is None or calls2 is None or not RF.flat(seg2) or not RF.flat(calls2))
    rep.ob('R-IDX', 'make_data_dict columns', ok2, ('not recognised: ' if unrec2 else '') + det2 if not ok2 else 'allele1 at column 2 with its counts at 3.., allele2 at the Allele2 column with its counts after it', m.rel, f2.lineno,
           what="calls are stored in the order of 'segregating'; the outgroup allele is the middle base of the outgroup context")


# ---------------------------------------------------------------------------------------------------------------------
# (5) statistics
class Vec(list):
    pass


class VecEval:
    """evaluates the body of Spectrum.Fst with ns, counts as symbolic r-vectors"""

    def __init__(self, r):
        self.r = r
        self.env = {'r': Rat.const(r), 'ns': Vec(Rat.atom('n%d' % i) for i in range(1, r + 1))}

    def lift(self, f, *vs):
        if any(isinstance(v, Vec) for v in vs):
            return Vec(f(*[(v[i] if isinstance(v, Vec) else v) for v in vs]) for i in range(self.r))
        return f(*vs)

    def ev(self, e):
        if isinstance(e, ast.Constant):
            return Rat.const(Fraction(repr(e.value)) if isinstance(e.value, float) else e.value)
        if isinstance(e, ast.Name):
            if e.id in self.env:
                return self.env[e.id]
            raise AlgebraError('unbound name %s' % e.id)
        if isinstance(e, ast.Attribute):
            t = ast.unparse(e)
            if t == 'self.Npop':
                return Rat.const(self.r)
            if t == 'self.sample_sizes':
                return self.env['ns']
            raise AlgebraError('attribute %s' % t)
        if isinstance(e, ast.UnaryOp) and isinstance(e.op, ast.USub):
            return self.lift(lambda a: Rat.const(0) - a, self.ev(e.operand))
        if isinstance(e, ast.BinOp):
            l, r_ = self.ev(e.left), self.ev(e.right)
            if isinstance(e.op, ast.Add):
                return self.lift(lambda a, b: a + b, l, r_)
            if isinstance(e.op, ast.Sub):
                return self.lift(lambda a, b: a - b, l, r_)
            if isinstance(e.op, ast.Mult):
                return self.lift(lambda a, b: a * b, l, r_)
            if isinstance(e.op, ast.Div):
                return self.lift(lambda a, b: a / b, l, r_)
            if isinstance(e.op, ast.Pow):
                if isinstance(r_, Vec) or not r_.is_const():
                    raise AlgebraError('power')
                k = r_.const_value()
                return self.lift(lambda a: a ** k, l)
            raise AlgebraError('operator')
        if isinstance(e, ast.Subscript):
            b = self.ev(e.value)
            if not isinstance(b, Vec) and ast.unparse(e.slice).replace('np.', 'numpy.').replace('None', 'numpy.newaxis') in ('tuple(this_slice)', '(..., numpy.newaxis)'):
                return b           # alignment of a scalar field with the per-population axis
            raise AlgebraError('subscript %s' % ast.unparse(e))
        if isinstance(e, ast.Call):
            fn = dotted(e.func) or ''
            kw = {k.arg: ast.unparse(k.value) for k in e.keywords}
            if fn in ('numpy.sum', 'numpy.mean', 'numpy.average') and len(e.args) == 1:
                v = self.ev(e.args[0])
                if 'axis' in kw and kw['axis'] != '-1':
                    raise AlgebraError('reduction over axis %s' % kw['axis'])
                w = None
                if fn == 'numpy.average' and 'weights' in kw:
                    w = self.ev([k.value for k in e.keywords if k.arg == 'weights'][0])
                if not isinstance(v, Vec):
                    raise AlgebraError('reduction of a scalar')
                if w is not None:
                    num = Rat.const(0)
                    den = Rat.const(0)
                    for a, b in zip(v, w):
                        num, den = num + a * b, den + b
                    return num / den
                s = Rat.const(0)
                for a in v:
                    s = s + a
                return s if fn == 'numpy.sum' else s / Rat.const(self.r)
            if fn in ('numpy.var', 'np.var') and len(e.args) == 1 and set(kw) <= {'ddof'}:
                # the variance of the entries: sum (x - mean)^2 / (r - ddof)
                v = self.ev(e.args[0])
                if not isinstance(v, Vec):
                    raise AlgebraError('reduction of a scalar')
                try:
                    ddof = int(kw.get('ddof', '0'))
                except ValueError:
                    raise AlgebraError('ddof %s' % kw.get('ddof'))
                mean = Rat.const(0)
                for a in v:
                    mean = mean + a
                mean = mean / Rat.const(self.r)
                s = Rat.const(0)
                for a in v:
                    s = s + (a - mean) * (a - mean)
                return s / Rat.const(self.r - ddof)
            raise AlgebraError('call %s' % fn)
        raise AlgebraError('expression %s' % type(e).__name__)


def fst_reference(r):
    """Weir & Cockerham (1984) eqs 2-4 for one biallelic locus with b = 0 solved for the observed heterozygosity"""
    n = [Rat.atom('n%d' % i) for i in range(1, r + 1)]
    c = [Rat.atom('c%d' % i) for i in range(1, r + 1)]
    R = Rat.const(r)
    one = Rat.const(1)
    nsum = Rat.const(0)
    nsq = Rat.const(0)
    for x in n:
        nsum, nsq = nsum + x, nsq + x * x
    nbar = nsum / R
    nc = (nsum - nsq / nsum) / (R - one)
    p = [ci / ni for ci, ni in zip(c, n)]
    pbar = Rat.const(0)
    for ni, pi in zip(n, p):
        pbar = pbar + ni * pi
    pbar = pbar / nsum
    s2 = Rat.const(0)
    for ni, pi in zip(n, p):
        s2 = s2 + ni * (pi - pbar) * (pi - pbar)
    s2 = s2 / ((R - one) * nbar)
    X = pbar * (one - pbar) - (R - one) / R * s2
    # eq 3:  b = nbar/(nbar-1) [X - (2 nbar - 1)/(4 nbar) hbar] = 0
    hbar = Rat.const(4) * nbar / (Rat.const(2) * nbar - one) * X
    a = nbar / nc * (s2 - (X - hbar / Rat.const(4)) / (nbar - one))      # eq 2
    cc = hbar / Rat.const(2)                                             # eq 4
    return a, cc


def check_statistics(rep, prog, tier):
    m = prog.mod(SM)
    H = {'1.0 / numpy.arange(1, n)': 'H1', '1.0 / numpy.arange(1, n) ** 2': 'H2'}

    def hook(T, e, fn):
        if fn in ('numpy.sum', 'numpy.ma.sum') and len(e.args) == 1:
            t = ast.unparse(e.args[0])
            if t in H:
                return Rat.atom(H[t])
            return Rat.atom('SUM[%s]' % t)
        if fn == 'numpy.sqrt' and len(e.args) == 1:
            return T.tr(e.args[0]) ** Fraction(1, 2)
        if fn.startswith('self.') and not e.args:
            return Rat.atom(fn[5:] + '()')
        return None

    def env_of(fn, keep=('n', 'p')):
        env = {}
        for st in fn.body:
            if isinstance(st, ast.Assign) and isinstance(st.targets[0], ast.Name) and st.targets[0].id not in keep:
                try:
                    env[st.targets[0].id] = Translator(env, call_hook=hook).tr(st.value)
                except AlgebraError:
                    pass
        return env

    def ret_of(fn, env):
        r = [n for n in fn.body if isinstance(n, ast.Return)]
        if len(r) != 1:
            raise AlgebraError('no single return')
        return Translator(env, call_hook=hook).tr(r[0].value)

    def guard_1d(fn):
        g = fn.body[1] if isinstance(fn.body[0], ast.Expr) else fn.body[0]
        return isinstance(g, ast.If) and ast.unparse(g.test) in ('self.Npop != 1', 'self.ndim != 1', 'not self.Npop == 1') and isinstance(g.body[0], ast.Raise)

    def n_is_sample_size(fn):
        return any(isinstance(s, ast.Assign) and ast.unparse(s) in ('n = self.sample_sizes[0]', 'n = 1.0 * self.sample_sizes[0]') for s in fn.body)

    specs = {
        'Watterson_theta': ('A0/A1', ['S()', 'H1'], "S / sum_{i=1}^{n-1} 1/i"),
        'theta_L': ('A0/(n - 1)', ['SUM[numpy.arange(1, n) * self[1:n]]'], 'sum_{i=1}^{n-1} i xi_i / (n-1)'),
        'pi': ('n/(n - 1) * 2 * A0', ['SUM[self * p * (1 - p)]'], 'n/(n-1) * sum 2 p (1-p) xi with p = i/n'),
    }
    for q, (want, names, desc) in specs.items():
        fn = prog.func(SM, 'Spectrum.' + q)
        rep.saw_function(m.rel + ':Spectrum.' + q)
        ok = False
        det = ''
        try:
            env = env_of(fn)
            for k in ('n', 'p'):
                env.pop(k, None)
            got = Translator({k: v for k, v in env.items()}, call_hook=hook).tr([n for n in fn.body if isinstance(n, ast.Return)][0].value)
            ref = parse_expr(want).subs({'A%d' % i: Rat.atom(a) for i, a in enumerate(names)})
            ok = got.equals(ref) and guard_1d(fn) and n_is_sample_size(fn)
            if q == 'pi':
                # p = i/n for i = 0..n: numpy.arange(0, n + 1) or numpy.arange(n + 1), as floats, divided by n
                okp = False
                for s_ in fn.body:
                    if isinstance(s_, ast.Assign) and ast.unparse(s_.targets[0]) == 'p' and isinstance(s_.value, ast.BinOp) and isinstance(s_.value.op, ast.Div) and ast.unparse(s_.value.right) == 'n' \
                            and isinstance(s_.value.left, ast.Call) and dotted(s_.value.left.func) in ('numpy.arange', 'np.arange'):
                        a_ = [ast.unparse(x) for x in s_.value.left.args]
                        kw_ = {k.arg: ast.unparse(k.value) for k in s_.value.left.keywords}
                        okp = a_ in (['0', 'n + 1'], ['n + 1']) and kw_ in ({'dtype': 'float'}, {})
                ok = ok and okp
            det = 'returns %s' % got.canon()
        except (AlgebraError, IndexError) as e:
            det = 'not recognised: %s' % e
        rep.ob('R-ALG', 'Spectrum.%s' % q, ok, det, m.rel, fn.lineno, what=desc + ' (one population only)')
    # Tajima's D
    fn = prog.func(SM, 'Spectrum.Tajima_D')
    rep.saw_function(m.rel + ':Spectrum.Tajima_D')
    ok = False
    det = ''
    try:
        env = env_of(fn, keep=('n', 'C'))
        T = Translator(env, call_hook=hook)
        got = T.tr([n for n in fn.body if isinstance(n, ast.Return)][0].value)
        cs = [s_ for s_ in fn.body if isinstance(s_, ast.Assign) and ast.unparse(s_.targets[0]) == 'C']
        if len(cs) != 1 or dotted(getattr(cs[0].value, 'func', None)) != 'numpy.sqrt':
            raise AlgebraError('C is not a square root')
        radicand = T.tr(cs[0].value.args[0])
        n, a1, a2, S = Rat.atom('n'), Rat.atom('H1'), Rat.atom('H2'), Rat.atom('S()')
        one = Rat.const(1)
        b1 = (n + one) / (Rat.const(3) * (n - one))
        b2 = Rat.const(2) * (n * n + n + Rat.const(3)) / (Rat.const(9) * n * (n - one))
        c1 = b1 - one / a1
        c2 = b2 - (n + Rat.const(2)) / (a1 * n) + a2 / (a1 * a1)
        e1, e2 = c1 / a1, c2 / (a1 * a1 + a2)
        var = e1 * S + e2 * S * (S - one)
        num = Rat.atom('pi()') - Rat.atom('Watterson_theta()')
        ok = radicand.equals(var) and got.equals(num / Rat.atom('C')) and guard_1d(fn) and n_is_sample_size(fn)
        det = "C^2 = %s" % radicand.canon()[:160]
    except (AlgebraError, IndexError) as e:
        det = 'not recognised: %s' % e
    rep.ob('R-ALG', 'Spectrum.Tajima_D', ok, det, m.rel, fn.lineno, what="(pi - theta_W)/sqrt(e1 S + e2 S (S-1)) with Tajima's (1989) constants")
    # S(): mask save / restore
    fn = prog.func(SM, 'Spectrum.S')
    body = [ast.unparse(s) for s in fn.body if not (isinstance(s, ast.Expr) and isinstance(s.value, ast.Constant))]
    oks = body == ['oldmask = self.mask.copy()', 'self.mask_corners()', 'S = self.sum()', 'self.mask = oldmask', 'return S']
    rep.ob('R-RESTORE', 'Spectrum.S', oks, '; '.join(body), m.rel, fn.lineno, what='segregating sites = sum over non-corner entries; the mask is restored')
    # Fst
    fn = prog.func(SM, 'Spectrum.Fst')
    rep.saw_function(m.rel + ':Spectrum.Fst')
    tf = ast.unparse(fn)
    # the index grid with the population axis moved to the end (transpose with the explicit permutation, or moveaxis / rollaxis), and
    # pbar aligned with it by one trailing new axis (explicit slice list, or Ellipsis)
    ok_grid = (has(tf, 'counts_per_pop = numpy.indices(self.shape)') and has(tf, 'counts_per_pop = numpy.transpose(counts_per_pop, axes=list(range(1, r + 1)) + [0])')) or \
        has(tf, 'counts_per_pop = numpy.moveaxis(numpy.indices(self.shape), 0, -1)') or \
        (has(tf, 'counts_per_pop = numpy.indices(self.shape)') and has(tf, 'counts_per_pop = numpy.moveaxis(counts_per_pop, 0, -1)'))
    ok_align = has(tf, 'this_slice = [slice(None)] * r + [numpy.newaxis]') or any(
        isinstance(n, ast.Subscript) and ast.unparse(n.value) == 'pbar' and ast.unparse(n.slice).replace('np.', 'numpy.').replace('None', 'numpy.newaxis') in ('(..., numpy.newaxis)',) for n in ast.walk(fn))
    okc = ok_grid and ok_align
    rep.ob('R-IDX', 'Spectrum.Fst frequencies', okc, 'counts_per_pop[i1..ir] = (i1..ir) on the last axis; pbar aligned by a trailing new axis', m.rel, fn.lineno,
           what='per-population allele counts are the entry indices')
    okw = has(tf, 'asum = numpy.sum(self * a)') and has(tf, 'dsum = numpy.sum(self * d)') and tf.rstrip().endswith('return asum / (asum + dsum)')
    rep.ob('R-ALG', 'Spectrum.Fst combination', okw, 'sum_loci a / sum_loci (a + c) weighted by the spectrum', m.rel, fn.lineno, what='ratio of sums over SNPs (W&C eq 10)')
    for r in ((2, 3) if tier == 'thorough' else (2,)):
        ok = False
        det = ''
        try:
            ve = VecEval(r)
            for st in fn.body:
                if not isinstance(st, ast.Assign) or not isinstance(st.targets[0], ast.Name):
                    continue
                name = st.targets[0].id
                if name in ('counts_per_pop',):
                    ve.env[name] = Vec(Rat.atom('c%d' % i) for i in range(1, r + 1))
                    continue
                if name in ('this_slice', 'asum', 'dsum'):
                    continue
                ve.env[name] = ve.ev(st.value)
            a_ref, c_ref = fst_reference(r)
            ok = ve.env['a'].equals(a_ref) and ve.env['d'].equals(c_ref)
            det = 'a and d of the code equal eq 2 and eq 4 with b = 0 (symbolic sizes n1..n%d and counts c1..c%d)' % (r, r)
        except (AlgebraError, KeyError) as e:
            det = 'not recognised: %s' % e
        rep.ob('R-ALG', 'Spectrum.Fst components r=%d' % r, ok, det, m.rel, fn.lineno, what='variance components of Weir & Cockerham for unequal sample sizes')


def check_weights_not_modified(rep, prog):
    """the hypergeometric weights a data dictionary is projected with come from Numerics' projection cache by reference (for one
    population the spectrum of a SNP IS the cached array): the functions that turn counts into a spectrum must not update them in
    place, or every later spectrum (chunks, bootstraps, a repeated call) is built from modified weights.  Alias / effect analysis
    (sa.effects) over Spectrum_mod and Numerics."""
    from sa.effects import compute_summaries
    from sa.pyxfront import ext_table
    ext, _, _ = ext_table()
    summaries, results, rounds = compute_summaries(prog, ext, modules=['dadi.Spectrum_mod', 'dadi.Numerics'])
    sm = prog.mod(SM)
    bad, fills = [], 0
    for fid, an in results.items():
        for (g, node, text, direct) in an.gmut:
            if g == 'G:dadi.Numerics._projection_cache':
                if direct:
                    fills += 1
                else:
                    bad.append((an, node, text))
    for an, node, text in bad:
        rep.ob('R-MEMO', '%s:%s' % (an.m.rel, an.fn._qualname), False, '%s writes into an array read from the projection cache: later spectra are built from modified weights' % text,
               an.m.rel, getattr(node, 'lineno', 0), what='memoised projection weights are modified')
    if not bad:
        rep.ob('R-MEMO', 'projection weights', fills >= 1, '%d memo fill(s); no function of Spectrum_mod / Numerics writes through an array obtained from the projection cache (%d functions analysed)' % (fills, len(results)),
               sm.rel, prog.func(SM, 'Spectrum._from_count_dict').lineno, what='memoised projection weights are never modified')


def run(rep, prog, tier):
    for mod in (MISC, SM, 'dadi.Numerics'):
        rep.saw_file(prog.mod(mod).rel)
    check_count_data_dict(rep, prog)
    check_from_count_dict(rep, prog)
    check_weights_not_modified(rep, prog)
    check_fragment(rep, prog)
    check_parsers(rep, prog)
    check_statistics(rep, prog, tier)
    rep.floor('R-EXH', 5)
    rep.floor('R-ALG', 7)
    rep.floor('R-ARGS', 3)
