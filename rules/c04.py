"""C04 - Mass leaves only via fixation/loss: frozen and isolated marginals are exact (DESIGN.md C04)."""
import ast, re
from fractions import Fraction
from sa import generic
from sa.algebra import Rat, Poly, Translator, AlgebraError, parse_expr
from sa.cfront import CProgram, CFor, CAssign, CDecl, CIf, CExpr, CReturn, unparse
from sa.kernels import KernelFacts, kernel_name, GRIDS, EXTENTS, AXLETTER
from sa.stencil import c_loop_updates, shift_atoms
from sa.extract import single_assignments, inline, names_in
from sa.srcmodel import own_nodes, dotted, positional_params, func_params, bind_call
from sa.report import AnalysisError, Report
from rules import c02

EXPLANATION = (
    "Decides the exact algebraic and structural facts behind mass conservation, for every grid, density and parameter value: "
    "(1) telescoping identity - with w_j = 1/dfactor_j, the coefficients extracted from compute_abc_nobc (and from each Python "
    "slice assembly, proved equal to them) satisfy w_{j-1} c_{j-1} + w_j (b_j - 1/dt) + w_{j+1} a_{j+1} == 0 for interior and "
    "end columns, and w_j equals the trapezoid weight used by Numerics.trapz; hence each sweep conserves the trapezoid mass of "
    "every grid line except through the explicit boundary additions; (2) corner-only absorption - in all 14 multi-dimensional "
    "kernels and in the Python drivers the boundary additions are guarded by ALL other coordinates being exactly 0 (resp. 1); "
    "(3) frozen/nomut discipline - every sweep of axis k is skipped iff frozen_k, every injection into population k is guarded "
    "by not frozen_k (and not nomut_k where that flag exists), targets the unit vector e_k, and its value times the trapezoid "
    "weights times grid_k[1] is identically dt*theta0/2; the frozen-and-migrating guard of each integrator lists exactly the "
    "2(D-1) rates touching each population; (4) remove_pop integrates the removed axis with the trapezoid rule and filter_pops "
    "removes in descending order. The numerical identities on particular densities are not decided.")
TECHNIQUE = "rational-function identities on coefficients extracted from C/Python (telescoping) + sibling templates + guard dominance"
DECLINED = ["numerical value of the identities on particular densities", "round-off in the Thomas solver"]

INT = 'dadi.Integration'
WORDS = {1: 'one_pop', 2: 'two_pops', 3: 'three_pops', 4: 'four_pops', 5: 'five_pops'}


def telescoping(rep, pieces, label, file, line):
    """pieces: dict a, b_low, b_high, c as Rat in @-atoms relative to their own row"""
    w = lambda d: Rat.const(1) / Rat.atom('dfactor@%d' % d)
    # interior column j: rows j-1 (c), j (b), j+1 (a)
    col = w(-1) * shift_atoms(pieces['c'], -1) + w(0) * (pieces['b_low'] + pieces['b_high']) + w(1) * shift_atoms(pieces['a'], 1)
    rep.ob('R-ALG', '%s telescoping interior' % label, col.is_zero(), 'w_{j-1} c_{j-1} + w_j (b_j - 1/dt) + w_{j+1} a_{j+1} = %s' % (col.canon()[:80] if not col.is_zero() else '0 identically'),
           file, line, what='column sums of the weighted operator vanish (interior columns)')
    # first column j = 0: rows 0 (b_low only) and 1 (a)
    col0 = w(0) * pieces['b_low'] + w(1) * shift_atoms(pieces['a'], 1)
    rep.ob('R-ALG', '%s telescoping first column' % label, col0.is_zero(), 'w_0 (b_0 - 1/dt) + w_1 a_1 = %s' % (col0.canon()[:80] if not col0.is_zero() else '0 identically'),
           file, line, what='no flux through the lower end except the explicit boundary term')
    colN = w(-1) * shift_atoms(pieces['c'], -1) + w(0) * pieces['b_high']
    rep.ob('R-ALG', '%s telescoping last column' % label, colN.is_zero(), 'w_{N-2} c_{N-2} + w_{N-1} (b_{N-1} - 1/dt) = %s' % (colN.canon()[:80] if not colN.is_zero() else '0 identically'),
           file, line, what='no flux through the upper end except the explicit boundary term')


def check_trapz(rep, prog):
    m = prog.mod('dadi.Numerics')
    fn = prog.func('dadi.Numerics', 'trapz')
    rep.saw_function(m.rel + ':trapz')
    sl = {}
    for n in own_nodes(fn):
        if isinstance(n, ast.Assign) and isinstance(n.targets[0], ast.Subscript) and ast.unparse(n.targets[0].slice) == 'axis':
            sl[ast.unparse(n.targets[0].value)] = ast.unparse(n.value)
    rets_all = [n for n in own_nodes(fn) if isinstance(n, ast.Return)]
    ret = rets_all[-1]
    # every other return path (fast paths) must also be the trapezoid rule ALONG `axis`: a contraction with the node weights
    # whose contracted axis is provably `axis` (numpy.dot contracts the second-to-last axis of an N-D operand, not the first)
    for extra in rets_all[:-1]:
        v = extra.value
        guards = []
        par, child = getattr(extra, '_parent', None), extra
        while par is not None and par is not fn:
            if isinstance(par, ast.If):
                guards.append(ast.unparse(par.test).replace(' ', '') if child in par.body else 'not(' + ast.unparse(par.test).replace(' ', '') + ')')
            child, par = par, getattr(par, '_parent', None)
        g = ' and '.join(guards)
        okx = False
        why = 'return `%s` under `%s`' % (ast.unparse(v)[:60] if v is not None else None, g)
        wdef = [ast.unparse(n).replace(' ', '') for n in own_nodes(fn) if isinstance(n, (ast.Assign, ast.AugAssign)) and ast.unparse(n.targets[0] if isinstance(n, ast.Assign) else n.target).startswith('weights')]
        okw = sorted(wdef) == sorted(['weights=numpy.zeros(len(dx)+1)', 'weights[:-1]+=dx/2.0', 'weights[1:]+=dx/2.0'])
        if isinstance(v, ast.Call) and okw:
            f = dotted(v.func) or ''
            a = [ast.unparse(x).replace(' ', '') for x in v.args]
            kw = {k.arg: ast.unparse(k.value).replace(' ', '') for k in v.keywords}
            if f in ('numpy.tensordot', 'np.tensordot') and a[:2] == ['weights', 'yy'] and kw.get('axes', a[2] if len(a) > 2 else '') in ('(0,axis)', '([0],[axis])', '[[0],[axis]]'):
                okx = True
            elif f in ('numpy.dot', 'np.dot') and a == ['weights', 'yy']:
                # valid only when yy is 1-D, or 2-D with axis == 0
                okx = any(x in g for x in ('nd==1', 'yy.ndim==1')) or (('axis==0' in g) and any(x in g for x in ('nd==2', 'nd<=2', 'yy.ndim==2', 'yy.ndim<=2', 'nd<3', 'yy.ndim<3')))
                if not okx:
                    why += ': numpy.dot(weights, yy) contracts the second-to-last axis of yy when yy has more than two dimensions'
        rep.ob('R-ALG', 'Numerics.trapz fast path', okx, why, m.rel, extra.lineno, what='every return path integrates along the requested axis with the trapezoid weights')
    # the main path, for 1..3-dimensional integrands, every axis (also counted from the end), spacing given as xx or as dx: abstract
    # execution; the value returned is sum over `axis` of  dx[aligned with axis] * (yy[1:] + yy[:-1]) / 2  with the slices on `axis`
    from sa import miniexec as mx
    from sa import alpha as _alpha
    known_ = _alpha.load_table().get('__params__', {}).get(m.rel)
    known_ = set(known_) if known_ is not None else None
    ok = True
    why = []

    def hook(nm, args, kwargs):
        if nm in ('numpy.asanyarray', 'np.asanyarray', 'numpy.asarray', 'np.asarray') and args and isinstance(args[0], mx.Sym):
            return args[0]
        return NotImplemented
    try:
        for nd in (1, 2, 3):
            for axis in list(range(nd)) + [-1]:
                for mode in ('xx', 'dx'):
                    it = mx.Interp(prog, m, call_hook=hook, known_functions=known_)
                    yyv = mx.Sym('yy', attrs={'ndim': nd, 'shape': mx.Sym('yy.shape', length=nd)})
                    args = {'yy': yyv, 'xx': mx.Sym('xx') if mode == 'xx' else None, 'dx': mx.Sym('dx') if mode == 'dx' else None, 'axis': axis}
                    paths = [p_ for p_ in it.run(fn, args) if p_[0][0] == 'return']
                    if len(paths) != 1:
                        ok = False
                        why.append('nd=%d axis=%d %s: %d returning paths' % (nd, axis, mode, len(paths)))
                        continue
                    v = paths[0][0][1]
                    c = mx.call_of(v, 'sum')
                    if not c or mx.show(c[1].get('axis', c[0][1] if len(c[0]) > 1 else None)) != str(axis):
                        ok = False
                        why.append('nd=%d axis=%d: result %s is not a sum over the axis' % (nd, axis, mx.show(v)[:50]))
                        continue
                    ax = axis % nd
                    spacing = 'numpy.diff(xx)' if mode == 'xx' else 'dx'

                    def leaf(x):
                        if isinstance(x, mx.Sym) and x.struct and x.struct[0] == 'index':
                            base, key = mx.show(x.struct[1]).replace('np.', 'numpy.'), x.struct[2] if isinstance(x.struct[2], tuple) else (x.struct[2],)
                            if len(key) != nd:
                                return None
                            if base == spacing and all((mx.is_full_slice(k_) if i_ == ax else mx.is_newaxis(k_)) for i_, k_ in enumerate(key)):
                                return Rat.atom('DX')
                            if base == 'yy' and all(mx.is_full_slice(k_) for i_, k_ in enumerate(key) if i_ != ax) and isinstance(key[ax], slice) and key[ax].step in (None, 1):
                                if (key[ax].start, key[ax].stop) == (1, None):
                                    return Rat.atom('Y1')
                                if (key[ax].start, key[ax].stop) == (None, -1):
                                    return Rat.atom('Y0')
                        return None
                    try:
                        got = mx.to_rat(c[0][0], leaf)
                        if not got.equals(parse_expr('DX*(Y1 + Y0)/2')):
                            ok = False
                            why.append('nd=%d axis=%d %s: summand %s' % (nd, axis, mode, got.canon()[:80]))
                    except AlgebraError as e:
                        ok = False
                        why.append('nd=%d axis=%d %s: %s' % (nd, axis, mode, e))
    except mx.Undecidable as e:
        raise AnalysisError('Numerics.trapz is not recognised: %s' % e)
    rep.ob('R-ALG', 'Numerics.trapz', ok, 'sum_j dx_j (y_{j+1} + y_j)/2 along the given axis: node weights (dx_{j-1} + dx_j)/2 inside, dx_0/2 and dx_{N-2}/2 at the ends' + ('' if ok else ': ' + '; '.join(why[:2])), m.rel, fn.lineno,
           what='composite trapezoid rule')
    return ok


def check_injection(rep, prog):
    im = prog.mod(INT)
    for D in range(1, 6):
        fn = prog.func(INT, '_inject_mutations_%dD' % D)
        rep.saw_function(im.rel + ':' + fn.name)
        grids = GRIDS[:D]
        params = positional_params(fn)
        exp_params = ['phi', 'dt'] + grids + ['theta0'] + ([] if D == 1 else ['frozen%d' % k for k in range(1, D + 1)]) + (['nomut1', 'nomut2'] if D == 2 else [])
        rep.ob('R-TPL', '_inject_mutations_%dD signature' % D, params == exp_params, 'parameters %s' % params, im.rel, fn.lineno, what='signature (phi, dt, grids, theta0, flags)')
        # what the function adds to phi for every combination of the frozen / nomut flags: abstract execution with concrete flags
        # and symbolic grids (the statements may be written per population, or as one loop over the populations in a helper)
        import itertools
        from sa import miniexec as mx
        from sa import alpha
        known = alpha.load_table().get('__params__', {}).get(im.rel)
        known = set(known) if known is not None else None
        flags = [p_ for p_ in params if p_.startswith('frozen') or p_.startswith('nomut')]
        bad_guard, bad_idx, bad_val, bad_mass, bad_ret = [], [], [], [], []
        n_combo = 0
        refs = {}
        for k in range(1, D + 1):
            g = grids[k - 1]
            others = [grids[a] for a in range(D) if a != k - 1]
            refs[k] = 'dt/%s[1] * theta0/2 * %d/((%s[2] - %s[0])%s)' % (g, 2 ** D, g, g, ''.join(' * %s[1]' % o for o in others))
        for combo in itertools.product([False, True], repeat=len(flags)):
            n_combo += 1
            fl = dict(zip(flags, combo))
            args = {'phi': mx.Sym('phi'), 'dt': mx.Sym('dt'), 'theta0': mx.Sym('theta0')}
            for g in grids:
                args[g] = mx.Sym(g)
            args.update(fl)
            missing = [p_ for p_ in params if p_ not in args]
            if missing:
                break           # the signature obligation above reports it
            it = mx.Interp(prog, im, known_functions=known)
            try:
                paths = it.run(fn, args)
            except mx.Undecidable as e:
                raise AnalysisError('_inject_mutations_%dD is not recognised: %s' % (D, e))
            want_axes = {k for k in range(1, D + 1) if not fl.get('frozen%d' % k, False) and not fl.get('nomut%d' % k, False)}
            ctag = ', '.join('%s=%s' % kv for kv in fl.items()) or 'no flags'
            for outcome, events, dec in paths:
                if outcome[0] != 'return' or mx.show(outcome[1]) != 'phi':
                    bad_ret.append('%s: %s' % (ctag, outcome[0] + ' ' + mx.show(outcome[1])[:30] if outcome[0] == 'return' else 'raises'))
                incs = [e for e in events if e[0] == 'augitem' and mx.show(e[1]) == 'phi']
                other_writes = [e for e in events if e[0] == 'setitem' and e[1] == 'phi']
                got_axes = set()
                for e in incs:
                    key = e[2] if isinstance(e[2], tuple) else (e[2],)
                    ones = [a for a, v in enumerate(key) if v == 1]
                    if e[3] != 'Add' or len(key) != D or len(ones) != 1 or any(v not in (0, 1) for v in key):
                        bad_idx.append('%s: phi[%s] %s=' % (ctag, mx.show(key), e[3]))
                        continue
                    k = ones[0] + 1
                    if k in got_axes:
                        bad_idx.append('%s: population %d receives mutations twice' % (ctag, k))
                    got_axes.add(k)
                    try:
                        got = parse_expr(mx.show(e[4]))
                        if not got.equals(parse_expr(refs[k])):
                            bad_val.append('population %d: increment %s; expected %s' % (k, mx.show(e[4])[:90], refs[k]))
                        g = grids[k - 1]
                        mass = got * parse_expr('(%s[2] - %s[0])/2' % (g, g)) * parse_expr('%s[1]' % g)
                        for o in [grids[a] for a in range(D) if a != k - 1]:
                            mass = mass * parse_expr('%s[1]/2' % o)
                        if not mass.equals(parse_expr('dt*theta0/2')):
                            bad_mass.append('population %d' % k)
                    except AlgebraError as ex:
                        bad_val.append('population %d: increment %s not evaluable (%s)' % (k, mx.show(e[4])[:60], ex))
                if other_writes:
                    bad_idx.append('%s: phi is also written by assignment' % ctag)
                if got_axes != want_axes:
                    bad_guard.append('%s: populations receiving mutations %s, expected %s' % (ctag, sorted(got_axes), sorted(want_axes)))
        rep.ob('R-FLOW', '_inject_mutations_%dD return' % D, not bad_ret, '; '.join(sorted(set(bad_ret))[:2]) if bad_ret else 'returns phi', im.rel, fn.lineno, what='returns the density it updated')
        rep.ob('R-IDX', '_inject_mutations_%dD targets' % D, not bad_idx, '; '.join(sorted(set(bad_idx))[:3]) if bad_idx else 'increments phi at the unit vectors e_k only', im.rel, fn.lineno,
               what='mutations enter at the first interior point of one axis, 0 on the others')
        rep.ob('R-DOM', '_inject_mutations_%dD guards' % D, not bad_guard, '; '.join(bad_guard[:3]) if bad_guard else '%d flag combinations executed abstractly: exactly the populations that are neither frozen nor mutation-free receive mutations' % n_combo,
               im.rel, fn.lineno, what='no new mutations in a frozen%s population' % ('/nomut' if D == 2 else ''))
        for k in range(1, D + 1):
            bv = [b for b in bad_val if b.startswith('population %d:' % k)]
            rep.ob('R-ALG', '_inject_mutations_%dD value axis %d' % (D, k), not bv, bv[0] if bv else 'increment equals %s' % refs[k], im.rel, fn.lineno,
                   what='influx dt*theta0/2 normalised by the trapezoid weights (grids start at 0)')
            rep.ob('R-ALG', '_inject_mutations_%dD mass axis %d' % (D, k), ('population %d' % k) not in bad_mass and not bv, 'value * trapezoid weights * x_1 == dt*theta0/2', im.rel, fn.lineno,
                   what='injected mass per step is dt*theta0/2 * (1/x_1)')
        rep.ob('R-EXH', '_inject_mutations_%dD axes' % D, not bad_guard and not bad_idx, 'one injection per population that is neither frozen nor mutation-free', im.rel, fn.lineno, what='one injection per population')


def check_frozen_migration_guard(rep, prog):
    im = prog.mod(INT)
    for D in range(2, 6):
        fn = prog.func(INT, WORDS[D])
        guards = [n for n in fn.body if isinstance(n, ast.If) and 'frozen' in ast.unparse(n.test) and any(isinstance(x, ast.Raise) for x in n.body)]
        if len(guards) != 1:
            rep.ob('R-EXH', '%s frozen-migration guard' % WORDS[D], False, '%d guards raising on frozen populations with migration' % len(guards), im.rel, fn.lineno, what='frozen population with migration is rejected')
            continue
        t = guards[0].test
        # normalise: OR over k of (frozen_k AND (OR of m != 0))  -- 2-D uses (frozen1 or frozen2) and (m12 != 0 or m21 != 0)
        per = {}

        def rates(e):
            return sorted(ast.unparse(c.left) for c in ast.walk(e) if isinstance(c, ast.Compare) and isinstance(c.ops[0], ast.NotEq) and ast.unparse(c.comparators[0]) == '0')
        if D == 2:
            ok2 = isinstance(t, ast.BoolOp) and isinstance(t.op, ast.And) and sorted(ast.unparse(v) for v in (t.values[0].values if isinstance(t.values[0], ast.BoolOp) else [])) == ['frozen1', 'frozen2'] \
                and rates(t.values[1]) == ['m12', 'm21'] and isinstance(t.values[1], ast.BoolOp) and isinstance(t.values[1].op, ast.Or)
            rep.ob('R-EXH', 'two_pops frozen-migration guard', ok2, ast.unparse(t), im.rel, guards[0].lineno, what='either frozen flag with either rate non-zero raises')
            continue
        disj = t.values if isinstance(t, ast.BoolOp) and isinstance(t.op, ast.Or) else [t]
        for dj in disj:
            if isinstance(dj, ast.BoolOp) and isinstance(dj.op, ast.And) and isinstance(dj.values[0], ast.Name) and re.fullmatch(r'frozen\d', dj.values[0].id) \
                    and isinstance(dj.values[1], ast.BoolOp) and isinstance(dj.values[1].op, ast.Or):
                per[int(dj.values[0].id[-1])] = rates(dj.values[1])
        for k in range(1, D + 1):
            want = sorted(['m%d%d' % (k, j) for j in range(1, D + 1) if j != k] + ['m%d%d' % (j, k) for j in range(1, D + 1) if j != k])
            rep.ob('R-EXH', '%s frozen-migration guard pop %d' % (WORDS[D], k), per.get(k) == want, 'frozen%d guarded against %s; expected %s' % (k, per.get(k), want), im.rel, guards[0].lineno,
                   what='every rate into or out of population %d is tested' % k)
    # one_pop: frozen returns the copy unchanged
    f1 = prog.func(INT, 'one_pop')
    fr = [n for n in f1.body if isinstance(n, ast.If) and ast.unparse(n.test) == 'frozen']
    ok = bool(fr) and isinstance(fr[0].body[0], ast.Return) and ast.unparse(fr[0].body[0].value) == 'phi'
    rep.ob('R-DOM', 'one_pop frozen', ok, 'frozen population returns the (copied) density unchanged', im.rel, fr[0].lineno if fr else f1.lineno, what='frozen 1-D population does not evolve')


def check_marginalisation(rep, prog):
    pm = prog.mod('dadi.PhiManip')
    rp = prog.func('dadi.PhiManip', 'remove_pop')
    ret = [n for n in own_nodes(rp) if isinstance(n, ast.Return)]
    ok = len(ret) == 1 and isinstance(ret[0].value, ast.Call) and dotted(ret[0].value.func) == 'Numerics.trapz'
    if ok:
        b_, problems_ = bind_call(prog.func('dadi.Numerics', 'trapz'), ret[0].value)
        ok = not problems_ and {k: ast.unparse(v) for k, v in b_.items() if not (isinstance(v, ast.Constant) and v.value is None)} == {'yy': 'phi', 'xx': 'xx', 'axis': 'popnum - 1'}
    rep.ob('R-IDX', 'PhiManip.remove_pop', ok, ast.unparse(ret[0]) if ret else '', pm.rel, rp.lineno, what='integrates axis popnum-1 with the trapezoid rule')
    fp = prog.func('dadi.PhiManip', 'filter_pops')
    # every set of populations to keep, for 2-5 dimensions (abstract execution; remove_pop is summarised above): the populations not
    # kept are integrated out one at a time, highest number first, each from the result of the previous removal
    import itertools
    from sa import miniexec as mx
    from sa import alpha as _alpha
    known = _alpha.load_table().get('__params__', {}).get(pm.rel)
    known = set(known) if known is not None else None
    bad, n_runs = [], 0
    try:
        for D in (2, 3, 4, 5):
            for r_ in range(1, D + 1):
                for keep in itertools.combinations(range(1, D + 1), r_):
                    for order in (list(keep), list(keep)[::-1]):
                        it = mx.Interp(prog, pm, known_functions=known)
                        paths = [p_ for p_ in it.run(fp, {'phi': mx.Sym('phi', attrs={'ndim': D}), 'xx': mx.Sym('xx'), 'tokeep': list(order)}) if p_[0][0] == 'return']
                        n_runs += 1
                        if len(paths) != 1:
                            bad.append('%dD tokeep=%s: %d returning paths' % (D, order, len(paths)))
                            continue
                        v = paths[0][0][1]
                        chain = []
                        while mx.call_of(v, 'remove_pop') is not None:
                            a_, k_ = mx.call_of(v, 'remove_pop')
                            chain.append((a_[2] if len(a_) > 2 else k_.get('popnum'), mx.show(a_[1] if len(a_) > 1 else k_.get('xx'))))
                            v = a_[0] if a_ else k_.get('phi')
                        chain.reverse()
                        want = [k for k in range(D, 0, -1) if k not in keep]
                        if mx.show(v) != 'phi' or [c_[0] for c_ in chain] != want or any(c_[1] != 'xx' for c_ in chain):
                            bad.append('%dD tokeep=%s: removes %s' % (D, order, [c_[0] for c_ in chain]))
    except mx.Undecidable as e:
        bad.append('filter_pops is not recognised: %s' % e)
    rep.ob('R-IDX', 'PhiManip.filter_pops', not bad, '; '.join(bad[:2]) if bad else 'removes the complement of tokeep in descending order (%d runs)' % n_runs, pm.rel, fp.lineno,
           what='descending removal keeps the remaining axis numbers valid')


def run(rep, prog, tier):
    cprog = CProgram()
    shared = 'dadi/integration_shared.c'
    rep.saw_file(shared)
    # (1) telescoping identity on the C coefficients, on the reference, and on each Python assembly
    try:
        cf, pieces, _wrong, _stale, _fl = c02.c_abc_contents(cprog)
    except AlgebraError as e:
        raise AnalysisError('compute_abc_nobc is not recognised: %s' % e)
    telescoping(rep, {k: v.expr for k, v in pieces.items()}, 'C compute_abc_nobc', shared, cf.line)
    ref = c02.reference_scheme()
    telescoping(rep, ref, 'reference flux form', 'verif:rules/c02.py', 0)
    for k in ('a', 'b_low', 'b_high', 'c'):
        rep.ob('R-ALG', 'C compute_abc_nobc %s' % k, pieces[k].expr.equals(ref[k]), '%s' % pieces[k], shared, pieces[k].line, what='C coefficient %s equals the flux-form reference' % k)
    # Python assemblies: reuse C02's extraction (they are compared with ref there); here the identity itself per axis
    class Sub:
        def __init__(self, rep):
            self.rep = rep
            self.pieces = {}
    im = prog.mod(INT)
    from sa.stencil import py_slice_update
    for D, name in ((1, '_one_pop_const_params'), (2, '_two_pops_const_params'), (3, '_three_pops_const_params')):
        fn = prog.func(INT, name)
        roles = c02.roles_from_producers(fn)
        abc = {}
        for c in own_nodes(fn):
            if isinstance(c, ast.Call) and (dotted(c.func) or '').startswith('int_c.implicit_precalc_'):
                abc[dotted(c.func)[-1]] = [ast.unparse(a) for a in c.args[1:4]]
            if isinstance(c, ast.Call) and dotted(c.func) == 'tridiag.tridiag':
                abc['x'] = [ast.unparse(c.args[0]), ast.unparse(c.args[1]).split(' + ')[0], ast.unparse(c.args[2])]
        for ax, tri in sorted(abc.items()):
            ups_ = []
            for st in fn.body:
                if isinstance(st, ast.AugAssign) and isinstance(st.target, ast.Subscript) and ast.unparse(st.target.value) in tri:
                    comp = st.target.slice
                    if not any(isinstance(c_, ast.Slice) for c_ in (comp.elts if isinstance(comp, ast.Tuple) else [comp])):
                        continue

                    def role(n, tri=tri):
                        return 'abc'[tri.index(n)] if n in tri else roles.get(n, n)
                    try:
                        u, _ = py_slice_update(st, set(roles) | set(tri), role)
                    except AlgebraError as e:
                        raise AnalysisError('%s: %s' % (name, e))
                    ups_.append(u)
            pp, _ = c02.split_abc(ups_)
            if set(pp) != {'a', 'b_low', 'b_high', 'c'}:
                rep.ob('R-ALG', '%s axis %s' % (name, ax), False, 'the four slice updates were not found', im.rel, fn.lineno, what='assembly of axis %s' % ax)
                continue
            telescoping(rep, {k: v.expr for k, v in pp.items()}, '%s axis %s' % (name, ax), im.rel, pp['a'].line)
    # weights: 1/dfactor == trapezoid weights
    check_trapz(rep, prog)
    dfu = {u.array: u for u in c_loop_updates(cprog.func('compute_dfactor').body, 'N')}
    try:
        from rules.c02 import _parse_at
        okw = (Rat.const(1) / dfu['dfactor'].expr).equals(_parse_at('(dx@-1 + dx@0)/2')) and (Rat.const(1) / dfu['dfactor[0]'].expr).equals(Rat.atom('dx[0]') * Rat.const(Fraction(1, 2))) and \
            (Rat.const(1) / dfu['dfactor[N-1]'].expr).equals(Rat.atom('dx[N-2]') * Rat.const(Fraction(1, 2)))
    except (KeyError, AlgebraError):
        okw = False
    rep.ob('R-ALG', 'dfactor vs trapezoid weights', okw, '1/dfactor_j = (dx_{j-1}+dx_j)/2 inside, dx_0/2 and dx_{N-2}/2 at the ends', shared, cprog.func('compute_dfactor').line,
           what='1/dfactor_j is the trapezoid weight of node j')
    sub0 = Report("sub", rep.tier)
    c02.run_shared(sub0, prog, cprog)
    for o in sub0.obls:
        if o.construct in ('Python _compute_dfactor', 'C compute_dfactor', 'C compute_dx', 'C compute_xInt'):
            rep.ob(o.rule, o.construct, o.ok, o.detail, o.file, o.line, what=o.what + ' (the weights that make the fluxes telescope)')
    # (2) corner-only absorption and sweep guards: kernel templates restricted to their boundary / linearity fields
    nb = 0
    for D in range(1, 6):
        for k in range(1, D + 1):
            cfk = cprog.func(kernel_name(D, k))
            rep.saw_function(cfk.rel + ':' + cfk.name)

            def ob(field, ok, detail, line, cfk=cfk, D=D, k=k):
                fld = field.split('.', 1)[1]
                if fld.startswith(('boundary', 'loops', 'rhs', 'writeback', 'solve', 'system')):
                    rep.ob('R-TPL(kernel)', field.split('.')[0] + '[%dD,axis %d]' % (D, k), ok, detail, cfk.rel, line, what=fld)
            KernelFacts(cfk, D, k, ob).check()
    rep.floor('R-TPL(kernel)', 120)
    # Python drivers: boundary additions and sweep guards (shared with C02's driver rules)
    sub = Report("sub", rep.tier)
    c02.run_drivers(sub, prog)
    for o in sub.obls:
        if o.rule in ('R-DOM', 'R-TPL(driver)') or (o.rule == 'R-IDX' and ('inject' in o.construct or 'sweep' in o.construct)):
            rep.ob(o.rule, o.construct, o.ok, o.detail, o.file, o.line, what=o.what)
    # (3) injection, frozen guards
    check_injection(rep, prog)
    check_frozen_migration_guard(rep, prog)
    # (4) marginalisation
    check_marginalisation(rep, prog)
    # the kernels address the density as a C-ordered block: axis k of the array must be population k when they run, or the
    # per-population parameters, frozen flags and corner conditions act on the wrong axes (rule shared with C20)
    from rules import c20
    from sa.report import Scoped
    c20.run(Scoped(rep, lambda rule, construct, what: rule == 'R-LAYOUT' and 'Integration.py' in construct), prog, tier)
    rep.floor('R-ALG', 60)
    rep.floor('R-DOM', 25)
    rep.floor('R-LAYOUT', 15)
