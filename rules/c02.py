"""C02 - Every integration path in 1-5 populations solves the documented implicit scheme (DESIGN.md C02)."""
import ast
import itertools, re
from fractions import Fraction
from sa import generic
from sa.algebra import Rat, Poly, Translator, AlgebraError, parse_expr, random_identity_test
from sa.cfront import CProgram, CFor, CAssign, CDecl, CIf, CExpr, CReturn, unparse
from sa.kernels import KernelFacts, precalc_check, kernel_name, GRIDS, EXTENTS, AXLETTER
from sa.stencil import c_loop_updates, py_slice_update, shift_atoms, Update
from sa.pyxfront import PyxModule
from sa.extract import single_assignments, inline, names_in, straightline
from sa.srcmodel import own_nodes, dotted, positional_params, func_params, bind_call
from sa.report import AnalysisError

EXPLANATION = (
    "Decides that every compiled kernel, Cython wrapper and Python driver is an instance of the documented conservative "
    "fully-implicit scheme, for all grids, densities and parameters: (1) R-TPL(kernel) - each of the 15 per-axis C kernels "
    "equals its template at (D,k): signature, grid preparation on its own axis, V/VInt with its own nu, loops over exactly the "
    "other axes, Mfunc calls whose coordinate/migration arguments pair rate m_kj with coordinate j, C-order affine index of "
    "the right-hand side and of the write-back (polynomial identity), absorbing terms guarded by ALL other coordinates == 0 "
    "(== 1) with the reference expressions, solver call, allocation sizes and frees; the 5 precomputed-coefficient kernels "
    "gather/scatter along their axis at the same index; (2) R-ALG three-way - the C coefficient functions (V, M1D..5D, dx, "
    "dfactor, xInt, delj, a/b/c assembly) equal the Python ones and the reference scheme DERIVED from the flux form "
    "J = M(delta phi_j + (1-delta) phi_j+1) - (V phi)'/2 by collecting coefficients; the slice assemblies of the three "
    "constant-parameter drivers are translated to per-element stencils and compared; (3) R-TPL(pyx) - every wrapper forwards "
    "its parameters in prototype order with phi.shape[0..D-1] as extents, and prototype/header/definition agree; (4) "
    "R-IDX(driver) - in one_pop..five_pops the sweep of axis k receives nu_k, m_k., gamma_k, h_k, the common time step and the "
    "delj switch, _compute_dt receives the same, every time-varying parameter is refreshed at next_t, injection precedes the "
    "sweeps, axes are swept in order, and the constant dispatch tests every parameter it forwards; (5) the Thomas solver is "
    "the reference recurrence and its float sibling agrees. Round-off-level agreement and the compiled object code are not decided."
    ' R-CTYPE also covers quotients of two integer-typed operands (truncated by C). R-LAYOUT (shared with C20/C04): every array handed to a compiled kernel is owned and C-contiguous, because the wrappers pass phi.data as a C-ordered block.')
TECHNIQUE = "sibling templates over a C-subset parser + rational-function normal forms (C == Python == reference derived from the flux form)"
DECLINED = ["entry-by-entry agreement at round-off level", "behaviour of the compiled object code (trusted: built from the analysed sources)",
            "floating-point stability of the Thomas recurrence"]

INT = 'dadi.Integration'
WORDS = {1: 'one_pop', 2: 'two_pops', 3: 'three_pops', 4: 'four_pops', 5: 'five_pops'}


_C_FUNCS = {}


def c_return_rat(cf, env=None, _depth=0):
    """the single return expression of a C function as a rational function; calls of other single-return functions of the program
    (Vfunc_beta written as Vfunc(x, nu) * ...) are replaced by their own return expressions"""
    rets = [s for s in cf.body if isinstance(s, CReturn)]
    if len(rets) != 1 or len(cf.body) != 1:
        raise AnalysisError('C function %s is not a single return expression' % cf.name)

    def call_hook(T_, e, f):
        callee = _C_FUNCS.get(f)
        if callee is None or callee is cf or _depth > 3 or len(callee.params) != len(e.args) or any('*' in pt for pt, _ in callee.params):
            return None
        crets = [s_ for s_ in callee.body if isinstance(s_, CReturn)]
        if len(crets) != 1 or len(callee.body) != 1:
            return None
        return c_return_rat(callee, {pn: T_.tr(a) for (pt, pn), a in zip(callee.params, e.args)}, _depth + 1)
    return Translator(env or {}, call_hook=call_hook).tr(rets[0].value)


def py_return_rat(fn, env=None):
    e, r = straightline(fn, env)
    if r is None:
        raise AnalysisError('python function %s does not return a formula' % fn.name)
    return r


def mfunc_reference(D, params):
    """sum_j m_j (g_j - x) + gamma*2*(h + (1-2h) x) x (1-x) with the j-th rate multiplying the j-th coordinate"""
    x = params[0]
    coords = params[1:D]
    rates = params[D:2 * D - 1]
    gamma, h = params[2 * D - 1], params[2 * D]
    s = ' + '.join('%s*(%s - %s)' % (m, g, x) for m, g in zip(rates, coords))
    sel = '%s*2*(%s + (1 - 2*%s)*%s)*%s*(1 - %s)' % (gamma, h, h, x, x, x)
    return parse_expr((s + ' + ' if s else '') + sel)


def reference_scheme():
    """a_j, b_j - 1/dt (low and high part), c_j derived from the flux form by collecting the coefficients of phi.
    Flux at the interface j+1/2 (between nodes j and j+1):
        J = M_{j+1/2} (delj_j phi_j + (1 - delj_j) phi_{j+1}) - (V_{j+1} phi_{j+1} - V_j phi_j) / (2 dx_j)
    Update: (phi_j_new - phi_j)/dt = - dfactor_j (J_{j+1/2} - J_{j-1/2})  with all phi on the right at the new time."""
    def flux(shift):   # interface j + shift + 1/2, in atoms relative to node j
        s = shift
        txt = 'MInt@%d*(delj@%d*phi@%d + (1 - delj@%d)*phi@%d) - (V@%d*phi@%d - V@%d*phi@%d)/(2*dx@%d)' % (s, s, s, s, s + 1, s + 1, s + 1, s, s, s)
        return _parse_at(txt)
    Jp, Jm = flux(0), flux(-1)
    dfac = Rat.atom('dfactor@0')
    phis = ['phi@-1', 'phi@0', 'phi@1']

    def coeff(r, which):
        return r.subs({p: Rat.const(1 if p == which else 0) for p in ['phi@-1', 'phi@0', 'phi@1']})
    return {
        'a': coeff(Rat.const(0) - dfac * Jm, 'phi@-1'),     # from -(-J_{j-1/2}) ... row j: + dfactor (J+ - J-)
        'b_low': coeff(dfac * Jp, 'phi@0'),                   # contribution of the upper interface (exists for j < N-1)
        'b_high': coeff(Rat.const(0) - dfac * Jm, 'phi@0'),   # contribution of the lower interface (exists for j > 0)
        'c': coeff(dfac * Jp, 'phi@1'),
    }


def _parse_at(txt):
    """parse an expression whose atoms look like NAME@d (converted to legal identifiers and back)"""
    enc = re.sub(r'(\w+)@(-?\d+)', lambda m: '%s__AT__%s' % (m.group(1), m.group(2).replace('-', 'm')), txt)

    def name_hook(n):
        if '__AT__' in n:
            a, d = n.split('__AT__')
            return Rat.atom('%s@%d' % (a, -int(d[1:]) if d.startswith('m') else int(d)))
        return None
    return Translator({}, name_hook=name_hook).tr(ast.parse(enc, mode='eval').body)


def c_abc_contents(cprog):
    """compute_abc_nobc by the content of every cell when it returns (sa.cellflow): the four pieces of the reference form, and what
    is wrong with the ends / the diagonal start, if anything.  Insensitive to how the stores are grouped into loops."""
    from sa.cellflow import Flow
    cf = cprog.func('compute_abc_nobc')
    fl = Flow(cf)
    A, B, C = cf.param_names()[-3:]
    if set(fl.arrays()) != {A, B, C}:
        raise AlgebraError('compute_abc_nobc stores into %s' % fl.arrays())

    def val(arr, cls):
        table, keys = fl.content(arr, cls)
        if keys:
            raise AlgebraError('stores of %s under tests %s' % (arr, keys[:2]))
        return table[frozenset()]
    inv_dt = parse_expr('1/dt')
    line = {arr: min(s.line for s in fl.stores if s.array == arr and s.kind == 'rel') if any(s.array == arr and s.kind == 'rel' for s in fl.stores) else cf.line for arr in (A, B, C)}
    pieces = {'a': Update('a', 1, 0, '=', val(A, ('mid', 0)), line[A]), 'c': Update('c', 0, -1, '=', val(C, ('mid', 0)), line[C]),
              'b_low': Update('b', 0, -1, '+=', val(B, ('lo', 0)) - inv_dt, line[B]), 'b_high': Update('b', 1, 0, '+=', val(B, ('hi', 0)) - inv_dt, line[B])}
    wrong, stale = [], []
    zero = Rat.const(0)
    for arr, nm in ((A, 'a'), (B, 'b'), (C, 'c')):
        for cls in fl.classes(arr):
            v = val(arr, cls)
            if any(a_.endswith('.in@0') for a_ in v.atoms()):
                stale.append('%s[%s] keeps what the caller passed in' % (nm, _cls_text(cls)))
                continue
            if nm == 'a':
                want = zero if cls == ('lo', 0) else pieces['a'].expr
            elif nm == 'c':
                want = zero if cls == ('hi', 0) else pieces['c'].expr
            else:
                want = inv_dt + (zero if cls == ('hi', 0) else pieces['b_low'].expr) + (zero if cls == ('lo', 0) else pieces['b_high'].expr)
            if not v.equals(want):
                wrong.append('%s[%s] = %s' % (nm, _cls_text(cls), v.canon()[:80]))
    return cf, pieces, wrong, stale, fl


def _cls_text(cls):
    return {'lo': '%d' % cls[1], 'hi': 'N-%d' % (cls[1] + 1), 'mid': 'j'}[cls[0]]


def extract_c_abc(cprog):
    cf = cprog.func('compute_abc_nobc')
    ups = c_loop_updates(cf.body, 'N')
    return cf, ups


def split_abc(ups, names=('a', 'b', 'c')):
    """organise updates into the four pieces a (j in [1,N)), b_low (j in [0,N-1)), b_high (j in [1,N)), c (j in [0,N-1))"""
    A, B, C = names
    out = {}
    extra = []
    for u in ups:
        if u.array == A and (u.lo, u.hi) == (1, 0):
            out['a'] = u
        elif u.array == C and (u.lo, u.hi) == (0, -1):
            out['c'] = u
        elif u.array == B and (u.lo, u.hi) == (0, -1) and u.op == '+=':
            out['b_low'] = u
        elif u.array == B and (u.lo, u.hi) == (1, 0) and u.op == '+=':
            out['b_high'] = u
        else:
            extra.append(u)
    return out, extra


def run_shared(rep, prog, cprog):
    _C_FUNCS.clear()
    _C_FUNCS.update(cprog.funcs)
    im = prog.mod(INT)
    shared = 'dadi/integration_shared.c'
    rep.saw_file(shared)
    # ---- V ---------------------------------------------------------------------------------------------------
    vref = parse_expr('1/nu * x*(1 - x)')
    vb = parse_expr('1/nu * x*(1 - x) * (beta + 1)**2/(4*beta)')
    cv = c_return_rat(cprog.func('Vfunc'))
    cvb = c_return_rat(cprog.func('Vfunc_beta'))
    pv = py_return_rat(prog.func(INT, '_Vfunc'))
    rep.ob('R-ALG', 'C Vfunc', cv.equals(vref), 'Vfunc = %s' % cv.canon(), shared, cprog.func('Vfunc').line, what='V = x(1-x)/nu')
    rep.ob('R-ALG', 'C Vfunc_beta', cvb.equals(vb), 'Vfunc_beta = %s' % cvb.canon(), shared, cprog.func('Vfunc_beta').line, what='V = x(1-x)/nu * (beta+1)^2/(4 beta)')
    rep.ob('R-ALG', 'Python _Vfunc', pv.equals(vb), '_Vfunc = %s' % pv.canon(), im.rel, prog.func(INT, '_Vfunc').lineno, what='Python V equals the C V (with beta)')
    # ---- M ----------------------------------------------------------------------------------------------------
    for D in range(1, 6):
        cf = cprog.func('Mfunc%dD' % D)
        pn = cf.param_names()
        ok_sig = len(pn) == 2 * D + 1
        try:
            got = c_return_rat(cf)
            ref = mfunc_reference(D, pn)
            ok = ok_sig and got.equals(ref)
        except AlgebraError as e:
            ok, got = False, None
        rep.ob('R-ALG', 'C Mfunc%dD' % D, ok, 'Mfunc%dD(%s) = %s' % (D, ', '.join(pn), got.canon() if got else '?'), shared, cf.line,
               what='M = sum_j m_j (g_j - x) + 2 gamma (h + (1-2h) x) x (1-x), j-th rate with j-th coordinate')
        if D <= 3:
            pf = prog.func(INT, '_Mfunc%dD' % D)
            pp = positional_params(pf)
            try:
                pg = py_return_rat(pf)
                okp = len(pp) == 2 * D + 1 and pg.equals(mfunc_reference(D, pp))
            except AlgebraError:
                okp = False
            rep.ob('R-ALG', 'Python _Mfunc%dD' % D, okp, '_Mfunc%dD(%s)' % (D, ', '.join(pp)), im.rel, pf.lineno, what='Python M equals the reference with the same argument convention')
    # ---- dx, xInt, dfactor ---------------------------------------------------------------------------------------
    ups = c_loop_updates(cprog.func('compute_dx').body, 'N')
    ok = len(ups) == 1 and ups[0].array == 'dx' and (ups[0].lo, ups[0].hi) == (0, -1) and ups[0].expr.equals(_parse_at('xx@1 - xx@0'))
    rep.ob('R-ALG', 'C compute_dx', ok, str(ups), shared, cprog.func('compute_dx').line, what='dx_j = x_{j+1} - x_j for j in [0, N-1)')
    ups = c_loop_updates(cprog.func('compute_xInt').body, 'N')
    ok = len(ups) == 1 and ups[0].array == 'xInt' and (ups[0].lo, ups[0].hi) == (0, -1) and ups[0].expr.equals(_parse_at('(xx@1 + xx@0)/2'))
    rep.ob('R-ALG', 'C compute_xInt', ok, str(ups), shared, cprog.func('compute_xInt').line, what='midpoints (x_{j+1}+x_j)/2 for j in [0, N-1)')
    ups = c_loop_updates(cprog.func('compute_dfactor').body, 'N')
    d = {u.array: u for u in ups}
    okd = set(d) == {'dfactor', 'dfactor[0]', 'dfactor[N-1]'} and (d['dfactor'].lo, d['dfactor'].hi) == (1, -1) and \
        d['dfactor'].expr.equals(_parse_at('2/(dx@0 + dx@-1)')) and d['dfactor[0]'].expr.equals(parse_expr('2/DX0').subs({'DX0': Rat.atom('dx[0]')})) and \
        d['dfactor[N-1]'].expr.equals(Rat.const(2) / Rat.atom('dx[N-2]'))
    rep.ob('R-ALG', 'C compute_dfactor', okd, str(ups), shared, cprog.func('compute_dfactor').line,
           what='dfactor_j = 2/(dx_j + dx_{j-1}) inside, 2/dx_0 and 2/dx_{N-2} at the ends (inverse trapezoid weights)')
    # Python _compute_dfactor
    pdf = prog.func(INT, '_compute_dfactor')
    stm = {ast.unparse(s.targets[0]): s for s in pdf.body if isinstance(s, ast.Assign)}
    okp = False
    try:
        u, _ = py_slice_update(stm['dfactor[1:-1]'], {'dx'})
        okp = (u.lo, u.hi) == (1, -1) and u.expr.equals(_parse_at('2/(dx@-1 + dx@0)')) and ast.unparse(stm['dfactor[0]'].value) == '2 / dx[0]' and \
            ast.unparse(stm['dfactor[-1]'].value) == '2 / dx[-1]' and ast.unparse(stm['dfactor'].value) in ('numpy.zeros(len(dx) + 1)', 'numpy.empty(len(dx) + 1)', 'numpy.zeros(len(dx) + 1, dtype=float)')
        # (numpy.empty is as good as numpy.zeros here: the three stores [0], [1:-1], [-1] required above cover every cell)
    except (KeyError, AlgebraError):
        okp = False
    rep.ob('R-ALG', 'Python _compute_dfactor', okp, '; '.join(ast.unparse(s) for s in pdf.body if isinstance(s, ast.Assign)), im.rel, pdf.lineno,
           what='same interior and end values as the C function (dx[-1] is dx_{N-2})')
    # ---- delj --------------------------------------------------------------------------------------------------------
    cd = cprog.func('compute_delj')
    chang = _parse_at('(-epsj*wj + epsj*VInt@0 - VInt@0)/(wj - epsj*wj)')
    ok = False
    det = ''
    from sa.cellflow import Flow, key_of, compare
    from sa.algebra import exp_of
    try:
        fl = Flow(cd)
        wj_c = _parse_at('2*MInt@0*dx@0')
        eps_c = exp_of(wj_c / _parse_at('VInt@0'))
        K_T, K_E, K_W = key_of('nz', Rat.atom('use_delj_trick')), key_of('eq', eps_c - Rat.const(1)), key_of('eq', wj_c)
        full = chang.subs({'wj': wj_c, 'epsj': eps_c})
        half = Rat.const(Fraction(1, 2))
        out_name = cd.param_names()[-2]
        problems = []

        def ref_delj(cls, sigma):
            if cls == ('hi', 0):
                return Rat.atom('%s.in@0' % out_name)      # delj has N-1 entries: cell N-1 is not written
            # tests the code did not make are free: the reference must not depend on them
            vals = set()
            free = [k for k in (K_T, K_E, K_W) if k not in sigma]
            for bits in itertools.product((True, False), repeat=len(free)):
                s2 = dict(sigma, **dict(zip(free, bits)))
                vals.add('full' if (s2[K_T] and not s2[K_E] and not s2[K_W]) else 'half')
            if len(vals) != 1:
                # reachable only if the combination is consistent: without the switch the other tests are irrelevant
                return Rat.atom('UNDETERMINED')
            return full if vals == {'full'} else half
        if fl.arrays() != [out_name]:
            raise AlgebraError('stores into %s' % fl.arrays())
        ok, bad, unknown, n_ev = compare(fl, out_name, ref_delj, known_keys={K_T, K_E, K_W})
        if unknown:
            raise AlgebraError('tests %s' % sorted(set(unknown))[:2])
        det = ('default 0.5; wj = %s; epsj = exp(wj/VInt); Chang-Cooper weight where the switch is on and epsj != 1 and wj != 0 (%d cell/test combinations)' % (wj_c.canon(), n_ev)) if ok else '; '.join(bad[:2])
    except (AlgebraError, IndexError, AttributeError) as e:
        ok, det = False, 'compute_delj is not recognised: %s' % e
    rep.ob('R-ALG', 'C compute_delj', ok, det, shared, cd.line, what='delj = 1/2 without the trick, Chang-Cooper weight with it, 1/2 at the singular points')
    pdj = prog.func(INT, '_compute_delj')
    # what the function returns with and without the switch, for 1- and 2-dimensional coefficient arrays and every axis: abstract
    # execution; the returned value is the Chang-Cooper expression under filters that replace nan and +-inf by 1/2
    from sa import miniexec as mx
    from sa import alpha as _alpha
    known_ = _alpha.load_table().get('__params__', {}).get(im.rel)
    known_ = set(known_) if known_ is not None else None
    okp = True
    why = []
    try:
        for ndim in (1, 2):
            for axis in range(ndim):
                for trick in (False, True):
                    it = mx.Interp(prog, im, known_functions=known_)
                    paths = it.run(pdj, {'dx': mx.Sym('dx'), 'MInt': mx.Sym('MInt', attrs={'ndim': ndim}), 'VInt': mx.Sym('VInt'), 'axis': axis, 'use_delj_trick': trick})
                    if len(paths) != 1 or paths[0][0][0] != 'return':
                        okp = False
                        why.append('use_delj_trick=%s: %d paths' % (trick, len(paths)))
                        continue
                    v = paths[0][0][1]
                    if not trick:
                        if v != 0.5:
                            okp = False
                            why.append('without the switch the function returns %s' % mx.show(v)[:40])
                        continue
                    seen = set()

                    def nonfinite(cond):
                        """(kinds of non-finite values the condition selects, the array it tests, selects-finite?) or None"""
                        for k in ('isnan', 'isinf', 'isfinite'):
                            c_ = mx.call_of(cond, k)
                            if c_ is not None and len(c_[0]) == 1:
                                return ({'nan'} if k == 'isnan' else {'inf'} if k == 'isinf' else {'nan', 'inf'}), c_[0][0], k == 'isfinite'
                        if isinstance(cond, mx.Sym) and cond.struct and cond.struct[0] == 'binop' and cond.struct[1] == '|':
                            l_, r_ = nonfinite(cond.struct[2]), nonfinite(cond.struct[3])
                            if l_ and r_ and not l_[2] and not r_[2] and mx.show(l_[1]) == mx.show(r_[1]):
                                return l_[0] | r_[0], l_[1], False
                        c_ = mx.call_of(cond, 'logical_or')
                        if c_ is not None and len(c_[0]) == 2:
                            l_, r_ = nonfinite(c_[0][0]), nonfinite(c_[0][1])
                            if l_ and r_ and not l_[2] and not r_[2] and mx.show(l_[1]) == mx.show(r_[1]):
                                return l_[0] | r_[0], l_[1], False
                        c_ = mx.call_of(cond, 'logical_not')
                        inner = c_[0][0] if c_ is not None and len(c_[0]) == 1 else (cond.struct[2] if isinstance(cond, mx.Sym) and cond.struct and cond.struct[0] == 'unary' and cond.struct[1] in ('~', 'Invert') else None)
                        if inner is not None:
                            r_ = nonfinite(inner)
                            if r_ and r_[2]:
                                return r_[0], r_[1], False
                        return None
                    for _ in range(4):
                        c = mx.call_of(v, 'where')
                        if not c or len(c[0]) != 3:
                            break
                        cond, a, b = c[0]
                        nf = nonfinite(cond)
                        if nf is None:
                            break
                        kinds, arg, selects_finite = nf
                        if selects_finite and mx.show(a) == mx.show(arg) and b == 0.5:
                            seen |= kinds
                            v = a
                        elif not selects_finite and a == 0.5 and mx.show(b) == mx.show(arg):
                            seen |= kinds
                            v = b
                        else:
                            break
                    if seen != {'nan', 'inf'}:
                        okp = False
                        why.append('non-finite values replaced: %s' % sorted(seen))
                    up = tuple(slice(None) if k == axis else 'nuax' for k in range(ndim))

                    def leaf(x):
                        if isinstance(x, mx.Sym) and x.text == 'MInt':
                            return Rat.atom('MInt@0')
                        if isinstance(x, mx.Sym) and x.struct and x.struct[0] == 'index' and mx.show(x.struct[1]) in ('dx', 'VInt'):
                            key = x.struct[2] if isinstance(x.struct[2], tuple) else (x.struct[2],)
                            if len(key) == ndim and all((mx.is_full_slice(k_) if i_ == axis else mx.is_newaxis(k_)) for i_, k_ in enumerate(key)):
                                return Rat.atom(mx.show(x.struct[1]) + '@0')
                            return None
                        e_ = mx.call_of(x, 'exp')
                        if e_ is not None:
                            return Rat.atom('EXP[%s]' % mx.to_rat(e_[0][0], leaf).canon())
                        return None
                    got = mx.to_rat(v, leaf)
                    wj_ = _parse_at('2*MInt@0*dx@0')
                    eps_ = Rat.atom('EXP[%s]' % (wj_ / _parse_at('VInt@0')).canon())
                    ref_ = chang.subs({'wj': wj_, 'epsj': eps_})
                    if not got.equals(ref_):
                        okp = False
                        why.append('%d-D axis %d: returns %s' % (ndim, axis, got.canon()[:120]))
    except mx.Undecidable as e:
        raise AnalysisError('_compute_delj is not recognised: %s' % e)
    except AlgebraError as e:
        okp = False
        why.append('not evaluable: %s' % e)
    rep.ob('R-ALG', 'Python _compute_delj', okp, 'same Chang-Cooper expression, default 0.5, non-finite values replaced by 0.5' + ('' if okp else ': ' + '; '.join(why[:2])), im.rel, pdj.lineno,
           what='Python delj equals the C delj')
    # ---- a, b, c assembly: C == reference derived from the flux form ---------------------------------------------------------
    ref = reference_scheme()
    try:
        cf, pieces, wrong, stale, fl = c_abc_contents(cprog)
    except AlgebraError as e:
        rep.ob('R-ALG', 'C compute_abc_nobc', False, 'compute_abc_nobc is not recognised: %s' % e, shared, cprog.func('compute_abc_nobc').line, what='content of the cells of a, b, c when the function returns')
        return ref
    for k in ('a', 'b_low', 'b_high', 'c'):
        u = pieces.get(k)
        ok = u.expr.equals(ref[k])
        rep.ob('R-ALG', 'C compute_abc_nobc %s' % k, ok, '%s' % u.expr.canon(), shared, u.line,
               what='coefficient %s (content of the cells when the function returns) equals the one derived from the conservative flux form' % k)
    rep.ob('R-ALG', 'C compute_abc_nobc init', not wrong, '; '.join(wrong[:3]) if wrong else 'every b cell is 1/dt plus the pieces of the interfaces it has; a[0] = c[N-1] = 0 (%d stores, %d loops)' % (len(fl.stores), fl.loops),
           shared, cf.line, what='diagonal starts at 1/dt, no coupling outside the grid')
    # order: every cell is set before it is accumulated into (otherwise it keeps what the caller passed in)
    rep.ob('R-DOM', 'C compute_abc_nobc order', not stale, '; '.join(stale[:3]) if stale else 'no cell of a, b, c depends on its content at entry', shared, cf.line,
           what='initialisation precedes accumulation')
    return ref


def roles_from_producers(fn):
    """name -> (role, axis) for the constant-parameter drivers, from the calls that produce each array"""
    roles = {}
    for st in fn.body:
        if not isinstance(st, ast.Assign):
            continue
        tg = st.targets[0]
        v = st.value
        names = [tg.id] if isinstance(tg, ast.Name) else [e.id for e in tg.elts if isinstance(e, ast.Name)] if isinstance(tg, ast.Tuple) else []
        vals = [v] if isinstance(tg, ast.Name) else (list(v.elts) if isinstance(v, ast.Tuple) and isinstance(tg, ast.Tuple) else [v] * len(names))
        for n, val in zip(names, vals):
            if isinstance(val, ast.Call):
                f = (dotted(val.func) or '').split('.')[-1]
                if f == 'diff':
                    roles[n] = 'dx'
                elif f == '_compute_dfactor':
                    roles[n] = 'dfactor'
                elif f == '_compute_delj':
                    roles[n] = 'delj'
                elif f in ('_Vfunc',):
                    roles[n] = 'VInt' if '/ 2' in ast.unparse(val.args[0]) else 'V'
                elif f.startswith('_Mfunc'):
                    roles[n] = 'MInt' if '/ 2' in ast.unparse(val.args[0]) else 'M'
    return roles


def run_python_assemblies(rep, prog, ref):
    im = prog.mod(INT)
    want = {1: ['x'], 2: ['x', 'y'], 3: ['x', 'y', 'z']}
    for D, name in ((1, '_one_pop_const_params'), (2, '_two_pops_const_params'), (3, '_three_pops_const_params')):
        fn = prog.func(INT, name)
        rep.saw_function(im.rel + ':' + name)
        roles = roles_from_producers(fn)
        # a/b/c arrays: from the kernel / solver call arguments
        abc = {}
        for c in own_nodes(fn):
            if isinstance(c, ast.Call) and (dotted(c.func) or '').startswith('int_c.implicit_precalc_'):
                ax = (dotted(c.func))[-1]
                abc[ax] = [ast.unparse(a) for a in c.args[1:4]]
            if isinstance(c, ast.Call) and dotted(c.func) == 'tridiag.tridiag':
                abc['x'] = [ast.unparse(c.args[0]), ast.unparse(c.args[1]).split(' + ')[0], ast.unparse(c.args[2])]
        rep.ob('R-EXH', '%s axes' % name, sorted(abc) == want[D], 'coefficient triples for axes %s' % sorted(abc), im.rel, fn.lineno, what='one coefficient triple per axis')
        arrays = set(roles)
        ups_by_axis = {}
        for st in fn.body:
            if isinstance(st, ast.AugAssign) and isinstance(st.target, ast.Subscript):
                base = ast.unparse(st.target.value)
                ax = next((a for a, tri in abc.items() if base in tri), None)
                if ax is None:
                    continue
                comp = st.target.slice
                is_point = not any(isinstance(c, ast.Slice) for c in (comp.elts if isinstance(comp, ast.Tuple) else [comp]))
                if is_point:
                    continue
                tri = abc[ax]

                def role(n, tri=tri):
                    if n in tri:
                        return 'abc'[tri.index(n)]
                    return roles.get(n, n)
                try:
                    u, axis_pos = py_slice_update(st, arrays | set(tri), role)
                except AlgebraError as e:
                    raise AnalysisError('%s: cannot normalise `%s`: %s' % (name, ast.unparse(st)[:80], e))
                ups_by_axis.setdefault(ax, []).append((u, axis_pos))
        for ax in want[D]:
            ups = ups_by_axis.get(ax, [])
            kpos = 'xyz'.index(ax)
            okax = all(p == kpos for _, p in ups)
            rep.ob('R-IDX', '%s axis %s' % (name, ax), okax and len(ups) == 4, 'the 4 slice updates of a%s/b%s/c%s sweep array axis %d' % (ax, ax, ax, kpos), im.rel, fn.lineno,
                   what='assembly for axis %s slices along array axis %d' % (ax, kpos))
            pieces, extra = split_abc([u for u, _ in ups])
            for k in ('a', 'b_low', 'b_high', 'c'):
                u = pieces.get(k)
                ok = u is not None and u.op == '+=' and u.expr.equals(ref[k])
                rep.ob('R-ALG', '%s axis %s %s' % (name, ax, k), ok, ('%s' % u) if u is not None else 'piece missing', im.rel, u.line if u is not None else fn.lineno,
                       what='coefficient %s of axis %s equals the C / reference coefficient' % (k, ax))
        # zero initialisation and the 1/dt added at solve time
        zeros = [s for s in fn.body if isinstance(s, ast.Assign) and 'numpy.zeros(phi.shape)' in ast.unparse(s.value)]
        inited = set()
        for s in zeros:
            for n in ast.walk(s.targets[0]):
                if isinstance(n, ast.Name):
                    inited.add(n.id)
        allabc = {x for tri in abc.values() for x in tri}
        rep.ob('R-ALG', '%s init' % name, allabc <= inited, 'coefficient arrays %s initialised with zeros(phi.shape): %s' % (sorted(allabc), sorted(inited)), im.rel, fn.lineno,
               what='coefficients start from zero')
    # 1-D solve: tridiag(a, b + 1/this_dt, c, phi/this_dt)
    fn = prog.func(INT, '_one_pop_const_params')
    sing = single_assignments(fn)
    for c in own_nodes(fn):
        if isinstance(c, ast.Call) and dotted(c.func) == 'tridiag.tridiag':
            args = [inline(a, {k_: v_ for k_, v_ in sing.items() if k_ == 'r'}) for a in c.args]
            ok = False
            try:
                ok = parse_expr(ast.unparse(args[1])).equals(parse_expr('b + 1/this_dt')) and parse_expr(ast.unparse(args[3])).equals(parse_expr('phi/this_dt')) and \
                    ast.unparse(args[0]) == 'a' and ast.unparse(args[2]) == 'c'
            except AlgebraError:
                ok = False
            rep.ob('R-ALG', '_one_pop_const_params solve', ok, ast.unparse(c), im.rel, c.lineno, what='solves (a, b + 1/dt, c) u = phi/dt')


def run_kernels(rep, cprog, tier):
    nk = 0
    for D in range(1, 6):
        for k in range(1, D + 1):
            name = kernel_name(D, k)
            cf = cprog.func(name)
            rep.saw_function(cf.rel + ':' + name)
            rep.saw_file(cf.rel)
            nk += 1

            def ob(field, ok, detail, line, cf=cf, D=D, k=k):
                rep.ob('R-TPL(kernel)', field.split('.')[0] + '[%dD,axis %d]' % (D, k), ok, detail, cf.rel, line, what=field.split('.', 1)[1])
            KernelFacts(cf, D, k, ob).check()
    for D in (2, 3):
        for k in range(1, D + 1):
            name = 'implicit_precalc_%dD%s' % (D, AXLETTER[k - 1])
            cf = cprog.func(name)
            rep.saw_function(cf.rel + ':' + name)
            nk += 1

            def ob(field, ok, detail, line, cf=cf, D=D, k=k):
                rep.ob('R-TPL(precalc)', field.split('.')[0] + '[%dD,axis %d]' % (D, k), ok, detail, cf.rel, line, what=field.split('.', 1)[1])
            precalc_check(cf, D, k, ob)
    if nk != 20:
        raise AnalysisError('expected 20 kernels, analysed %d' % nk)


def run_tridiag(rep, cprog):
    rel = 'dadi/tridiag.c'
    rep.saw_file(rel)
    tp = cprog.func('tridiag_premalloc')
    fl = cprog.func('tridiag_fl')

    def cell_tr(shift_var=None, shift=None):
        """expressions with array reads as atoms  name{index}  (index in canonical form); the loop variable optionally shifted"""
        env = {shift_var: Rat.atom(shift_var) - shift} if shift_var is not None else {}

        def index_hook(tr_, e):
            return Rat.atom('%s{%s}' % (tr_._basename(e.value), tr_.tr(e.slice).canon()))
        return Translator(env, index_hook=index_hook)

    def loop_facts(lp):
        """(direction, lowest index, highest index, [(target, op, value)]) with the loop variable shifted so that the first array store
        of the body goes to element [variable]"""
        lv = unparse(lp.init.target)
        T0 = cell_tr()
        start = T0.tr(lp.init.value)
        c = lp.cond
        if not (isinstance(c, ast.Compare) and unparse(c.left) == lv and len(c.ops) == 1 and isinstance(lp.step, CAssign) and unparse(lp.step.target) == lv and unparse(lp.step.value) == '1'):
            raise AlgebraError('loop of line %d is not a counted loop' % lp.line)
        bound = T0.tr(c.comparators[0])
        one = Rat.const(1)
        if lp.step.op == '+=' and isinstance(c.ops[0], (ast.Lt, ast.LtE)):
            direction, lo, hi = 'up', start, bound if isinstance(c.ops[0], ast.LtE) else bound - one
        elif lp.step.op == '-=' and isinstance(c.ops[0], (ast.Gt, ast.GtE)):
            direction, lo, hi = 'down', bound if isinstance(c.ops[0], ast.GtE) else bound + one, start
        else:
            raise AlgebraError('loop of line %d: direction and test do not match' % lp.line)
        stores = [s_ for s_ in lp.body if isinstance(s_, CAssign) and isinstance(s_.target, ast.Subscript)]
        if not stores or any(not isinstance(s_, CAssign) for s_ in lp.body):
            raise AlgebraError('loop of line %d has other statements than assignments' % lp.line)
        idx0 = T0.tr(stores[0].target.slice)
        shift = idx0 - Rat.atom(lv)        # the first store goes to [lv + shift]
        if not shift.is_const():
            rev = idx0 + Rat.atom(lv)          # ... or to [C - lv]: the same loop run in the other direction over j = C - lv
            if lv in rev.atoms():
                raise AlgebraError('store index of line %d is neither the loop variable plus a constant nor a constant minus it' % stores[0].line)
            Tr = Translator({lv: rev - Rat.atom(lv)}, index_hook=T0.index_hook)
            out = []
            for s_ in lp.body:
                tgt = Tr.tr(s_.target).canon() if isinstance(s_.target, ast.Subscript) else unparse(s_.target)
                op, val = s_.op, s_.value
                if op == '=' and isinstance(val, ast.BinOp) and isinstance(val.op, (ast.Sub, ast.Add)) and unparse(val.left) == unparse(s_.target):
                    op, val = ('-=' if isinstance(val.op, ast.Sub) else '+='), val.right
                out.append((tgt.replace(lv, 'j'), op, Tr.tr(val)))
            return ('down' if direction == 'up' else 'up'), rev - hi, rev - lo, out, lv
        T = cell_tr(lv, shift)
        out = []
        for s_ in lp.body:
            tgt = T.tr(s_.target).canon() if isinstance(s_.target, ast.Subscript) else unparse(s_.target)
            op, val = s_.op, s_.value
            if op == '=' and isinstance(val, ast.BinOp) and isinstance(val.op, (ast.Sub, ast.Add)) and unparse(val.left) == unparse(s_.target):
                op, val = ('-=' if isinstance(val.op, ast.Sub) else '+='), val.right
            out.append((tgt.replace(lv, 'j'), op, T.tr(val)))
        return direction, lo + shift, hi + shift, out, lv

    def thomas(cf):
        """problems of the Thomas recurrence in cf (empty when it is the recurrence); facts independent of how the loops are bounded
        and which element the loop variable names"""
        bad = []
        body = [s_ for s_ in cf.body]
        T0 = cell_tr()
        # straight-line prefix: bet = b[0]; u[0] = r[0]/bet
        pre = {}
        for s_ in body:
            if isinstance(s_, CFor):
                break
            if isinstance(s_, CDecl) and s_.init is not None and not s_.pointer:
                pre[s_.name] = T0.tr(s_.init)
            elif isinstance(s_, CAssign):
                pre[T0.tr(s_.target).canon() if isinstance(s_.target, ast.Subscript) else unparse(s_.target)] = Translator(dict((k_, v_) for k_, v_ in pre.items() if '{' not in k_), index_hook=T0.index_hook).tr(s_.value)
        if not ('bet' in pre and pre['bet'].equals(Rat.atom('b{0}'))):
            bad.append('bet starts as %s' % (pre['bet'].canon() if 'bet' in pre else 'nothing'))
        if not ('u{0}' in pre and pre['u{0}'].equals(Rat.atom('r{0}') / Rat.atom('b{0}'))):
            bad.append('u[0] = %s' % (pre['u{0}'].canon() if 'u{0}' in pre else 'nothing'))
        loops = [s_ for s_ in body if isinstance(s_, CFor)]
        if len(loops) != 2:
            raise AlgebraError('%d loops' % len(loops))
        d1, lo1, hi1, st1, v1 = loop_facts(loops[0])
        d2, lo2, hi2, st2, v2 = loop_facts(loops[1])
        n1 = Rat.atom('n') - Rat.const(1)
        if not (d1 == 'up' and lo1.equals(Rat.const(1)) and hi1.equals(n1)):
            bad.append('elimination runs %s over [%s, %s]' % (d1, lo1.canon(), hi1.canon()))
        J = Rat.atom(v1)
        at = lambda a, k=0, v=v1: Rat.atom('%s{%s}' % (a, (Rat.atom(v) + Rat.const(k)).canon()))
        want1 = [('gam{%s}' % 'j', '=', at('c', -1) / Rat.atom('bet')), ('bet', '=', at('b') - at('a') * at('gam')), ('u{%s}' % 'j', '=', (at('r') - at('a') * at('u', -1)) / Rat.atom('bet'))]
        if [(t_, o_) for t_, o_, _ in st1] != [(t_, o_) for t_, o_, _ in want1] or not all(a_[2].equals(b_[2]) for a_, b_ in zip(st1, want1)):
            bad.append('elimination step: %s' % '; '.join('%s %s %s' % (t_, o_, v_.canon()) for t_, o_, v_ in st1)[:160])
        if not (d2 == 'down' and lo2.equals(Rat.const(0)) and hi2.equals(n1 - Rat.const(1))):
            bad.append('back substitution runs %s over [%s, %s]' % (d2, lo2.canon(), hi2.canon()))
        at2 = lambda a, k=0: at(a, k, v2)
        want2 = [('u{j}', '-=', at2('gam', 1) * at2('u', 1))]
        if [(t_, o_) for t_, o_, _ in st2] != [(t_, o_) for t_, o_, _ in want2] or not all(a_[2].equals(b_[2]) for a_, b_ in zip(st2, want2)):
            bad.append('back substitution step: %s' % '; '.join('%s %s %s' % (t_, o_, v_.canon()) for t_, o_, v_ in st2)[:160])
        return bad
    for cf in (tp, fl):
        try:
            bad = thomas(cf)
            det = '; '.join(bad) if bad else 'bet = b[0]; u[0] = r[0]/bet; for j = 1..n-1: gam[j] = c[j-1]/bet, bet = b[j] - a[j] gam[j], u[j] = (r[j] - a[j] u[j-1])/bet; for j = n-2..0: u[j] -= gam[j+1] u[j+1]'
        except (AlgebraError, AttributeError, KeyError) as e:
            bad, det = ['?'], '%s is not recognised: %s' % (cf.name, e)
        rep.ob('R-ALG', 'C %s recurrence' % cf.name, not bad, det, rel, cf.line, what='Thomas algorithm: forward elimination over 1..n-1 and back substitution over n-2..0, whatever the loop bounds are written like')
    td = cprog.func('tridiag')
    seq = [unparse(s.expr) for s in td.body if isinstance(s, CExpr)]
    rep.ob('R-TPL', 'C tridiag', seq == ['tridiag_malloc(n)', 'tridiag_premalloc(a, b, c, r, u, n)', 'tridiag_free()'], '; '.join(seq), rel, td.line, what='allocate, solve, free')
    gm = cprog.func('tridiag_malloc')
    ok = len(gm.body) == 1 and isinstance(gm.body[0], CAssign) and unparse(gm.body[0].target) == 'gam' and 'malloc(n * SIZEOF)' == unparse(gm.body[0].value)
    rep.ob('R-TPL', 'C tridiag_malloc', ok, 'gam = malloc(n elements)', rel, gm.line, what='work array has n elements (indices 1..n-1 used)')


def run_pyx(rep, cprog):
    ic = PyxModule('dadi/integration_c.pyx')
    rel = ic.rel
    rep.saw_file(rel)
    # header
    hdr = open(__import__('os').path.join(__import__('sa.report', fromlist=['REPO']).REPO, 'dadi/integration_cython.h')).read()
    n = 0
    for name, w in sorted(ic.wrappers.items()):
        n += 1
        alias, args = w.c_call if w.c_call else (None, [])
        ext = ic.externs.get(alias)
        cf = cprog.funcs.get(name)
        if ext is None or cf is None:
            rep.ob('R-TPL(pyx)', 'integration_c.%s' % name, False, 'wrapper does not forward to a known C function (%s)' % alias, rel, w.line, what='forwards to the C function of the same name')
            continue
        ok_name = ext.cname == name
        # prototype vs C definition
        ok_proto = [(t.replace(' ', ''), n_) for t, n_ in ext.params] == [(t.replace(' ', ''), n_) for t, n_ in cf.params]
        rep.ob('R-TPL(pyx)', 'integration_c.%s prototype' % name, ok_name and ok_proto, 'cdef extern %s(%s) vs C definition (%s)' % (ext.cname, ', '.join(p for _, p in ext.params), ', '.join(cf.param_names())),
               rel, ext.line, what='extern prototype equals the C definition (names, types, order)')
        mh = re.search(r'void\s+%s\s*\(([^)]*)\)' % re.escape(name), hdr)
        okh = False
        if mh:
            hp = [' '.join(p.split()) for p in mh.group(1).split(',')]
            hn = [re.match(r'(.*?)(\w+)$', p).group(2) for p in hp]
            okh = hn == cf.param_names()
        rep.ob('R-TPL(pyx)', 'integration_c.%s header' % name, okh, 'integration_cython.h declares %s with the same parameter order' % name, 'dadi/integration_cython.h', 1, what='header agrees with the definition')
        # forwarding: pointer params as <double*> X.data, scalars by name, extents phi.shape[i]
        cp = cf.params
        exp = []
        D = int(re.search(r'(\d)D', name).group(1))
        notes = []
        for (t, pname) in cp:
            if t == 'double*':
                exp.append('<double*> %s.data' % pname)
            elif pname in EXTENTS:
                exp.append('phi.shape[%d]' % EXTENTS.index(pname))
            elif re.fullmatch(r'[LMNOP](start|end)', pname):
                exp.append(None)   # sub-range: checked separately
            else:
                exp.append(pname)
        got = list(args)
        okf = len(got) == len(exp)
        for g, e, (t, pname) in zip(got, exp, cp):
            if e is None:
                continue
            if g.replace(' ', '') != e.replace(' ', ''):
                okf = False
        rep.ob('R-TPL(pyx)', 'integration_c.%s forwarding' % name, okf, '%s(%s); expected %s' % (alias, ', '.join(got), ', '.join('<range>' if e is None else e for e in exp)), rel, w.line,
               what='arguments forwarded in prototype order with phi.shape[i] as extents')
        # sub-range bounds: full range of SOME axis (under the documented equal-extent convention the axis does not matter)
        sub = [(g, pname) for g, e, (t, pname) in zip(got, exp, cp) if e is None]
        if sub:
            lo, hi = sub[0][0], sub[1][0]
            ax_letter = sub[0][1][0]
            okr = lo == '0' and re.fullmatch(r'phi\.shape\[\d\]', hi) is not None
            rep.ob('R-TPL(pyx)', 'integration_c.%s subrange' % name, okr, 'sub-range [%s, %s)' % (lo, hi), rel, w.line, what='sub-range covers a full axis')
            if okr and hi != 'phi.shape[%d]' % EXTENTS.index(ax_letter):
                rep.note('pyx note %s: sub-range bound %s belongs to another axis than the loop it limits (%s); immaterial under the equal-extent convention (F16)' % (name, hi, sub[0][1]))
        rep.ob('R-TPL(pyx)', 'integration_c.%s return' % name, w.returns == 'phi' and w.params[0] == 'phi', 'returns %s' % w.returns, rel, w.line, what='returns the array it updated')
        okp = w.params == [p for (t, p) in cp if not (p in EXTENTS or re.fullmatch(r'[LMNOP](start|end)', p))]
        rep.ob('R-TPL(pyx)', 'integration_c.%s parameters' % name, okp, 'python parameters %s' % w.params, rel, w.line, what='python-level parameters are the C parameters minus extents, in order')
    if n != 20:
        raise AnalysisError('expected 20 wrappers in integration_c.pyx, found %d' % n)
    tc = PyxModule('dadi/tridiag_cython.pyx')
    w = tc.wrappers.get('tridiag')
    ok = w is not None and w.c_call and w.c_call[1] == ['<double*> a.data', '<double*> b.data', '<double*> c.data', '<double*> r.data', '<double*> u.data', 'a.size'] and w.returns == 'u' \
        and 'np.empty(a.size' in w.locals.get('u', '')
    rep.ob('R-TPL(pyx)', 'tridiag_cython.tridiag', bool(ok), 'forwards (a, b, c, r, fresh u, a.size) and returns u', tc.rel, w.line if w else 1, what='solver wrapper')


def mig_names(D, k):
    return ['m%d%d' % (k, j) for j in range(1, D + 1) if j != k]


def run_drivers(rep, prog):
    im = prog.mod(INT)
    for D, name in WORDS.items():
        fn = prog.func(INT, name)
        rep.saw_function(im.rel + ':' + name)
        sfx = lambda base, k: base if D == 1 else '%s%d' % (base, k)
        grids = GRIDS[:D]
        # ---- kernel calls in the time loop --------------------------------------------------------------
        loop = [n for n in fn.body if isinstance(n, ast.While)]
        if len(loop) != 1:
            raise AnalysisError('%s: expected one time loop' % name)
        loop = loop[0]
        rep.ob('R-DOM', '%s loop' % name, ast.unparse(loop.test) == 'current_t < T', 'while %s' % ast.unparse(loop.test), im.rel, loop.lineno, what='integrates until T')
        seq = []
        for st in loop.body:
            for c in ast.walk(st):
                if isinstance(c, ast.Call) and (dotted(c.func) or '').startswith('int_c.implicit_'):
                    seq.append((st, c))
                if isinstance(c, ast.Call) and (dotted(c.func) or '').startswith('_inject_mutations_'):
                    seq.append((st, c))
        names_seq = [dotted(c.func) for _, c in seq]
        exp_seq = ['_inject_mutations_%dD' % D] + ['int_c.' + kernel_name(D, k) for k in range(1, D + 1)]
        rep.ob('R-TPL(driver)', '%s sweep order' % name, names_seq == exp_seq, 'calls in the loop: %s' % names_seq, im.rel, loop.lineno, what='injection first, then axes 1..D in order')
        for st, c in seq:
            f = dotted(c.func)
            args = [ast.unparse(a) for a in c.args] + ['%s=%s' % (k.arg, ast.unparse(k.value)) for k in c.keywords]
            if f.startswith('_inject'):
                fl = ['frozen'] if False else [sfx('frozen', k) for k in range(1, D + 1)]
                exp = ['phi', 'this_dt'] + grids + ['theta0'] + ([] if D == 1 else fl) + (['nomut1', 'nomut2'] if D == 2 else [])
                rep.ob('R-IDX', '%s inject' % name, args == exp, '%s(%s); expected (%s)' % (f, ', '.join(args), ', '.join(exp)), im.rel, c.lineno, what='injection receives the step, grids, theta0 and flags in order')
                continue
            k = AXLETTER.index(f[-1]) + 1
            exp = ['phi'] + grids + [sfx('nu', k)] + mig_names(D, k) + [sfx('gamma', k), sfx('h', k)] + (['beta'] if D == 1 else []) + ['this_dt']
            tail = args[len(exp):]
            ok = args[:len(exp)] == exp and tail in (['use_delj_trick'], ['use_delj_trick=use_delj_trick'])
            rep.ob('R-IDX', '%s sweep axis %d' % (name, k), ok, '%s(%s); expected (%s, use_delj_trick)' % (f, ', '.join(args), ', '.join(exp)), im.rel, c.lineno,
                   what='sweep of axis %d receives nu_%d, m_%d*, gamma_%d, h_%d, this_dt' % (k, k, k, k, k))
            # result rebinding and frozen guard
            par = getattr(c, '_parent', None)
            okb = isinstance(par, ast.Assign) and ast.unparse(par.targets[0]) == 'phi'
            if D > 1:
                g = getattr(par, '_parent', None)
                okb = okb and isinstance(g, ast.If) and ast.unparse(g.test) == 'not %s' % sfx('frozen', k)
            rep.ob('R-DOM', '%s sweep axis %d guard' % (name, k), okb, 'phi = kernel(...) %s' % ('under `not frozen%d`' % k if D > 1 else ''), im.rel, c.lineno,
                   what='result rebinds phi; skipped only when that population is frozen')
        # ---- time step ---------------------------------------------------------------------------------------
        dts = [c for c in ast.walk(loop) if isinstance(c, ast.Call) and dotted(c.func) == '_compute_dt']
        got = sorted(tuple(ast.unparse(a) for a in c.args) for c in dts)
        dnames = ['dx', 'dy', 'dz', 'da', 'db']
        exp = sorted((dnames[k - 1], sfx('nu', k), '[%s]' % ', '.join(mig_names(D, k)) if D > 1 else '[0]', sfx('gamma', k), sfx('h', k)) for k in range(1, D + 1))
        rep.ob('R-IDX', '%s time step' % name, got == exp, '_compute_dt calls %s' % got, im.rel, loop.lineno, what='dt = min over axes of _compute_dt(d_k, nu_k, [m_k*], gamma_k, h_k)')
        sing_loop = {ast.unparse(s.targets[0]): s.value for s in loop.body if isinstance(s, ast.Assign) and isinstance(s.targets[0], ast.Name)}
        okt = ast.unparse(sing_loop.get('this_dt')) == 'min(dt, T - current_t)' and ast.unparse(sing_loop.get('next_t')) == 'current_t + this_dt' and \
            ast.unparse(sing_loop.get('current_t')) == 'next_t'
        dtv = sing_loop.get('dt')
        okt = okt and dtv is not None and ((D == 1 and isinstance(dtv, ast.Call) and dotted(dtv.func) == '_compute_dt') or (isinstance(dtv, ast.Call) and dotted(dtv.func) == 'min' and len(dtv.args) == D))
        rep.ob('R-TPL(driver)', '%s stepping' % name, okt, 'this_dt = min(dt, T - current_t); next_t = current_t + this_dt; current_t = next_t', im.rel, loop.lineno, what='time stepping')
        # the d_k are diffs of the own grids
        pre = {}
        for st in fn.body:
            if isinstance(st, ast.Assign):
                if isinstance(st.targets[0], ast.Tuple) and isinstance(st.value, ast.Tuple):
                    for t, v in zip(st.targets[0].elts, st.value.elts):
                        pre[ast.unparse(t)] = ast.unparse(v)
                else:
                    pre[ast.unparse(st.targets[0])] = ast.unparse(st.value)
        okd = all(pre.get(dnames[k - 1]) == 'numpy.diff(%s)' % grids[k - 1] for k in range(1, D + 1))
        rep.ob('R-IDX', '%s grid spacings' % name, okd, ', '.join('%s=%s' % (dnames[k - 1], pre.get(dnames[k - 1])) for k in range(1, D + 1)), im.rel, fn.lineno, what='d_k = diff(grid_k)')
        # ---- refresh of time-varying parameters --------------------------------------------------------------------
        tv = [p for p in positional_params(fn) if re.fullmatch(r'(nu|gamma|h)\d?|m\d\d|theta0|beta', p)]
        refreshed = {}
        for st in loop.body:
            if isinstance(st, ast.Assign):
                tg, vl = st.targets[0], st.value
                pairs = list(zip(tg.elts, vl.elts)) if isinstance(tg, ast.Tuple) and isinstance(vl, ast.Tuple) else [(tg, vl)]
                for t, v in pairs:
                    if isinstance(v, ast.Call) and ast.unparse(v.args[0] if v.args else v) == 'next_t' and isinstance(v.func, ast.Name):
                        refreshed[ast.unparse(t)] = v.func.id
        bad = [p for p in tv if refreshed.get(p) != p + '_f']
        rep.ob('R-EXH', '%s refresh' % name, not bad, 'parameters refreshed at next_t: %s; missing or mismatched: %s' % (sorted(refreshed), bad), im.rel, loop.lineno,
               what='every time-varying parameter p is re-evaluated as p_f(next_t)')
        wraps = {}
        for st in fn.body:
            if isinstance(st, ast.Assign):
                tg, vl = st.targets[0], st.value
                pairs = list(zip(tg.elts, vl.elts)) if isinstance(tg, ast.Tuple) and isinstance(vl, ast.Tuple) else [(tg, vl)]
                for t, v in pairs:
                    if isinstance(v, ast.Call) and dotted(v.func) == 'Misc.ensure_1arg_func':
                        wraps[ast.unparse(t)] = ast.unparse(v.args[0])
        badw = [p for p in tv if wraps.get(p + '_f') != p]
        rep.ob('R-EXH', '%s wrap' % name, not badw, 'p_f = ensure_1arg_func(p) for %d parameters; mismatched: %s' % (len(tv), badw), im.rel, fn.lineno, what='each parameter is wrapped into its own function of time')
        init = {}
        for st in fn.body:
            if isinstance(st, ast.Assign):
                tg, vl = st.targets[0], st.value
                pairs = list(zip(tg.elts, vl.elts)) if isinstance(tg, ast.Tuple) and isinstance(vl, ast.Tuple) else [(tg, vl)]
                for t, v in pairs:
                    if isinstance(v, ast.Call) and v.args and ast.unparse(v.args[0]) == 'current_t' and isinstance(v.func, ast.Name):
                        init[ast.unparse(t)] = v.func.id
        badi = [p for p in tv if p not in ('theta0',) and init.get(p) != p + '_f']
        rep.ob('R-EXH', '%s initial values' % name, not badi, 'parameters evaluated at the initial time: %s; mismatched: %s' % (sorted(init), badi), im.rel, fn.lineno,
               what='the first time step uses p_f(initial_t)')
        # ---- constant dispatch ----------------------------------------------------------------------------------------------
        if D <= 3:
            vc = single_assignments(fn).get('vars_to_check')
            cc = [c for c in own_nodes(fn) if isinstance(c, ast.Call) and (dotted(c.func) or '').startswith('_%s_const_params' % name.replace('_pop', '_pop').replace('_pops', '_pops'))]
            cc = [c for c in own_nodes(fn) if isinstance(c, ast.Call) and (dotted(c.func) or '').endswith('_const_params')]
            # the collection whose members are tested with numpy.isscalar: the iterable of a comprehension / generator whose element
            # is isscalar(<its variable>) - a display, or a name bound once to a display
            sing_d = single_assignments(fn)
            disp = None
            for comp in own_nodes(fn):
                if isinstance(comp, (ast.ListComp, ast.GeneratorExp)) and len(comp.generators) == 1 and isinstance(comp.elt, ast.Call) and (dotted(comp.elt.func) or '').endswith('isscalar') \
                        and len(comp.elt.args) == 1 and ast.unparse(comp.elt.args[0]) == ast.unparse(comp.generators[0].target):
                    itx = comp.generators[0].iter
                    if isinstance(itx, ast.Name):
                        itx = sing_d.get(itx.id)
                    if isinstance(itx, (ast.Tuple, ast.List)):
                        disp = itx
            if disp is None and isinstance(vc, (ast.Tuple, ast.List)):
                disp = vc
            if disp is None or len(cc) != 1:
                raise AnalysisError('%s: constant dispatch not found' % name)
            checked = {ast.unparse(e) for e in disp.elts}
            callee = prog.resolve_call(im, cc[0], scope=fn)
            b, problems = bind_call(callee, cc[0])
            fwd = {p for p in b if re.fullmatch(r'(nu|gamma|h)\d?|m\d\d|theta0|beta', p)}
            rep.ob('R-SIG', '%s const call' % name, not problems and all(ast.unparse(v) == p for p, v in b.items()), 'call to %s binds each parameter to the like-named variable' % callee.name,
                   im.rel, cc[0].lineno, what='constant driver receives the like-named parameters')
            rep.ob('R-EXH', '%s const dispatch' % name, fwd <= checked, 'forwarded %s; tested for scalar-ness %s' % (sorted(fwd), sorted(checked)), im.rel, cc[0].lineno,
                   what='every parameter handed to the constant driver was tested to be a scalar')
            allp = {p for p in positional_params(fn) if re.fullmatch(r'(nu|gamma|h)\d?|m\d\d|theta0|beta', p)}
            rep.ob('R-EXH', '%s const coverage' % name, allp <= fwd, 'model parameters %s all forwarded' % sorted(allp), im.rel, cc[0].lineno, what='no parameter is dropped on the constant path')
    # ---- constant drivers: V/M producers ----------------------------------------------------------------------------------------
    for D, name in ((1, '_one_pop_const_params'), (2, '_two_pops_const_params'), (3, '_three_pops_const_params')):
        fn = prog.func(INT, name)
        sfx = lambda base, k: base if D == 1 else '%s%d' % (base, k)
        grids = GRIDS[:D]
        # the constant drivers bind all grids to one object (`zz = yy = xx`): then any of the names denotes the same grid, and
        # the axis of a coefficient is decided by the letter of its name and by the broadcast position, not by the grid name
        alias_root = {}
        for st0 in fn.body:
            if isinstance(st0, ast.Assign) and isinstance(st0.value, ast.Name) and all(isinstance(t_, ast.Name) for t_ in st0.targets):
                for t_ in st0.targets:
                    alias_root[t_.id] = alias_root.get(st0.value.id, st0.value.id)
        same_grid = D > 1 and len({alias_root.get(g, g) for g in grids}) == 1

        def letter_axis(tgt_):
            m_ = re.fullmatch(r'[VM]([xyz]?)(Int)?', tgt_)
            return ('xyz'.index(m_.group(1)) + 1) if m_ and m_.group(1) else (1 if m_ else None)

        def broadcast_axis(e_):
            for sub in ast.walk(e_):
                if isinstance(sub, ast.Subscript) and isinstance(sub.slice, ast.Tuple):
                    pos = [i for i, c in enumerate(sub.slice.elts) if isinstance(c, ast.Slice)]
                    if len(pos) == 1:
                        return pos[0] + 1
            return None

        def canon(txt_):
            if same_grid:
                for g_ in grids:
                    txt_ = re.sub(r'\b%s\b' % g_, 'xx', txt_)
            return txt_
        for st in fn.body:
            if not (isinstance(st, ast.Assign) and isinstance(st.value, ast.Call)):
                continue
            f = dotted(st.value.func) or ''
            tgt = ast.unparse(st.targets[0])
            if f == '_Vfunc':
                if same_grid:
                    k = letter_axis(tgt)
                    gname = 'xx'
                    okg = k is not None and 'xx' in canon(ast.unparse(st.value.args[0]))
                else:
                    k = next((i + 1 for i, g in enumerate(grids) if g in ast.unparse(st.value.args[0])), None)
                    gname = grids[k - 1] if k else None
                    okg = k is not None and all(g not in ast.unparse(st.value.args[0]) for i, g in enumerate(grids) if i + 1 != k)
                a1 = ast.unparse(st.value.args[1])
                ok = k is not None and a1 == sfx('nu', k) and okg
                if D == 1:
                    ok = ok and any(kw.arg == 'beta' and ast.unparse(kw.value) == 'beta' for kw in st.value.keywords)
                mid = '/ 2' in ast.unparse(st.value.args[0])
                if mid and ok:
                    try:
                        txt = canon(ast.unparse(st.value.args[0]))
                        ok = ok and parse_expr(re.sub(r'\[[^\]]*\]', '', txt).replace(gname, 'G')).equals(parse_expr('(G + G)/2'))
                    except AlgebraError:
                        ok = False
                rep.ob('R-IDX', '%s %s' % (name, tgt), bool(ok), ast.unparse(st)[:100], im.rel, st.lineno, what='V of axis %s uses its own grid and nu' % k)
            if f.startswith('_Mfunc'):
                args = st.value.args
                if same_grid:
                    k = letter_axis(tgt)
                    kb = broadcast_axis(args[0])
                    if kb is not None and k is not None and kb != k:
                        k = None
                else:
                    k = next((i + 1 for i, g in enumerate(grids) if g in ast.unparse(args[0])), None)
                if k is None:
                    rep.ob('R-IDX', '%s %s' % (name, tgt), False, ast.unparse(st)[:100], im.rel, st.lineno, what='M uses a grid')
                    continue
                others = [j for j in range(1, D + 1) if j != k]
                if same_grid:
                    coord_axes = [broadcast_axis(a) for a in args[1:D]]
                else:
                    coord_axes = [next((i + 1 for i, g in enumerate(grids) if ast.unparse(a).startswith(g)), None) for a in args[1:D]]
                rest = [ast.unparse(a) for a in args[D:]]
                ok = f == '_Mfunc%dD' % D and coord_axes == others and rest == mig_names(D, k) + [sfx('gamma', k), sfx('h', k)]
                # broadcasting: grid g_a must carry its full slice at array axis a-1
                if not same_grid:
                    for a_ in list(args[:D]):
                        for sub in ast.walk(a_):
                            if isinstance(sub, ast.Subscript) and isinstance(sub.slice, ast.Tuple):
                                g = ast.unparse(sub.value)
                                pos = [i for i, c in enumerate(sub.slice.elts) if isinstance(c, ast.Slice)]
                                if g in grids and pos != [grids.index(g)]:
                                    ok = False
                rep.ob('R-IDX', '%s %s' % (name, tgt), ok, ast.unparse(st)[:140], im.rel, st.lineno,
                       what='M of axis %d: other coordinates in ascending axis order, rates %s, each grid broadcast on its own axis' % (k, mig_names(D, k)))
            if f == '_compute_delj':
                args = [ast.unparse(a) for a in st.value.args]
                kw = {k_.arg: ast.unparse(k_.value) for k_ in st.value.keywords}
                L = tgt[-1] if D > 1 else ''
                exp = ['d' + (L or 'x'), 'M%sInt' % L, 'V%sInt' % L]
                axis = kw.get('axis', '0')
                ok = args == exp and axis == str('xyz'.index(L) if L else 0)
                rep.ob('R-IDX', '%s %s' % (name, tgt), ok, ast.unparse(st), im.rel, st.lineno, what='delj from the spacing, MInt and VInt of the same axis')
        # time loop of the constant driver: injection, then the precomputed-coefficient sweeps in axis order
        loop = [n for n in fn.body if isinstance(n, ast.While)]
        if len(loop) != 1:
            raise AnalysisError('%s: expected one time loop' % name)
        loop = loop[0]
        seq = []
        for st in loop.body:
            for c in ast.walk(st):
                if isinstance(c, ast.Call) and ((dotted(c.func) or '').startswith('int_c.implicit_precalc_') or (dotted(c.func) or '').startswith('_inject_mutations_')
                                                or dotted(c.func) == 'tridiag.tridiag'):
                    seq.append(c)
        exp_seq = ['_inject_mutations_%dD' % D] + (['tridiag.tridiag'] if D == 1 else ['int_c.implicit_precalc_%dD%s' % (D, AXLETTER[k - 1]) for k in range(1, D + 1)])
        rep.ob('R-TPL(driver)', '%s sweep order' % name, [dotted(c.func) for c in seq] == exp_seq, 'calls in the loop: %s' % [dotted(c.func) for c in seq], im.rel, loop.lineno,
               what='injection first, then axes 1..D in order')
        for c in seq:
            f = dotted(c.func)
            args = [ast.unparse(a) for a in c.args]
            if f.startswith('_inject'):
                exp = ['phi', 'this_dt'] + grids + ['theta0'] + ([] if D == 1 else [sfx('frozen', k) for k in range(1, D + 1)]) + (['nomut1', 'nomut2'] if D == 2 else [])
                rep.ob('R-IDX', '%s inject' % name, args == exp, '%s(%s); expected (%s)' % (f, ', '.join(args), ', '.join(exp)), im.rel, c.lineno,
                       what='injection receives the step, grids, theta0 and flags in order')
            elif f.startswith('int_c.'):
                k = AXLETTER.index(f[-1]) + 1
                L = AXLETTER[k - 1]
                exp = ['phi', 'a' + L, 'b' + L, 'c' + L, 'this_dt']
                par = getattr(c, '_parent', None)
                g = getattr(par, '_parent', None)
                okg = isinstance(par, ast.Assign) and ast.unparse(par.targets[0]) == 'phi' and isinstance(g, ast.If) and ast.unparse(g.test) == 'not %s' % sfx('frozen', k)
                rep.ob('R-IDX', '%s sweep axis %d' % (name, k), args == exp and okg, '%s(%s) %s' % (f, ', '.join(args), 'under `not frozen%d`' % k if okg else 'NOT guarded by its frozen flag'), im.rel, c.lineno,
                       what='precomputed sweep of axis %d receives its own coefficient arrays and the step' % k)
        sl = {ast.unparse(s.targets[0]): ast.unparse(s.value) for s in loop.body if isinstance(s, ast.Assign) and isinstance(s.targets[0], ast.Name)}
        aug = [ast.unparse(s) for s in loop.body if isinstance(s, ast.AugAssign)]
        rep.ob('R-TPL(driver)', '%s stepping' % name, sl.get('this_dt') == 'min(dt, T - current_t)' and aug == ['current_t += this_dt'] and ast.unparse(loop.test) == 'current_t < T',
               'this_dt = %s; %s' % (sl.get('this_dt'), aug), im.rel, loop.lineno, what='time stepping')
        dts = [c for c in own_nodes(fn) if isinstance(c, ast.Call) and dotted(c.func) == '_compute_dt']
        got = sorted(tuple(ast.unparse(a) for a in c.args) for c in dts)
        dn_ = ['dx', 'dy', 'dz']
        exp = sorted((dn_[k - 1], sfx('nu', k), '[%s]' % ', '.join(mig_names(D, k)) if D > 1 else '[0]', sfx('gamma', k), sfx('h', k)) for k in range(1, D + 1))
        rep.ob('R-IDX', '%s time step' % name, got == exp, '_compute_dt calls %s' % got, im.rel, fn.lineno, what='dt = min over axes of _compute_dt(d_k, nu_k, [m_k*], gamma_k, h_k)')
        # boundary additions at the two corners only
        for st in fn.body:
            if isinstance(st, ast.If) and isinstance(st.test, ast.Compare) and isinstance(st.test.left, ast.Subscript) and ast.unparse(st.test.left.value).startswith('M'):
                Mn = ast.unparse(st.test.left.value)
                idx = [ast.unparse(e) for e in (st.test.left.slice.elts if isinstance(st.test.left.slice, ast.Tuple) else [st.test.left.slice])]
                first = all(i == '0' for i in idx)
                last = all(i == '-1' for i in idx)
                L = Mn[1] if D > 1 and len(Mn) > 1 else ''
                k = ('xyz'.index(L) + 1) if L else 1
                asg = st.body[0] if len(st.body) == 1 and isinstance(st.body[0], ast.AugAssign) else None
                ok = (first or last) and len(idx) == D and asg is not None and not st.orelse
                if ok:
                    tidx = [ast.unparse(e) for e in (asg.target.slice.elts if isinstance(asg.target.slice, ast.Tuple) else [asg.target.slice])]
                    bname = ast.unparse(asg.target.value)
                    ok = tidx == idx and bname == ('b' + L) and isinstance(st.test.ops[0], ast.LtE if first else ast.GtE) and ast.unparse(st.test.comparators[0]) == '0'
                    try:
                        dn = 'd' + (L or 'x')
                        mref = ast.unparse(st.test.left)
                        if first:
                            refe = parse_expr('(0.5/NU - MM)*2/DD').subs({'NU': Rat.atom(sfx('nu', k)), 'MM': Rat.atom('MM'), 'DD': Rat.atom('DD')})
                        else:
                            refe = Rat.const(0) - parse_expr('(-0.5/NU - MM)*2/DD').subs({'NU': Rat.atom(sfx('nu', k)), 'MM': Rat.atom('MM'), 'DD': Rat.atom('DD')})
                        txt = ast.unparse(asg.value).replace(mref, 'MM').replace('%s[%s]' % (dn, '0' if first else '-1'), 'DD')
                        ok = ok and parse_expr(txt).equals(refe)
                    except AlgebraError:
                        ok = False
                rep.ob('R-TPL(driver)', '%s boundary %s %s' % (name, Mn, 'zero corner' if first else 'one corner'), bool(ok), 'if %s: %s' % (ast.unparse(st.test), ast.unparse(asg) if asg else '?'), im.rel, st.lineno,
                       what='absorbing term only at the all-%s corner with the reference expression' % ('zero' if first else 'one'))


# single-precision code that is single precision on purpose: one named symbol, one reason
_SINGLE_PRECISION_BY_DESIGN = {'tridiag_fl': 'the float sibling of tridiag exported as a separate API (tridiag_cython.tridiag_fl); no kernel calls it (checked: call sites below)'}


def rule_c_precision(rep, cprog):
    """R-CTYPE: every floating-point parameter, local and return value of the kernels, coefficient functions and the solver they call
    is double, and no floating-point value is stored into an int variable (a `float` temporary or an int truncation changes the
    result of the documented scheme at the 1e-7 level without any test noticing)"""
    from sa.cfront import c_narrow_storage
    callers = []
    for name, cf in sorted(cprog.funcs.items()):
        if name in _SINGLE_PRECISION_BY_DESIGN:
            continue
        for st in cf.walk():
            for h, a in __import__('sa.cfront', fromlist=['_expr_fields'])._expr_fields(st):
                e = getattr(h, a)
                if isinstance(e, ast.AST):
                    for n in ast.walk(e):
                        if isinstance(n, ast.Call) and isinstance(n.func, ast.Name) and n.func.id in _SINGLE_PRECISION_BY_DESIGN:
                            callers.append((name, st.line, n.func.id))
    for name, cf in sorted(cprog.funcs.items()):
        if name in _SINGLE_PRECISION_BY_DESIGN:
            continue
        bad = c_narrow_storage(cf)
        rep.ob('R-CTYPE', 'C %s precision' % name, not bad, 'all floating-point storage is double; nothing floating is stored into an int' if not bad else
               '; '.join('line %d: %s' % b for b in bad[:3]), cf.rel, cf.line, what='the scheme is evaluated in double precision throughout')
    rep.ob('R-CTYPE', 'single-precision solver call sites', not callers, 'no kernel calls %s' % ', '.join(sorted(_SINGLE_PRECISION_BY_DESIGN)) if not callers else
           '; '.join('%s line %d calls %s' % c for c in callers[:3]), 'dadi/tridiag.c', 1, what='the single-precision solver is never used by the integration kernels')


def rule_c_intdiv(rep, cprog):
    """R-CTYPE: a quotient of two integer-typed operands is truncated by C (1/2 == 0); the formulas of the scheme mean real quotients"""
    from sa.cfront import c_integer_division
    for name, cf in sorted(cprog.funcs.items()):
        bad = c_integer_division(cf)
        rep.ob('R-CTYPE', 'C %s integer quotient' % name, not bad, 'no quotient of two integer operands' if not bad else
               '; '.join('line %d: `%s` is an integer division (truncated before it is used in floating point)' % b for b in bad), cf.rel, cf.line,
               what='quotients inside the coefficient formulas are real quotients')


def run(rep, prog, tier):
    cprog = CProgram()
    ref = run_shared(rep, prog, cprog)
    run_python_assemblies(rep, prog, ref)
    run_kernels(rep, cprog, tier)
    run_tridiag(rep, cprog)
    run_pyx(rep, cprog)
    run_drivers(rep, prog)
    # constructed multi-dimensional indices (both settings of the delj switch must be executable)
    for modname in ('dadi.Integration', 'dadi.Numerics'):
        mm = prog.mod(modname)
        for q, fn in mm.funcs.items():
            generic.rule_npindex(rep, mm, fn)
    for q in ('_compute_delj', '_compute_dfactor', '_compute_dt', '_Vfunc', '_Mfunc1D', '_Mfunc2D', '_Mfunc3D', 'one_pop', 'two_pops', 'three_pops', 'four_pops', 'five_pops',
              '_one_pop_const_params', '_two_pops_const_params', '_three_pops_const_params'):
        fn = prog.func(INT, q)
        generic.rule_name(rep, prog, prog.mod(INT), fn)
        generic.rule_def(rep, prog.mod(INT), fn)
    rep.floor('R-NPIDX', 2)
    # the kernels sweep a raw C-ordered block (the .pyx wrappers pass phi.data): the scheme of axis k is applied to population k
    # only if the array handed over is C-contiguous and owned (rule shared with C20 and C04)
    from rules import c20
    from sa.report import Scoped
    c20.run(Scoped(rep, lambda rule, construct, what: rule == 'R-LAYOUT' and 'Integration.py' in construct), prog, tier)
    rep.floor('R-LAYOUT', 15)
    # C: the integer abs() applied to a floating-point value truncates it first (|x| < 1 -> 0); fabs() is the floating-point one
    from sa.cfront import c_integer_abs_on_double
    for name, cf in sorted(cprog.funcs.items()):
        bad = c_integer_abs_on_double(cf)
        rep.ob('R-CTYPE', 'C %s' % name, not bad, 'no integer abs() of a floating-point value' if not bad else
               '; '.join('line %d: %s converts its floating-point argument to int (use fabs)' % b for b in bad), cf.rel, cf.line,
               what='absolute values of floating-point quantities are taken in floating point')
    rule_c_intdiv(rep, cprog)
    rule_c_precision(rep, cprog)
    rep.floor('R-TPL(kernel)', 330)
    rep.floor('R-TPL(precalc)', 35)
    rep.floor('R-TPL(pyx)', 100)
    rep.floor('R-ALG', 50)
    rep.floor('R-IDX', 50)
