"""C18 - low-pass calling model redistributes probability: the statically decidable construction rules."""
import ast, re, itertools
from fractions import Fraction
from sa.algebra import Rat, Translator, AlgebraError, parse_expr
from sa.srcmodel import own_nodes, dotted, positional_params, func_params
from sa.report import AnalysisError

EXPLANATION = (
    "Row-stochasticity, continuity in F and the deep-coverage limit are numerical; decided here are the construction rules they "
    "rest on. R-NORM: every probability vector that is returned is v/sum(v) of its own elements (7 sites). R-ALG: partition "
    "weights are multinomial(n00,n01,n11)*2^n01 in both arms, the inbreeding weights pair genotype g with BetaBinom(g;2,alpha,"
    "beta), alpha = p(1-F)/F, beta = (1-p)(1-F)/F, p = alt-allele frequency of the partition; the no-call probability is "
    "G(0)+G'(0) of the read generating function; the enough-coverage probability is a complete binomial tail over the other "
    "N-1 individuals; the heterozygote error is 2*sum c_d 2^-d over depths >= 1 normalised on the same slice. R-MULT: "
    "projection_inbreeding counts every combination of individuals with its multiplicity (list/iterator of "
    "itertools.combinations, never a set) and indexes by the allele sum of k//2 individuals. R-SUPP: each binomial pmf in "
    "calling_error_matrix is accumulated over its complete support 0..n and lands at allele_freq + n_alt - n_ref. R-ARGS: "
    "every helper receives (coverage, sequenced size, subsample size, F) in the order of its parameters, "
    "_cached_projection(to, from, hits). R-RESTORE(axes): by evaluating the axis permutations of the transformation loop for "
    "1-3 populations, each iteration returns the array to its original axis order. R-COMPL: the analytic part is weighted "
    "by 1-use_sim_mat and 1-prob_nocall, the simulated part runs over argwhere(use_sim_mat) of the same matrix; the model is "
    "evaluated at the sequenced sizes; Fx == 1 is refused; the cache key determines everything the cached value depends on.")
TECHNIQUE = "normalisation-by-construction and support-completeness rules on the AST, exact algebra on the closed forms, permutation evaluation of axis moves, argument-role correspondence"
DECLINED = ["row sums equal to one as numerical facts", "continuity as F -> 0", "deep-coverage limit equals plain projection (numerical)", "statistical behaviour of the simulated regime"]

LP = 'dadi.LowPass.LowPass'
NUM = 'dadi.Numerics'


from sa.pattern import has, flat
from sa import miniexec as mx


def sa_get(d, key):
    for k, v in d.items():
        if flat(k) == flat(key):
            return v
    raise KeyError(key)


def body_wo_doc(fn):
    return [s for s in fn.body if not (isinstance(s, ast.Expr) and isinstance(s.value, ast.Constant))]


def norm_site(rep, m, fn, what, expr, label):
    """expr must be  V / sum(V)  (sum, numpy.sum, V.sum()) with the same V"""
    ok = False
    det = ast.unparse(expr) if expr is not None else 'no such expression'
    if isinstance(expr, ast.BinOp) and isinstance(expr.op, ast.Div):
        v = ast.unparse(expr.left)
        d = expr.right
        if isinstance(d, ast.Call):
            f = dotted(d.func) or ''
            if f in ('sum', 'numpy.sum', 'np.sum') and len(d.args) == 1 and ast.unparse(d.args[0]) == v and not d.keywords:
                ok = True
            if isinstance(d.func, ast.Attribute) and d.func.attr == 'sum' and not d.args and not d.keywords and ast.unparse(d.func.value) == v:
                ok = True
    rep.ob('R-NORM', label, ok, det, m.rel, getattr(expr, 'lineno', fn.lineno), what=what)
    return ok


def returns(fn):
    return [n for n in own_nodes(fn) if isinstance(n, ast.Return) and n.value is not None]


def partitions_by_value(rep, prog, m):
    """partitions_and_probabilities by what it returns, in the six worlds (partition type x F zero / non-zero, n_sequenced = 4):
    `cached_part(k, n)` is summarised as a list of opaque partitions (one for k = 0, three otherwise - the single-element case has its
    own arm in the code), the weights and the normalisation are evaluated exactly (weights are atoms after their arguments have been
    checked), so loops, comprehensions, temporaries and the special case of one-element lists are all the same to the rule."""
    fn = prog.func(LP, 'partitions_and_probabilities')
    rep.saw_function(m.rel + ':' + fn.name)
    N = 4
    calls = []

    def hook(nm, args, kwargs):
        last = nm.split('.')[-1]
        if last == 'cached_part' and len(args) == 2 and not kwargs:
            k = args[0]
            calls.append((k, args[1]))
            kk = k if isinstance(k, int) else mx.show(k)
            return [mx.Sym('P[%s][%d]' % (kk, j)) for j in range(1 if k == 0 else 3)]
        if last == 'arange' and len(args) == 1 and isinstance(args[0], int):
            return list(range(args[0]))
        return NotImplemented

    class NotRec(Exception):
        pass

    def count_of(v):
        """(partition text, j) for P.count(j)"""
        rec = mx.method_call(v, 'count')
        if rec is not None and isinstance(rec, mx.Sym) and rec.struct is None and rec.text.startswith('P[') and len(v.struct[2]) == 1 and isinstance(v.struct[2][0], int):
            return rec.text, v.struct[2][0]
        return None

    def scalar(v):
        if isinstance(v, bool):
            raise NotRec('boolean')
        if isinstance(v, (int, float)):
            return Rat.const(Fraction(v).limit_denominator(10 ** 9))
        if isinstance(v, mx.Sym) and v.struct:
            st = v.struct
            if st[0] == 'binop' and st[1] == '**' and st[2] == 2:
                c = count_of(st[3])
                if c is not None:
                    return Rat.atom('POW2[%s.count(%d)]' % c)
            if st[0] == 'binop' and st[1] in ('+', '-', '*', '/'):
                a_, b_ = scalar(st[2]), scalar(st[3])
                return a_ + b_ if st[1] == '+' else a_ - b_ if st[1] == '-' else a_ * b_ if st[1] == '*' else a_ / b_
            e_ = mx.call_of(v, 'exp')
            if e_ is not None and len(e_[0]) == 1:
                ml = mx.call_of(e_[0][0], 'multinomln')
                if ml is not None and len(ml[0]) == 1 and isinstance(ml[0][0], (list, tuple)):
                    cs = [count_of(x) for x in ml[0][0]]
                    if all(c is not None for c in cs) and len({c[0] for c in cs}) == 1:
                        return Rat.atom('MULTINOM[%s|%s]' % (cs[0][0], ','.join(str(c[1]) for c in sorted(cs, key=lambda c: c[1]))))
            for other in ('max', 'min', 'mean', 'prod', 'amax', 'amin', 'median', 'len', 'size'):
                oc = mx.call_of(v, other)
                if oc is not None and len(oc[0]) == 1:
                    # a reduction that is not the sum: an opaque number (the comparison with the reference then fails)
                    return Rat.atom('%s[%s]' % (other.upper(), '+'.join(sorted(x.canon() for x in vector(oc[0][0])))[:200]))
            sm = mx.call_of(v, 'sum') or mx.call_of(v, 'fsum') or (mx.call_of(v, 'reduce') if isinstance(v, mx.Sym) and v.struct and v.struct[0] == 'call' and v.struct[1].endswith('add.reduce') else None)
            if sm is not None and len(sm[0]) == 1 and not sm[1]:
                tot = Rat.const(0)
                for x in vector(sm[0][0]):
                    tot = tot + x
                return tot
            rec = mx.method_call(v, 'sum')
            if rec is not None and not v.struct[2]:
                tot = Rat.const(0)
                for x in vector(rec):
                    tot = tot + x
                return tot
            if st[0] == 'index' and isinstance(st[2], int):
                vec = vector(st[1])
                if -len(vec) <= st[2] < len(vec):
                    return vec[st[2]]
        raise NotRec('value %s' % mx.show(v)[:60])

    def vector(v):
        """list of Rat for an array-valued expression"""
        if isinstance(v, (list, tuple)):
            return [scalar(x) for x in v]
        if isinstance(v, mx.Sym) and v.struct:
            st = v.struct
            for nm_ in ('array', 'asarray', 'asfarray', 'float64'):
                c = mx.call_of(v, nm_)
                if c is not None and c[0]:
                    return vector(c[0][0])
            if st[0] == 'binop' and st[1] in ('+', '-', '*', '/'):
                def side(x):
                    try:
                        return vector(x)
                    except NotRec:
                        return [scalar(x)]
                a_, b_ = side(st[2]), side(st[3])
                n_ = max(len(a_), len(b_))
                if len(a_) not in (1, n_) or len(b_) not in (1, n_):
                    raise NotRec('shapes %d and %d' % (len(a_), len(b_)))
                a_ = a_ * n_ if len(a_) == 1 else a_
                b_ = b_ * n_ if len(b_) == 1 else b_
                f = {'+': lambda x, y: x + y, '-': lambda x, y: x - y, '*': lambda x, y: x * y, '/': lambda x, y: x / y}[st[1]]
                return [f(x, y) for x, y in zip(a_, b_)]
        raise NotRec('array %s' % mx.show(v)[:60])

    def weight(ptext):
        return Rat.atom('MULTINOM[%s|0,1,2]' % ptext) * Rat.atom('POW2[%s.count(1)]' % ptext)

    def expected(parts):
        ws = [weight(mx.show(p_)) for p_ in parts]
        tot = Rat.const(0)
        for w in ws:
            tot = tot + w
        return [w / tot for w in ws]
    res = {'weights': [], 'af': [], 'geno': [], 'enum': [], 'disp': []}
    unrec = []
    known = None
    try:
        from sa import alpha as _alpha
        known = _alpha.load_table().get('__params__', {}).get(m.rel)
        known = set(known) if known is not None else None
    except Exception:
        known = None
    for ptype in ('allele_frequency', 'genotype', 'neither'):
        for Fx in (0, 0.25):
            del calls[:]
            it = mx.Interp(prog, m, call_hook=hook, symbolic_loops=True, known_functions=known)
            try:
                paths = it.run(fn, {'n_sequenced': N, 'partition_type': ptype, 'Fx': Fx, 'allele_frequency': mx.Sym('af')})
            except mx.Undecidable as e:
                unrec.append('%s, F=%s: %s' % (ptype, Fx, e))
                continue
            tag = '%s, F %s 0' % (ptype, '==' if Fx == 0 else '!=')
            if len(paths) != 1:
                unrec.append('%s: %d paths' % (tag, len(paths)))
                continue
            outcome = paths[0][0]
            if ptype == 'neither':
                if outcome != ('raise', 'ValueError'):
                    res['disp'].append('%s: an unknown partition type %s' % (tag, 'returns' if outcome[0] == 'return' else 'raises ' + str(outcome[1])))
                continue
            if outcome[0] != 'return' or not isinstance(outcome[1], tuple) or len(outcome[1]) != 2:
                res['disp'].append('%s: ends with %s' % (tag, outcome[0] if outcome[0] != 'return' else mx.show(outcome[1])[:40]))
                continue
            parts, probs = outcome[1]
            half = [c for c in calls if not (c[1] == N / 2 or c[1] == N // 2)]
            if half:
                res['enum'].append('%s: partitions over %s individuals' % (tag, mx.show(half[0][1])))
            try:
                if ptype == 'allele_frequency':
                    if not (len(calls) == 1 and mx.show(calls[0][0]) == 'af' and isinstance(parts, list) and [mx.show(x) for x in parts] == ['P[af][%d]' % j for j in range(3)]):
                        res['enum'].append('%s: partitions returned are %s' % (tag, mx.show(parts)[:60]))
                        continue
                    groups = [(parts, probs)]
                else:
                    ks = [c[0] for c in calls]
                    want = [['P[%d][%d]' % (k, j) for j in range(1 if k == 0 else 3)] for k in range(N + 1)]
                    if not (ks == list(range(N + 1)) and isinstance(parts, list) and [[mx.show(x) for x in g] for g in parts] == want):
                        res['enum'].append('%s: allele counts %s, partitions returned %s' % (tag, [mx.show(k) for k in ks], mx.show(parts)[:60]))
                        continue
                    if not isinstance(probs, (list, tuple)) or len(probs) != len(parts):
                        if isinstance(probs, mx.Sym):
                            c = mx.call_of(probs, 'array') or mx.call_of(probs, 'asarray')
                            probs = c[0][0] if c is not None and c[0] and isinstance(c[0][0], (list, tuple)) else probs
                    if not isinstance(probs, (list, tuple)) or len(probs) != len(parts):
                        raise NotRec('probabilities %s' % mx.show(probs)[:60])
                    groups = list(zip(parts, probs))
                for g_parts, g_probs in groups:
                    if Fx == 0:
                        got = vector(g_probs)
                        ref = expected(g_parts)
                        if len(got) != len(ref) or not all(x.equals(y) for x, y in zip(got, ref)):
                            # which part is wrong: the weights or the normalisation
                            ats = set()
                            for x in got:
                                ats |= set(x.atoms())
                            want_ats = set()
                            for y in ref:
                                want_ats |= set(y.atoms())
                            key = 'weights' if ats != want_ats else ('af' if ptype == 'allele_frequency' else 'geno')
                            res[key].append('%s: probabilities of %s are %s' % (tag, mx.show(g_parts)[:40], '; '.join(x.canon()[:90] for x in got[:2])))
                    else:
                        c = mx.call_of(g_probs, 'part_inbreeding_probability') if isinstance(g_probs, mx.Sym) else None
                        if c is None or len(c[0]) != 2 or mx.show(c[0][0]) != mx.show(g_parts) or c[0][1] != Fx or c[1]:
                            res['disp'].append('%s: probabilities of %s are %s' % (tag, mx.show(g_parts)[:40], mx.show(g_probs)[:70]))
            except NotRec as e:
                unrec.append('%s: %s' % (tag, e))
            except AlgebraError as e:
                unrec.append('%s: %s' % (tag, e))

    def ob(rule, construct, keys, holds, what):
        bad = [x for k in keys for x in res[k]]
        if bad:
            rep.ob(rule, construct, False, '; '.join(bad)[:400], m.rel, fn.lineno, what=what)
        elif unrec:
            rep.ob(rule, construct, False, 'not recognised: ' + '; '.join(unrec)[:300], m.rel, fn.lineno, what=what)
        else:
            rep.ob(rule, construct, True, holds, m.rel, fn.lineno, what=what)
    ob('R-TWIN', 'partitions_and_probabilities weights', ['weights'], 'both arms weight a partition by multinomial(n0,n1,n2) * 2^n1',
       'number of genotype assignments times the two phases of each heterozygote, identically in both partition types')
    ob('R-NORM', 'partitions_and_probabilities allele_frequency', ['af'], 'weights divided by their sum', 'allele_frequency arm: weights divided by their sum')
    ob('R-NORM', 'partitions_and_probabilities genotype', ['geno'], 'each list of weights is divided by its own sum (also when it has one element)', 'genotype arm: per allele count, weights divided by their sum')
    ob('R-IDX', 'partitions_and_probabilities enumeration', ['enum'], 'partitions of the allele count over n_sequenced/2 diploid individuals; genotype arm covers counts 0..n_sequenced in order',
       'all allele counts 0..n, n/2 individuals with 0/1/2 copies')
    ob('R-EXH', 'partitions_and_probabilities F dispatch', ['disp'], 'Fx == 0 -> multinomial weights, otherwise beta-binomial weights of the same partitions, in both partition types; other types raise',
       'every (partition type, F) combination assigns the probabilities')


def check_partitions(rep, prog):
    m = prog.mod(LP)
    rep.saw_file(m.rel)
    # ---- part_inbreeding_probability ---------------------------------------------------------------------------------
    fn = prog.func(LP, 'part_inbreeding_probability')
    rep.saw_function(m.rel + ':' + fn.name)
    r = returns(fn)
    norm_site(rep, m, fn, 'returned vector is normalised by its own sum', r[0].value if len(r) == 1 else None, 'part_inbreeding_probability')
    # the unnormalised weight the function gives one partition of three individuals, by the number of alternative alleles it carries
    # (0, all, in between): abstract execution with symbolic genotype counts; the weight is compared algebraically
    from sa import miniexec as mx
    from sa import alpha as _alpha
    known_ = _alpha.load_table().get('__params__', {}).get(m.rel)
    known_ = set(known_) if known_ is not None else None
    NI = 3
    ok, okm, det, detm = True, True, '', ''
    try:
        for world, total in (('none', 0), ('all', 2 * NI), ('some', 2)):
            part = mx.Sym('part', length=NI)

            def hook(nm, args, kwargs, total=total):
                if nm == 'sum' and len(args) == 1 and mx.show(args[0]) == 'part':
                    return total
                if nm == 'part.count' and len(args) == 1 and args[0] in (0, 1, 2):
                    return mx.Sym('n%d%d' % ((0, 0, 1)[args[0]], (0, 1, 1)[args[0]]))
                return NotImplemented
            it = mx.Interp(prog, m, known_functions=known_, call_hook=hook)
            paths = [p_ for p_ in it.run(fn, {'parts': [part], 'Fx': mx.Sym('Fx', truth=True)}) if p_[0][0] == 'return']
            if len(paths) != 1:
                raise mx.Undecidable('%d returning paths for a partition with %s alternative alleles' % (len(paths), world))
            v = paths[0][0][1]
            # weights / sum(weights): the vector of weights
            if not (isinstance(v, mx.Sym) and v.struct and v.struct[0] == 'binop' and v.struct[1] == '/'):
                raise mx.Undecidable('returns %s' % mx.show(v)[:50])
            vec = v.struct[2]
            c_ = mx.call_of(vec, 'append')
            if c_ is not None and len(c_[0]) == 2:
                w = c_[0][1]
            else:
                c_ = mx.call_of(vec, 'array') or mx.call_of(vec, 'asarray')
                w = c_[0][0][0] if c_ is not None and c_[0] and isinstance(c_[0][0], (list, tuple)) and len(c_[0][0]) == 1 else None
            if w is None:
                raise mx.Undecidable('vector of weights %s' % mx.show(vec)[:50])
            if world != 'some':
                if not (w == 1 or w == 1.0):
                    okm, detm = False, 'a partition with %s alternative alleles gets weight %s' % (world, mx.show(w)[:60])
                continue

            def leaf(x):
                if isinstance(x, mx.Sym) and not x.struct and re.fullmatch(r'[A-Za-z_]\w*', x.text):
                    return Rat.atom(x.text)
                c2 = mx.call_of(x, 'factorial')
                if c2 is not None and len(c2[0]) == 1:
                    return Rat.atom('FACT[%s]' % mx.to_rat(c2[0][0], leaf).canon())
                if isinstance(x, mx.Sym) and x.struct and x.struct[0] == 'binop' and x.struct[1] == '**':
                    return Rat.atom('POW[%s|%s]' % (mx.to_rat(x.struct[2], leaf).canon(), mx.to_rat(x.struct[3], leaf).canon()))
                if isinstance(x, mx.Sym) and x.struct and x.struct[0] == 'index' and isinstance(x.struct[2], int):
                    e_ = mx.call_of(x.struct[1], 'exp')
                    if e_ is not None and isinstance(e_[0][0], (list, tuple)) and 0 <= x.struct[2] < len(e_[0][0]):
                        b_ = mx.call_of(e_[0][0][x.struct[2]], 'BetaBinomln')
                        if b_ is not None and len(b_[0]) == 4 and not b_[1]:
                            return Rat.atom('PG[%s|%s|%s|%s]' % tuple(mx.to_rat(a_, leaf).canon() for a_ in b_[0]))
                return None
            got = mx.to_rat(w, leaf)
            n_, n00, n01, n11, F = Rat.const(NI), Rat.atom('n00'), Rat.atom('n01'), Rat.atom('n11'), Rat.atom('Fx')
            pfreq = (Rat.const(2) * n11 + n01) / (Rat.const(2) * n_)
            al, be = pfreq * (Rat.const(1) - F) / F, (Rat.const(1) - pfreq) * (Rat.const(1) - F) / F
            pg = [Rat.atom('PG[%d|2|%s|%s]' % (g_, al.canon(), be.canon())) for g_ in range(3)]
            ref = Rat.atom('FACT[%d]' % NI) / (Rat.atom('FACT[n00]') * Rat.atom('FACT[n01]') * Rat.atom('FACT[n11]'))
            for pg_, cnt in zip(pg, (n00, n01, n11)):
                ref = ref * Rat.atom('POW[%s|%s]' % (pg_.canon(), cnt.canon()))
            ok = got.equals(ref)
            det = 'weight of a polymorphic partition = %s' % ('multinomial coefficient times the beta-binomial genotype probabilities' if ok else got.canon()[:160])
        bb = positional_params(prog.func(NUM, 'BetaBinomln'))
        ok = ok and bb == ['i', 'n', 'a', 'b']
    except mx.Undecidable as e:
        ok, det = False, 'not recognised: %s' % e
        okm, detm = okm, detm
    except AlgebraError as e:
        ok, det = False, 'not evaluable: %s' % e
    rep.ob('R-ALG', 'part_inbreeding_probability weights', ok, det, m.rel, fn.lineno,
           what='n!/(n00! n01! n11!) p00^n00 p01^n01 p11^n11 with p_g = BetaBinom(g; 2, p(1-F)/F, (1-p)(1-F)/F), p = alt-allele frequency')
    rep.ob('R-DOM', 'part_inbreeding_probability monomorphic', okm, detm or 'all-reference / all-alternative partitions get weight 1 (p = 0 or 1 has no beta-binomial)', m.rel, fn.lineno,
           what='the degenerate allele frequencies are handled without evaluating the beta-binomial')
    # ---- partitions_and_probabilities ------------------------------------------------------------------------------------
    partitions_by_value(rep, prog, m)
    # ---- Numerics.part -------------------------------------------------------------------------------------------------------
    pf = prog.func(NUM, 'part')
    tp = ast.unparse(pf)
    # (canonical form after the normalisation pass: the pruning test guards the whole body)
    okp = has(tp, 'if n * minval <= x <= n * maxval:\n    if n == 0:\n        yield []\n    else:\n        for val in range(minval, maxval + 1):\n            for p in part(x - val, n - 1, val, maxval):\n                yield ([val] + p)')
    rep.ob('R-TPL', 'Numerics.part recursion', okp, 'non-decreasing entries (next minimum = current value), remaining sum x - val over n - 1 entries, pruned by n*min <= x <= n*max', prog.mod(NUM).rel, pf.lineno,
           what='every multiset of n values in [min,max] with sum x is produced exactly once')
    cp = prog.func(NUM, 'cached_part')
    # memo-key dataflow (every input of the cached value is in the key, as a whole object; lookup and store use the same key)
    from rules import c20
    c20.rule_key_full(rep, prog, NUM, 'cached_part', '_part_cache')
    stores = [n for n in own_nodes(cp) if isinstance(n, ast.Assign) and isinstance(n.targets[0], ast.Subscript) and ast.unparse(n.targets[0].value) == '_part_cache']
    from sa.extract import single_assignments, inline
    sing = single_assignments(cp)
    okc = len(stores) == 1 and ast.unparse(inline(stores[0].value, sing)) == 'list(part(x, n, minval, maxval))'
    rep.ob('R-KEY', 'Numerics.cached_part', okc, 'the cached value is list(part(x, n, minval, maxval))', prog.mod(NUM).rel, cp.lineno, what='the cache holds the partitions of its own arguments')


def check_new_memos(rep, prog):
    """every function of the low-pass module that stores into a module-level dictionary is a memo: its key must determine the value"""
    from rules import c20
    m = prog.mod(LP)
    dicts = {k for k, vals in m.toplevel.items() if any(isinstance(v, ast.Dict) or (isinstance(v, ast.Call) and dotted(v.func) in ('dict', 'collections.OrderedDict')) for v in vals)}
    for q, fn in sorted(m.funcs.items()):
        if '.' in q:
            continue
        names = {ast.unparse(n.targets[0].value) for n in own_nodes(fn) if isinstance(n, ast.Assign) and isinstance(n.targets[0], ast.Subscript) and isinstance(n.targets[0].value, ast.Name)}
        for cname in sorted(names & dicts):
            c20.rule_key_full(rep, prog, LP, q, cname)


def projection_inbreeding_by_value(prog, m, fn):
    """(True / False / None when not evaluable, detail)"""
    import itertools as _it
    import collections as _co
    n_runs = 0
    holder = {}
    for L in (1, 2, 3, 4):
        for part in _it.combinations_with_replacement((0, 1, 2), L):
            for k in range(2, 2 * L + 1, 2):
                def hook(nm, args, kwargs):
                    last = nm.split('.')[-1]
                    if last == 'Counter' and len(args) <= 1 and all(mx.is_concrete(a) for a in args):
                        return dict(_co.Counter(*[list(a) for a in args]))
                    if last == 'bincount' and args and isinstance(args[0], (list, tuple)) and mx.is_concrete(args[0]):
                        ml = kwargs.get('minlength', args[2] if len(args) > 2 else 0)
                        c = _co.Counter(args[0])
                        return [c.get(j, 0) for j in range(max(max(args[0]) + 1 if args[0] else 0, ml if isinstance(ml, int) else 0))]
                    if last == 'comb' and len(args) == 2 and all(isinstance(a, int) for a in args):
                        import math
                        return math.comb(*args)
                    if nm.endswith('add.at') and len(args) == 3 and isinstance(args[1], (list, tuple)) and mx.is_concrete(args[1]) and isinstance(args[2], (int, float)):
                        # unbuffered in-place addition: once per index, duplicates included
                        for ix_ in args[1]:
                            holder['it'].path.events.append(('augitem', args[0], ix_, 'Add', args[2]))
                        return None
                    if nm.endswith('add.at') and len(args) == 3 and isinstance(args[1], int) and isinstance(args[2], (int, float)):
                        holder['it'].path.events.append(('augitem', args[0], args[1], 'Add', args[2]))
                        return None
                    if last in ('combinations', 'combinations_with_replacement', 'permutations', 'product') and all(mx.is_concrete(a) for a in args) and all(isinstance(v_, int) for v_ in kwargs.values()):
                        try:
                            return [tuple(x) for x in getattr(_it, last)(*args, **kwargs)]
                        except (TypeError, ValueError):
                            raise mx.Raised('ValueError')
                    return NotImplemented
                it = mx.Interp(prog, m, call_hook=hook, symbolic_loops=False)
                holder['it'] = it
                try:
                    paths = it.run(fn, {'partition': list(part), 'k': k})
                except mx.Undecidable as e:
                    return None, 'not evaluable: %s' % e
                if len(paths) != 1 or paths[0][0][0] != 'return':
                    return None, 'not evaluable: %d paths' % len(paths)
                n_runs += 1
                outcome, events, _d = paths[0]
                want = _co.Counter(sum(c) for c in _it.combinations(part, k // 2))
                # the accumulator: the array whose cells are incremented / set
                cells = {}
                for e in events:
                    if e[0] in ('augitem', 'setitem'):
                        key = e[2]
                        val = e[4] if e[0] == 'augitem' else e[3]
                        op = e[3] if e[0] == 'augitem' else 'Set'
                        keys = key if isinstance(key, (list, tuple)) else [key]
                        vals = val if isinstance(val, (list, tuple)) else [val] * len(keys)
                        if not all(isinstance(x, int) and not isinstance(x, bool) for x in keys) or not all(isinstance(x, (int, float)) for x in vals) or op not in ('Add', 'Set'):
                            return None, 'not evaluable: store %s at %s' % (mx.show(val)[:30], mx.show(key)[:30])
                        if isinstance(key, (list, tuple)):
                            # numpy applies an in-place operation on a fancy-indexed target once per DISTINCT index
                            seen = {}
                            for kk, vv in zip(keys, vals):
                                seen[kk] = vv
                            for kk, vv in seen.items():
                                cells[kk] = (cells.get(kk, 0) + vv) if op == 'Add' else vv
                        else:
                            cells[key] = (cells.get(key, 0) + vals[0]) if op == 'Add' else vals[0]
                got = {j: c for j, c in cells.items() if c}
                if not cells and want:
                    return None, 'not evaluable: no store into the result was seen'
                if got != dict(want):
                    return False, 'partition %s, k = %d: allele sums counted %s, the choices of %d individuals give %s' % (list(part), k, dict(sorted(got.items())), k // 2, dict(sorted(want.items())))
    return True, 'every choice of k/2 individuals is counted once at its allele sum (%d partitions x k executed abstractly)' % n_runs


def enough_covered_by_value(prog, m, fn):
    """(True / False / None when not evaluable, detail)"""
    import math
    c0, one = Rat.atom('c0'), Rat.const(1)

    def leaf(v):
        t = mx.show(v).replace(' ', '')
        if t == 'coverage_distribution[1][0]':
            return c0
        if t in ('numpy.sum(coverage_distribution[1][1:])', 'coverage_distribution[1][1:].sum()', 'sum(coverage_distribution[1][1:])', 'np.sum(coverage_distribution[1][1:])'):
            return one - c0           # the distribution sums to one
        sm = mx.call_of(v, 'sum') if isinstance(v, mx.Sym) else None
        if sm is not None and sm[0] and isinstance(sm[0][0], (list, tuple)):
            tot = Rat.const(0) if len(sm[0]) == 1 else mx.to_rat(sm[0][1], leaf)
            for x in sm[0][0]:
                tot = tot + mx.to_rat(x, leaf)
            return tot
        if isinstance(v, mx.Sym) and v.struct and v.struct[0] == 'binop' and v.struct[1] == '**' and isinstance(v.struct[3], int) and v.struct[3] >= 0:
            b = mx.to_rat(v.struct[2], leaf)
            out = one
            for _ in range(v.struct[3]):
                out = out * b
            return out
        sf = v.struct if isinstance(v, mx.Sym) and v.struct and v.struct[0] == 'tail' else None
        if sf is not None:
            _t, k_, n_, p_ = sf
            pr = mx.to_rat(p_, leaf)
            tot = Rat.const(0)
            for j in range(max(k_ + 1, 0), n_ + 1):
                term = Rat.const(math.comb(n_, j))
                for _ in range(j):
                    term = term * pr
                for _ in range(n_ - j):
                    term = term * (one - pr)
                tot = tot + term
            return tot
        return None
    n_runs = 0
    for nseq in (2, 4, 6, 8):
        for nsub in range(1, nseq + 1):
            def hook(nm, args, kwargs):
                last = nm.split('.')[-1]
                if last == 'comb' and len(args) == 2 and all(isinstance(a, int) for a in args):
                    return math.comb(*args) if args[1] >= 0 and args[0] >= 0 else 0
                if last == 'ceil' and len(args) == 1 and isinstance(args[0], (int, float)):
                    return math.ceil(args[0])
                if last == 'floor' and len(args) == 1 and isinstance(args[0], (int, float)):
                    return math.floor(args[0])
                if nm.endswith('binom.sf') and len(args) == 3 and isinstance(args[0], int) and isinstance(args[1], int) and not kwargs:
                    return mx.Sym('sf(%d, %d, %s)' % (args[0], args[1], mx.show(args[2])), struct=('tail', args[0], args[1], args[2]))
                return NotImplemented
            it = mx.Interp(prog, m, call_hook=hook, symbolic_loops=False)
            try:
                paths = it.run(fn, {'coverage_distribution': mx.Sym('coverage_distribution'), 'n_sequenced': nseq, 'n_subsampling': nsub})
            except mx.Undecidable as e:
                return None, 'not evaluable: %s' % e
            if len(paths) != 1 or paths[0][0][0] != 'return':
                return None, 'not evaluable: %d paths' % len(paths)
            n_runs += 1
            try:
                got = mx.to_rat(paths[0][0][1], leaf)
            except AlgebraError as e:
                return None, 'not evaluable: %s' % e
            N1 = nseq // 2 - 1
            lo = int(math.ceil(nsub / 2)) - 1
            ref = Rat.const(0)
            for j in range(max(lo, 0), N1 + 1):
                term = Rat.const(math.comb(N1, j))
                for _ in range(N1 - j):
                    term = term * c0
                for _ in range(j):
                    term = term * (one - c0)
                ref = ref + term
            if not got.equals(ref):
                return False, 'n_sequenced = %d, n_subsampling = %d: returns %s, the tail from %d of %d other individuals is %s' % (nseq, nsub, got.canon()[:80], lo, N1, ref.canon()[:80])
    return True, 'the binomial tail from ceil(nsub/2) - 1 over the other N - 1 individuals (%d combinations of sizes executed abstractly, coverage probabilities symbolic)' % n_runs


def check_projection(rep, prog):
    m = prog.mod(LP)
    fn = prog.func(LP, 'projection_inbreeding')
    rep.saw_function(m.rel + ':' + fn.name)
    r = returns(fn)
    norm_site(rep, m, fn, 'returned distribution is normalised by its own sum', r[0].value if len(r) == 1 else None, 'projection_inbreeding')
    # multiplicity: the counting loop iterates over combinations(...) through multiplicity-preserving wrappers only
    loops = [n for n in own_nodes(fn) if isinstance(n, ast.For)]
    ok = False
    det = 'counting loop not found'
    if len(loops) == 1:
        lp = loops[0]
        src = lp.iter
        chain = []
        seen = 0
        while seen < 6:
            seen += 1
            if isinstance(src, ast.Name):
                asg = [s for s in own_nodes(fn) if isinstance(s, ast.Assign) and len(s.targets) == 1 and isinstance(s.targets[0], ast.Name) and s.targets[0].id == src.id]
                if len(asg) != 1:
                    break
                src = asg[0].value
                continue
            if isinstance(src, ast.Call) and (dotted(src.func) or '') in ('list', 'tuple', 'iter', 'sorted') and len(src.args) == 1:
                chain.append(dotted(src.func))
                src = src.args[0]
                continue
            break
        is_comb = isinstance(src, ast.Call) and (dotted(src.func) or '') in ('combinations', 'itertools.combinations')
        args = [ast.unparse(a) for a in src.args] if is_comb else []
        body = [ast.unparse(s) for s in lp.body]
        tgt = ast.unparse(lp.target)
        # the accumulator is whatever array is returned normalised by its own sum
        acc_names = {ast.unparse(x.left) for x in [r_.value for r_ in r] if isinstance(x, ast.BinOp) and isinstance(x.op, ast.Div)}
        ok = is_comb and args == ['partition', 'k // 2'] and len(body) == 1 and any(body == ['%s[sum(%s)] += 1' % (a_, tgt)] for a_ in acc_names)
        det = 'iterates %s%s; body %s' % ('(' + '>'.join(chain) + ') ' if chain else '', ast.unparse(src), body)
    if not loops:
        # a vectorised count: `result[index array] += 1` applies the increment once per DISTINCT index (numpy buffers the update of a
        # fancy-indexed target), so choices with the same allele sum are counted once; numpy.add.at / numpy.bincount keep the multiplicity
        for n in own_nodes(fn):
            if isinstance(n, ast.AugAssign) and isinstance(n.target, ast.Subscript) and isinstance(n.target.value, ast.Name) and n.target.value.id == 'result':
                ix = n.target.slice
                arrayish = isinstance(ix, ast.Call) or (isinstance(ix, ast.Name) and any(
                    isinstance(s_, ast.Assign) and len(s_.targets) == 1 and isinstance(s_.targets[0], ast.Name) and s_.targets[0].id == ix.id and isinstance(s_.value, ast.Call) for s_ in own_nodes(fn)))
                if arrayish:
                    det = '`%s` increments once per distinct index: combinations with equal allele sums lose their multiplicity (numpy.add.at or bincount would keep it)' % ast.unparse(n)
    if not ok:
        # by value: the function executed abstractly on every partition of 1..4 individuals with 0 / 1 / 2 copies and every even k up to
        # the number of haplotypes; the counts it accumulates are compared with the number of choices of k/2 individuals per allele sum
        v_ok, v_det = projection_inbreeding_by_value(prog, m, fn)
        if v_ok is not None:
            ok, det = v_ok, v_det
    rep.ob('R-MULT', 'projection_inbreeding combinations', ok, det, m.rel, fn.lineno,
           what='each choice of k//2 individuals is counted once, with multiplicity (no set / unique), at the index of its allele sum')
    acc_names2 = {ast.unparse(x.left) for x in [r_.value for r_ in r] if isinstance(x, ast.BinOp) and isinstance(x.op, ast.Div)} or {'result'}
    init = [s for s in own_nodes(fn) if isinstance(s, ast.Assign) and ast.unparse(s.targets[0]) in acc_names2]
    rep.ob('R-IDX', 'projection_inbreeding support', len(init) == 1 and ast.unparse(init[0].value) in ('numpy.zeros_like(range(k + 1))', 'numpy.zeros(k + 1)', 'numpy.zeros(k + 1, dtype=int)'),
           ast.unparse(init[0].value) if init else '?', m.rel, fn.lineno, what='k+1 outcomes 0..k')
    # projection_matrix
    fn = prog.func(LP, 'projection_matrix')
    rep.saw_function(m.rel + ':' + fn.name)
    cpp = positional_params(prog.func(NUM, '_cached_projection'))
    pp = func_params(prog.func(LP, 'partitions_and_probabilities'))
    # rows of the matrix without and with inbreeding: abstract execution (F concrete 0, or a symbol known to be non-zero; one symbolic
    # iteration of the loop over allele counts and of the loop over partitions)
    from sa import miniexec as mx
    from sa import alpha as _alpha
    known_ = _alpha.load_table().get('__params__', {}).get(m.rel)
    known_ = set(known_) if known_ is not None else None
    bad0, badf, badr = [], [], []
    for inbred in (False, True):
        def hook(nm, args, kwargs):
            return NotImplemented
        it = mx.Interp(prog, m, known_functions=known_, symbolic_loops=True)
        Fv = mx.Sym('F', truth=True) if inbred else 0
        try:
            paths = it.run(fn, {'n_sequenced': mx.Sym('n_sequenced'), 'n_subsampling': mx.Sym('n_subsampling'), 'F': Fv})
        except mx.Undecidable as e:
            raise AnalysisError('projection_matrix is not recognised: %s' % e)
        # `F != 0` on a symbol forks: keep the paths that took the arm of this world (decided by the calls they make)
        for outcome, events, dec in paths:
            pcalls = [e for e in events if e[0] == 'call' and e[1] == 'partitions_and_probabilities']
            ccalls = [e for e in events if e[0] == 'call' and e[1].endswith('_cached_projection')]
            if inbred and not pcalls:
                continue           # the F == 0 outcome of the undecided test: covered by the other world
            if outcome[0] != 'return':
                badr.append('raises %s' % outcome[1])
                continue
            mat = outcome[1]
            mc = mx.call_of(mat, 'empty') or mx.call_of(mat, 'zeros')
            shp = mc[0][0] if mc and mc[0] else (mc[1].get('shape') if mc else None)
            if not (isinstance(shp, (tuple, list)) and [mx.show(x) for x in shp] == ['(n_sequenced + 1)', '(n_subsampling + 1)']):
                badr.append('result %s' % mx.show(mat)[:60])
            loops_ = [e for e in events if e[0] == 'loop']
            if not loops_ and dec and not pcalls and not ccalls:
                continue           # an early exit taken on an undecided test about the sizes (a matrix without rows): no row to assign
            if not loops_ or loops_[0][1].replace(' ', '') not in ('range((n_sequenced+1))', 'range(0,(n_sequenced+1))'):
                badr.append('rows iterated over %s' % [e[1] for e in loops_][:1])
                continue
            af = loops_[0][2]
            rows = [e for e in events if e[0] in ('setitem', 'augitem') and (e[4] if e[0] == 'setitem' else e[1]) is mat]
            def row_key_ok(k):
                k = k if isinstance(k, tuple) else (k,)
                return mx.show(k[0]) == af and all(mx.is_full_slice(x) for x in k[1:]) and len(k) <= 2
            if not inbred:
                ok_ = len(rows) == 1 and rows[0][0] == 'setitem' and row_key_ok(rows[0][2]) and mx.call_of(rows[0][3], '_cached_projection') is not None and \
                    [mx.show(a) for a in mx.call_of(rows[0][3], '_cached_projection')[0]] == ['n_subsampling', 'n_sequenced', af] and not pcalls
                if not ok_:
                    bad0.append('row %s = %s' % ([mx.show(r_[2]) for r_ in rows], [mx.show(r_[3])[:60] for r_ in rows]))
                continue
            # inbreeding: row = sum over partitions of projection_inbreeding(partition, n_subsampling) * P(partition)
            okp_ = len(pcalls) == 1 and [mx.show(a) for a in pcalls[0][2]] + ['%s=%s' % (k_, mx.show(v_)) for k_, v_ in pcalls[0][3].items()] == ['n_sequenced', "'allele_frequency'", 'F', af]
            zl = [e for e in events if e[0] == 'loop' and e[1].startswith('zip(')]
            pair_ok = False
            term_ok = False
            if len(zl) == 1:
                pr = mx.show(pcalls[0][2][0]) if False else None
                # zip(partitions, probabilities) of the one call, in that order
                call_txt = mx.show(mx.Sym('x')) and None
                pair_ok = zl[0][1].replace(' ', '').startswith('zip(partitions_and_probabilities(') and '[0]' in zl[0][1] and '[1]' in zl[0][1] and zl[0][1].index('[0]') < zl[0][1].index('[1]')
                tv = zl[0][2].strip('()').split(', ')
                incs = [e for e in events if e[0] == 'augitem' and e[3] == 'Add']
                accs = []
                for e in incs:
                    accs.append((e[1], e[2], e[4]))
                # accumulation into a separate vector that is stored into the row afterwards
                stores = [r_ for r_ in rows if r_[0] == 'setitem']
                if len(tv) == 2:
                    want_term = sorted(['projection_inbreeding(%s, n_subsampling)' % tv[0], tv[1]])
                    def is_term(x):
                        return sorted(mx.show(f_) for f_ in mx.factors(x, '*')) == want_term
                    if len(accs) == 1 and accs[0][0] is mat and row_key_ok(accs[0][1]) and is_term(accs[0][2]) and mx.call_of(mat, 'zeros') is not None:
                        term_ok = True
                    elif len(stores) == 1 and row_key_ok(stores[0][2]):
                        parts = mx.factors(stores[0][3], '+')
                        zeros_ = [x for x in parts if mx.call_of(x, 'zeros_like') is not None or mx.call_of(x, 'zeros') is not None]
                        rest = [x for x in parts if x not in zeros_]
                        term_ok = len(zeros_) == 1 and len(rest) == 1 and is_term(rest[0])
            if not (okp_ and pair_ok and term_ok) or ccalls:
                badf.append('partitions call %s; pairing %s; row term %s' % (okp_, pair_ok, term_ok))
    ok0 = not bad0 and cpp[:3] == ['proj_to', 'proj_from', 'hits']
    rep.ob('R-ARGS', 'projection_matrix F=0 arm', ok0, '; '.join(bad0[:2]) or '_cached_projection(n_subsampling, n_sequenced, allele_freq) against parameters %s' % cpp[:3], m.rel, fn.lineno,
           what='hypergeometric projection from the sequenced to the subsampled size for each allele count')
    okf = not badf and pp == ['n_sequenced', 'partition_type', 'Fx', 'allele_frequency'] and func_params(prog.func(LP, 'projection_inbreeding')) == ['partition', 'k']
    rep.ob('R-ALG', 'projection_matrix inbreeding arm', okf, '; '.join(badf[:2]) or 'row = sum over partitions of P(partition) * projection_inbreeding(partition, n_subsampling)', m.rel, fn.lineno,
           what='rows are mixtures of normalised vectors with normalised weights')
    rep.ob('R-EXH', 'projection_matrix rows', not badr, '; '.join(badr[:2]) or 'one row per allele count 0..n_sequenced, n_subsampling+1 columns, both arms assign the row', m.rel, fn.lineno, what='every row of the matrix is assigned')


def check_calling_error(rep, prog):
    m = prog.mod(LP)
    fn = prog.func(LP, 'calling_error_matrix')
    rep.saw_function(m.rel + ':' + fn.name)
    t = ast.unparse(fn)
    okh = has(t, 'depths = coverage_distribution[0][1:]') and has(t, 'coverage_distribution_ = [x / numpy.sum(coverage_distribution[1][1:]) for x in coverage_distribution[1][1:]]') and \
        has(t, 'prob_het_err = 2 * numpy.sum(coverage_distribution_ * 0.5 ** depths)')
    rep.ob('R-ALG', 'calling_error_matrix heterozygote error', okh, 'P(err) = 2 sum_{d>=1} c_d/(sum_{d>=1} c_d) 2^-d (depths and weights on the same slice [1:])', m.rel, fn.lineno,
           what='probability that all reads of a covered heterozygote show one allele, conditional on coverage')
    sa = {}
    for s in own_nodes(fn):
        if isinstance(s, ast.Assign) and len(s.targets) == 1 and isinstance(s.targets[0], ast.Name):
            sa.setdefault(s.targets[0].id, []).append(s.value)
    u = lambda k: [ast.unparse(v) for v in sa.get(k, [])]
    loops = [ast.unparse(n.iter) for n in own_nodes(fn) if isinstance(n, ast.For)]
    oks = 'range(n_heterozygous + 1)' in loops and u('n_heterozygous') == ['part.count(1)'] and u('p_nerr') == ['ssd.binom.pmf(n_error, n_heterozygous, prob_het_err)'] and \
        u('n_ref') == ['numpy.arange(n_error + 1)'] and u('p_nref') == ['ssd.binom.pmf(n_ref, n_error, 0.5)']
    rep.ob('R-SUPP', 'calling_error_matrix supports', oks, 'n_error over 0..n_het with pmf(n_error; n_het, p); n_ref over 0..n_error with pmf(n_ref; n_error, 1/2)', m.rel, fn.lineno,
           what='each binomial is accumulated over its complete support, so the mass of a row is conserved')
    okn = False
    try:
        T = Translator()
        okn = T.tr(sa['n_alt'][0]).equals(parse_expr('n_error - n_ref')) and Translator({'n_alt': parse_expr('n_error - n_ref')}).tr(sa['net_change'][0]).equals(parse_expr('n_error - 2*n_ref')) and \
            T.tr(sa['afs_after_error'][0]).equals(parse_expr('allele_freq + net_change'))
    except (AlgebraError, KeyError, IndexError):
        okn = False
    acc = [s for s in own_nodes(fn) if isinstance(s, ast.AugAssign) and isinstance(s.op, ast.Add) and ast.unparse(s.target) == 'trans_matrix[allele_freq, afs_after_error]']
    oka = False
    if len(acc) == 1:
        try:
            oka = Translator().tr(acc[0].value).equals(parse_expr('part_prob * p_nerr * p_nref'))
        except AlgebraError:
            oka = False
    rep.ob('R-ALG', 'calling_error_matrix destination', okn and oka, 'afs_after = allele_freq + (n_error - n_ref) - n_ref; mass part_prob * p_nerr * p_nref', m.rel, fn.lineno,
           what='an erroneous heterozygote moves the count by +1 (called hom-alt) or -1 (called hom-ref); the three probabilities multiply')
    oki = has(t, 'trans_matrix = numpy.zeros((n_subsampling + 1, n_subsampling + 1))') and has(t, "(partitions, partitions_probabilities) = partitions_and_probabilities(n_subsampling, 'genotype', Fx)") and \
        has(t, 'for allele_freq, (partitions_, part_probs) in enumerate(zip(partitions, partitions_probabilities)):') and \
        has(t, 'for part, part_prob in zip(partitions_, part_probs):') and flat(t).endswith(flat('return trans_matrix'))
    rep.ob('R-IDX', 'calling_error_matrix rows', oki, 'row allele_freq sums over the genotype partitions of that allele count among n_subsampling haplotypes', m.rel, fn.lineno,
           what='rows indexed by the true allele count, weights are the partition probabilities of that count')


def check_nocall(rep, prog):
    m = prog.mod(LP)
    fn = prog.func(LP, 'probability_of_no_call_1D_GATK_multisample')
    rep.saw_function(m.rel + ':' + fn.name)
    sa = {}
    for s in own_nodes(fn):
        if isinstance(s, ast.Assign) and len(s.targets) == 1:
            sa.setdefault(ast.unparse(s.targets[0]), []).append(s)

    def hook(T, e, f):
        if f == 'numpy.sum' and len(e.args) == 1:
            return Rat.atom('SUM[%s]' % ast.unparse(e.args[0]))
        return None

    def ih(T, e):
        t = ast.unparse(e)
        if t == 'coverage_distribution[1][0]':
            return Rat.atom('c0')
        if t == 'coverage_distribution[1][1]':
            return Rat.atom('c1')
        return None
    ok = False
    det = ''
    try:
        T = Translator({}, call_hook=hook, index_hook=ih)
        a, h = 'num_hom_alt', 'num_heterozygous'
        Z = Rat.atom('SUM[coverage_distribution[1] * 0.5 ** depths]')
        W = Rat.atom('SUM[depths * coverage_distribution[1] * 0.5 ** depths]')
        P = lambda b, e_: Rat.atom('pow(%s,%s)' % (b, parse_expr(e_).canon()))
        c0a, c0a1 = P('c0', a), P('c0', a + ' - 1')
        Zh, Zh1 = P(Z.canon(), h), P(Z.canon(), h + ' - 1')
        ref0 = c0a * Zh
        ref1a = Rat.atom(a) * Rat.atom('c1') * c0a1 * Zh
        ref1b = c0a * Zh1 * Rat.atom(h) * W
        g0 = T.tr(sa['P_case0'][0].value)
        g1a = [T.tr(s.value) for s in sa['P_case1a']]
        g1b = T.tr(sa['P_case1b'][0].value)
        ok0, ok1b = g0.equals(ref0), g1b.equals(ref1b)
        ok1a = len(g1a) == 2 and any(g.equals(ref1a) for g in g1a) and any(g.is_zero() for g in g1a)
        ok = ok0 and ok1a and ok1b
        det = 'P0=%s P1a=%s P1b=%s' % (ok0, ok1a, ok1b)
        okd = ast.unparse(sa['depths'][0].value) == 'numpy.arange(len(coverage_distribution[0]))' and flat(ast.unparse(sa_get(sa, 'num_heterozygous, num_hom_alt')[0].value)) == flat('part.count(1), part.count(2)')
        ok = ok and okd
    except (AlgebraError, KeyError, IndexError) as e:
        det = 'not recognised: %s' % e
    rep.ob('R-ALG', 'probability_of_no_call cases', ok, det, m.rel, fn.lineno,
           what="P(fewer than two alternative reads) = G(0) + G'(0) for G(t) = (sum c_d t^d)^{hom-alt} (sum c_d ((1+t)/2)^d)^{het}")
    t = ast.unparse(fn)
    okc = has(t, 'prob_nocall += part_prob * (P_case0 + P_case1a + P_case1b)') and has(t, 'all_prob_nocall[allele_freq] = prob_nocall') and \
        has(t, 'for allele_freq, (partitions_, part_probs) in enumerate(zip(partitions, partitions_probabilities)): prob_nocall = 0') and \
        has(t, "(partitions, partitions_probabilities) = partitions_and_probabilities(n_sequenced, 'genotype', Fx)") and has(t, 'all_prob_nocall = numpy.empty(n_sequenced + 1)')
    rep.ob('R-ALG', 'probability_of_no_call mixture', okc, 'per allele count: sum over partitions of P(partition) * (P0 + P1a + P1b), restarted at 0 for every count', m.rel, fn.lineno,
           what='a convex combination of probabilities, hence in [0,1]')
    # enough individuals covered: complete binomial tail
    fn = prog.func(LP, 'probability_enough_individuals_covered')
    rep.saw_function(m.rel + ':' + fn.name)
    ok = False
    det = ''
    try:
        T = Translator({}, call_hook=lambda T_, e, f: (T_.tr(e.args[0]) if f == 'int' else Rat.atom('ceil(%s)' % T_.tr(e.args[0]).canon()) if f == 'math.ceil' else Rat.atom('FLOOR[%s]' % ast.unparse(e)) if False else None))
        loops_ = [n for n in own_nodes(fn) if isinstance(n, ast.For)]
        if not loops_:
            # the tail through the binomial survival function of scipy.stats: binom.sf(k, n, p) = P(X > k), so the tail that starts
            # AT m = ceil(nsub/2) - 1 is sf(m - 1, N - 1, 1 - c0)
            from sa.extract import single_assignments, inline
            sing_ = single_assignments(fn)
            sfs = [c for c in own_nodes(fn) if isinstance(c, ast.Call) and (dotted(c.func) or '').endswith('binom.sf') and len(c.args) == 3 and not c.keywords]
            if len(sfs) == 1:
                from sa.srcmodel import clone as _cl

                class R0(ast.NodeTransformer):
                    def visit_BinOp(self, n):
                        self.generic_visit(n)
                        if isinstance(n.op, ast.FloorDiv) and ast.unparse(n) == 'n_sequenced // 2':
                            return ast.Name(id='N', ctx=ast.Load())
                        return n
                k_, n_, p_ = [R0().visit(_cl(inline(a, sing_))) for a in sfs[0].args]
                okk = T.tr(k_).equals(Rat.atom('ceil(%s)' % parse_expr('n_subsampling/2').canon()) - Rat.const(2))
                okn = T.tr(n_).equals(parse_expr('N - 1'))
                okp_ = ast.unparse(p_) in ('numpy.sum(coverage_distribution[1][1:])', '1 - coverage_distribution[1][0]', '1.0 - coverage_distribution[1][0]')
                rets_ = returns(fn)
                okv = len(rets_) == 1 and inline(rets_[0].value, sing_) is not None and ast.unparse(inline(rets_[0].value, sing_)) == ast.unparse(inline(sfs[0], sing_))
                rep.ob('R-ALG', 'probability_enough_individuals_covered tail', okk and okn and okp_ and okv,
                       'binom.sf(%s, %s, %s) = P(X > %s): the tail must start at ceil(nsub/2) - 1, i.e. the first argument must be ceil(nsub/2) - 2' % (ast.unparse(k_), ast.unparse(n_), ast.unparse(p_), ast.unparse(k_)),
                       m.rel, fn.lineno, what='sum_{j=ceil(nsub/2)-1}^{N-1} C(N-1,j) c0^(N-1-j) (1-c0)^j over the other N-1 individuals (exponents add to N-1, upper limit N-1 inclusive)')
                raise StopIteration
        lp = loops_[0]
        rng = lp.iter

        def fl(e):
            # n_sequenced // 2 -> atom N
            class R(ast.NodeTransformer):
                def visit_BinOp(self, n):
                    self.generic_visit(n)
                    if isinstance(n.op, ast.FloorDiv) and ast.unparse(n) == 'n_sequenced // 2':
                        return ast.Name(id='N', ctx=ast.Load())
                    return n
            from sa.srcmodel import clone
            return R().visit(clone(e))
        lo, hi = T.tr(fl(rng.args[0])), T.tr(fl(rng.args[1]))
        okr = hi.equals(parse_expr('N')) and lo.equals(Rat.atom('ceil(%s)' % parse_expr('n_subsampling/2').canon()) - Rat.const(1))
        acc = [s for s in lp.body if isinstance(s, ast.AugAssign)][0]
        Tt = Translator({}, call_hook=lambda T_, e, f: Rat.atom('comb(%s)' % ','.join(T_.tr(a).canon() for a in e.args)) if f == 'comb' else
                        (Rat.atom('SUM[%s]' % ast.unparse(e.args[0])) if f == 'numpy.sum' else None),
                        index_hook=lambda T_, e: Rat.atom('c0') if ast.unparse(e) == 'coverage_distribution[1][0]' else None)
        term = Tt.tr(fl(acc.value))
        ref = Rat.atom('pow(c0,%s)' % parse_expr('N - 1 - covered').canon()) * Rat.atom('pow(SUM[coverage_distribution[1][1:]],covered)') * Rat.atom('comb(%s,covered)' % parse_expr('N - 1').canon())
        ok = okr and term.equals(ref) and ast.unparse(lp.target) == 'covered'
        det = 'range %s..%s (exclusive); term %s' % (lo.canon(), hi.canon(), term.canon())
    except (AlgebraError, IndexError, AttributeError) as e:
        det = 'not recognised: %s' % e
    except StopIteration:
        det = None
    if det is not None:
        if not ok:
            # by value: the function executed abstractly for every n_sequenced in 2..8 and n_subsampling in 1..n_sequenced, the coverage
            # probabilities symbolic; the polynomial it returns is compared with the binomial tail
            v_ok, v_det = enough_covered_by_value(prog, m, fn)
            if v_ok is not None:
                ok, det = v_ok, v_det
        rep.ob('R-ALG', 'probability_enough_individuals_covered tail', ok, det, m.rel, fn.lineno,
               what='sum_{j=ceil(nsub/2)-1}^{N-1} C(N-1,j) c0^(N-1-j) (1-c0)^j over the other N-1 individuals (exponents add to N-1, upper limit N-1 inclusive)')


PARAM_ROLE = {'coverage_distribution': 'cov', 'n_sequenced': 'seq', 'n_subsampling': 'sub', 'Fx': 'F', 'F': 'F', 'nsub': 'sub', 'nseq': 'seq', 'cov_dist': 'cov', 'sim_threshold': 'thr', 'nsim': 'nsim',
              'allele_frequency': 'af', 'number_simulations': 'nsim'}


def arg_role(txt):
    txt = txt.rstrip('_')
    for k, v in (('cov_dist', 'cov'), ('nseq', 'seq'), ('nsub', 'sub'), ('Fx', 'F'), ('sim_threshold', 'thr'), ('nsim', 'nsim'), ('af', 'af')):
        if txt == k:
            return v
    return None


PRECALC_SIM = {}


def precalc_outer(prog, m, fn):
    """the no-call array the pre-computation returns for 1..3 populations (abstract execution): an outer product whose factors, read
    left to right, are the one-population arrays of populations 0, 1, ... -- and the per-population lists it returns are in that order"""
    from sa import miniexec as mx
    from sa import alpha as _alpha
    known_ = _alpha.load_table().get('__params__', {}).get(m.rel)
    known_ = set(known_) if known_ is not None else None
    bad, badsim = [], []
    for D in (1, 2, 3):
        it = mx.Interp(prog, m, known_functions=known_, symbolic_loops=True)
        args = {'nsub': tuple(mx.Sym('nsub[%d]' % i) for i in range(D)), 'nseq': tuple(mx.Sym('nseq[%d]' % i) for i in range(D)),
                'cov_dist': {'pop%d' % i: mx.Sym('cov_dist[%d]' % i) for i in range(D)}, 'sim_threshold': mx.Sym('sim_threshold'),
                'Fx': [mx.Sym('Fx[%d]' % i) for i in range(D)], 'nsim': mx.Sym('nsim')}
        try:
            paths = [p_ for p_ in it.run(fn, args) if p_[0][0] == 'return']
        except mx.Undecidable as e:
            raise AnalysisError('low_cov_precalc is not recognised: %s' % e)
        if not paths:
            bad.append('%d populations: no returning path' % D)
        for outcome, events, dec in paths:
            r = outcome[1]
            if not (isinstance(r, tuple) and len(r) == 5):
                bad.append('%d populations: returns %s' % (D, mx.show(r)[:60]))
                continue

            def leaves(v):
                c = mx.call_of(v, 'outer')
                if c is not None and len(c[0]) == 2 and not c[1]:
                    return leaves(c[0][0]) + leaves(c[0][1])
                return [v]
            lv = [x for x in leaves(r[0]) if x != 1]
            got = []
            for x in lv:
                c = mx.call_of(x, 'probability_of_no_call_1D_GATK_multisample')
                got.append([mx.show(a) for a in c[0]] if c is not None and not c[1] else [mx.show(x)[:40]])
            want = [['cov_dist[%d]' % i, 'nseq[%d]' % i, 'Fx[%d]' % i] for i in range(D)]
            if got != want:
                bad.append('%d populations: factors of the no-call array %s' % (D, got))
            # the mask is (no-call probability > threshold); the simulated set is argwhere(mask); one simulation per entry
            mask = r[1]
            okmask = isinstance(mask, mx.Sym) and mx.show(mask).strip('()') in ('%s > sim_threshold' % mx.show(r[0]), 'sim_threshold < %s' % mx.show(r[0]))
            if not okmask:
                badsim.append('%d populations: mask %s' % (D, mx.show(mask)[:80]))
            so = r[4]
            oks = isinstance(so, mx.Sym) and so.struct and so.struct[0] == 'dictcomp'
            if oks:
                k_, v_, itv, tgt = so.struct[1:5]
                aw = mx.call_of(itv, 'argwhere')
                sc_ = mx.call_of(v_, 'simulate_GATK_multisample_calling')
                oks = aw is not None and len(aw[0]) == 1 and aw[0][0] is mask and mx.show(k_) == 'tuple(%s)' % tgt and sc_ is not None and not sc_[1] and len(sc_[0]) == 6 and \
                    [mx.show(a) for a in sc_[0]] == [mx.show(args['cov_dist']), tgt, mx.show(args['nseq']), mx.show(args['nsub']), 'nsim', mx.show(args['Fx'])]
            if not oks:
                badsim.append('%d populations: simulated outputs %s' % (D, mx.show(so)[:100]))
            for k_, nm_ in ((2, 'projection'), (3, 'heterozygote error')):
                if not (isinstance(r[k_], list) and len(r[k_]) == D and all(('[%d]' % i) in mx.show(x) and not any(('[%d]' % j) in mx.show(x) for j in range(D) if j != i and k_ == 3) for i, x in enumerate(r[k_]))):
                    bad.append('%d populations: %s matrices %s' % (D, nm_, mx.show(r[k_])[:80]))
    PRECALC_SIM['ok'] = not badsim
    PRECALC_SIM['detail'] = '; '.join(badsim[:2]) if badsim else 'simulated entries = argwhere(prob_nocall > threshold), returned with the mask they came from; one simulation per entry, keyed by the entry'
    return not bad, '; '.join(bad[:2]) if bad else 'outer product of the one-population no-call arrays in population order (1-3 populations); matrix lists in population order'


def check_precalc(rep, prog):
    m = prog.mod(LP)
    fn = prog.func(LP, 'low_cov_precalc_GATK_multisample_GATK_multisample')
    rep.saw_function(m.rel + ':' + fn.name)
    callees = ['probability_of_no_call_1D_GATK_multisample', 'probability_enough_individuals_covered', 'projection_matrix', 'calling_error_matrix', 'simulate_GATK_multisample_calling']
    n = 0
    for c in own_nodes(fn):
        if isinstance(c, ast.Call) and dotted(c.func) in callees:
            q = dotted(c.func)
            pr = func_params(prog.func(LP, q))
            want = [PARAM_ROLE.get(p) for p in pr[:len(c.args)]]
            got = [arg_role(ast.unparse(a)) for a in c.args]
            okc = got == want and None not in got and not any(k.arg is None for k in c.keywords)
            # element-wise zips: the comprehension variables must come from the sources of the same role, in order
            comp = c
            while comp is not None and not isinstance(comp, (ast.ListComp, ast.DictComp)):
                comp = getattr(comp, '_parent', None)
            if comp is not None and q != 'simulate_GATK_multisample_calling':
                g = comp.generators[0]
                tv = [ast.unparse(e) for e in (g.target.elts if isinstance(g.target, ast.Tuple) else [g.target])]
                src = [ast.unparse(a) for a in g.iter.args] if isinstance(g.iter, ast.Call) and dotted(g.iter.func) == 'zip' else []
                okc = okc and len(tv) == len(src) and all(arg_role(a) == arg_role(b.replace('.values()', '')) for a, b in zip(tv, src))
            n += 1
            rep.ob('R-ARGS', 'low_cov_precalc call %s' % q, okc, '%s(%s) against parameters %s' % (q, ', '.join(ast.unparse(a) for a in c.args), pr), m.rel, c.lineno,
                   what='coverage / sequenced size / subsample size / F reach the parameters of the same meaning, population by population')
    if n < 5:
        raise AnalysisError('low_cov_precalc: only %d of the 5 helper calls were found' % n)
    oko, deto = precalc_outer(prog, m, fn)
    rep.ob('R-IDX', 'low_cov_precalc no-call outer product', oko, deto, m.rel, fn.lineno, what='axis i of the no-call array belongs to population i')
    okm, detm = PRECALC_SIM['ok'], PRECALC_SIM['detail']
    rep.ob('R-COMPL', 'low_cov_precalc simulated set', okm, detm, m.rel, fn.lineno,
           what='the simulated index set is exactly the support of use_sim_mat')
    sim = prog.func(LP, 'simulate_GATK_multisample_calling')
    r = returns(sim)
    norm_site(rep, m, sim, 'simulated outcome distribution is normalised (uncalled sites kept in entry 0)', r[0].value if len(r) == 1 else None, 'simulate_GATK_multisample_calling')
    ts = ast.unparse(sim)
    oku = has(ts, 'output_freqs.flat[0] += numpy.sum(t_alt < 2)') and has(ts, 'output_freqs.flat[0] += numpy.sum(all_enough_calls == False)') and has(ts, '(n_ref, n_alt) = (n_ref[t_alt >= 2], n_alt[t_alt >= 2])')
    if not oku:
        # by meaning: every counter added to entry 0 counts the complement of a mask that the arrays are filtered with
        def kept_mask(e):
            """text of the mask of the sites that are KEPT when e is the mask of the discarded ones"""
            if isinstance(e, ast.UnaryOp) and isinstance(e.op, (ast.Invert, ast.Not)):
                return ast.unparse(e.operand)
            if isinstance(e, ast.Call) and (dotted(e.func) or '').split('.')[-1] in ('logical_not', 'invert') and len(e.args) == 1:
                return ast.unparse(e.args[0])
            if isinstance(e, ast.Compare) and len(e.ops) == 1:
                if isinstance(e.comparators[0], ast.Constant) and e.comparators[0].value is False and isinstance(e.ops[0], (ast.Eq, ast.Is)):
                    return ast.unparse(e.left)
                flip = {ast.Lt: ast.GtE, ast.LtE: ast.Gt, ast.Gt: ast.LtE, ast.GtE: ast.Lt, ast.Eq: ast.NotEq, ast.NotEq: ast.Eq}.get(type(e.ops[0]))
                if flip is not None:
                    return ast.unparse(ast.Compare(left=e.left, ops=[flip()], comparators=e.comparators))
            return None
        counters = []
        for n_ in own_nodes(sim):
            if isinstance(n_, ast.AugAssign) and isinstance(n_.op, ast.Add) and ast.unparse(n_.target).replace(' ', '') in ('output_freqs.flat[0]',) and isinstance(n_.value, ast.Call):
                f_ = (dotted(n_.value.func) or '').split('.')[-1]
                arg = n_.value.args[0] if f_ in ('sum', 'count_nonzero') and len(n_.value.args) == 1 and not n_.value.keywords else \
                    (n_.value.func.value if f_ == 'sum' and isinstance(n_.value.func, ast.Attribute) and not n_.value.args else None)
                counters.append(kept_mask(arg) if arg is not None else None)
        idx_texts = {ast.unparse(x.slice) for x in own_nodes(sim) if isinstance(x, ast.Subscript)}
        if len(counters) == 2 and all(c is not None for c in counters):
            used = all(c in idx_texts for c in counters)
            alt2 = any(c.replace(' ', '') in ('t_alt>=2', 't_alt>1') for c in counters)
            if used and alt2:
                oku = True
            elif not alt2:
                pass        # the threshold on the alternative reads is not the one the rule knows: reported below as it was
    rep.ob('R-COMPL', 'simulate_GATK uncalled sites', oku, 'sites with fewer than two alternative reads / too few called individuals are added to entry 0; the complement continues', m.rel, sim.lineno,
           what='every simulated site is counted exactly once, uncalled ones in the masked corner')
    sub = prog.func(LP, 'subsample_genotypes_1D')
    perm = [c for c in own_nodes(sub) if isinstance(c, ast.Call) and isinstance(c.func, ast.Attribute) and c.func.attr in ('permuted', 'permutation', 'shuffle', 'choice')]
    okp = len(perm) == 1 and perm[0].func.attr == 'permuted' and any(k.arg == 'axis' and ast.unparse(k.value) == '1' for k in perm[0].keywords) and \
        has(ast.unparse(sub), 'subsampled_data.append(permuted_loci[:, :n_subsampling // 2])')
    rep.ob('R-INDEP', 'subsample_genotypes_1D shuffling', okp, 'shuffle call: %s' % (ast.unparse(perm[0]) if perm else 'none'), m.rel, sub.lineno,
           what='every locus is shuffled independently (Generator.permuted along axis 1; Generator.permutation would apply ONE column order to all loci) before the first n/2 genotypes are kept')
    cc = prog.func(LP, 'compute_cov_dist')
    tcc = ast.unparse(cc)
    okn = has(tcc, 'numpy.array([elements, counts / numpy.sum(counts)])')
    rep.ob('R-NORM', 'compute_cov_dist', okn, 'counts / counts.sum()', m.rel, cc.lineno, what='depth distribution is normalised by its own sum')


def apply_axis_ops(ops, D, i):
    """axis order after the sequence of (kind, a, b) permutation calls; names pop_ii -> i"""
    order = list(range(D))

    def val(x):
        return {'pop_ii': i, '-1': D - 1}.get(x, None) if not re.fullmatch(r'-?\d+', x) or x == '-1' else int(x)
    for kind, a, b in ops:
        a, b = val(a), val(b)
        if a is None or b is None:
            raise AnalysisError('axis argument not understood')
        a %= D
        b %= D
        if kind == 'swapaxes':
            order[a], order[b] = order[b], order[a]
        elif kind == 'moveaxis':
            x = order.pop(a)
            order.insert(b, x)
        else:
            raise AnalysisError('axis operation %s' % kind)
    return order


def check_lowpass_func(rep, prog):
    m = prog.mod(LP)
    outer = prog.func(LP, 'make_low_pass_func_GATK_multisample')
    rep.saw_function(m.rel + ':' + outer.name)
    inner = [n for n in outer.body if isinstance(n, ast.FunctionDef) and n.name == 'lowpass_func']
    if len(inner) != 1:
        raise AnalysisError('lowpass_func not found')
    fn = inner[0]
    # what the corrected model function returns for 1..3 populations: abstract execution of the closure (the cached pre-computation
    # is a symbolic 5-tuple whose matrix lists have one entry per population)
    from sa import miniexec as mx
    from sa import alpha as _alpha
    known_ = _alpha.load_table().get('__params__', {}).get(m.rel)
    known_ = set(known_) if known_ is not None else None
    bad = {'axis': [], 'order': [], 'split': [], 'model': [], 'key': [], 'meta': []}
    t = ast.unparse(fn)
    for D in (1, 2, 3):
        pre_tuple = (mx.Sym('prob_nocall_ND'), mx.Sym('use_sim_mat'), mx.Sym('proj_mats', length=D), mx.Sym('heterr_mats', length=D), mx.Sym('sim_outputs'))

        def ih(base, key):
            if isinstance(base, dict) and isinstance(key, mx.Sym) and key.text == 'tuple(nsub)':
                return pre_tuple
            return NotImplemented

        def fh(nm, args, kwargs):
            if nm == 'low_cov_precalc_GATK_multisample_GATK_multisample':
                return pre_tuple
            return NotImplemented
        it = mx.Interp(prog, m, known_functions=known_, symbolic_loops=True, index_hook=ih, func_hook=fh)

        def thunk(it=it):
            w = it.call_function(outer, it.bind(outer, [mx.Sym('func', truth=True), mx.Sym('cov_dist'), mx.Sym('pop_ids'), mx.Sym('nseq'), mx.Sym('nsub')],
                                                {'sim_threshold': mx.Sym('sim_threshold'), 'Fx': mx.Sym('Fx', truth=True), 'nsim': mx.Sym('nsim')}))
            if not isinstance(w, mx.FuncRef):
                raise mx.Undecidable('make_low_pass_func does not return a function')
            return it.apply(w, [mx.Sym('params'), mx.Sym('ns'), mx.Sym('pts')], {'k': mx.Sym('k')})
        try:
            paths = [p_ for p_ in it.run_thunk(thunk, 'make_low_pass_func(...)(params, ns, pts, k=k)') if p_[0][0] == 'return']
        except mx.Undecidable as e:
            raise AnalysisError('lowpass_func is not recognised: %s' % e)
        if not paths:
            bad['split'].append('%d populations: no returning path' % D)
        for outcome, events, dec in paths:
            tagd = '%d populations' % D
            fc = [e for e in events if e[0] == 'call' and e[1] == 'func']
            if len(fc) != 1 or [mx.show(a) for a in fc[0][2]] != ['params', 'nseq', 'pts'] or {k_: mx.show(v_) for k_, v_ in fc[0][3].items()} != {'k': 'k'}:
                bad['model'].append('%s: model called with (%s)' % (tagd, ', '.join(mx.show(a) for a in fc[0][2]) if fc else 'nothing'))
            pc = [e for e in events if e[0] == 'call' and e[1] == 'low_cov_precalc_GATK_multisample_GATK_multisample']
            for e in pc:
                if [mx.show(a) for a in e[2]] != ['nsub', 'nseq', 'cov_dist', 'sim_threshold', 'Fx'] or {k_: mx.show(v_) for k_, v_ in e[3].items()} != {'nsim': 'nsim'}:
                    bad['key'].append('%s: pre-computation called with %s' % (tagd, [mx.show(a) for a in e[2]]))
            for e in [e for e in events if e[0] == 'setitem' and isinstance(e[4], dict)]:
                if mx.show(e[2]) != 'tuple(nsub)':
                    bad['key'].append('%s: cache key %s' % (tagd, mx.show(e[2])))
            terms = mx.factors(outcome[1], '+')
            sims = [x for x in terms if mx.call_of(x, 'sum') is not None]
            ana = [x for x in terms if x not in sims]
            if len(sims) != 1 or len(ana) != 1:
                bad['split'].append('%s: result %s' % (tagd, mx.show(outcome[1])[:80]))
                continue
            sc = mx.call_of(sims[0], 'sum')
            comp = sc[0][0] if sc[0] else None
            okS = isinstance(comp, mx.Sym) and comp.struct and comp.struct[0] == 'comp' and mx.show(comp.struct[2]) == 'sim_outputs.items()' and mx.show(sc[1].get('axis')) == '0'
            if okS:
                tv = comp.struct[3].strip('()').split(', ')
                okS = len(tv) == 2 and sorted(mx.show(f_) for f_ in mx.factors(comp.struct[1], '*')) == sorted(['func(params, nseq, pts, k=k)[%s]' % tv[0], tv[1]])
            if not okS:
                bad['split'].append('%s: simulated part %s' % (tagd, mx.show(sims[0])[:90]))
            # unwrap the chain of axis swaps and matrix products of the analytic part
            v = ana[0]
            ops = []
            while isinstance(v, mx.Sym) and v.struct and v.struct[0] == 'call':
                rec = mx.method_call(v, 'swapaxes')
                if rec is not None:
                    ops.append(('swapaxes',) + tuple(v.struct[2]))
                    v = rec
                    continue
                rec = mx.method_call(v, 'dot')
                if rec is not None:
                    ops.append(('dot', mx.show(v.struct[2][0])))
                    v = rec
                    continue
                c_ = mx.call_of(v, 'swapaxes') or mx.call_of(v, 'dot')
                if c_ is not None and v.struct[1].split('.')[0] in ('numpy', 'np'):
                    nm_ = v.struct[1].split('.')[-1]
                    ops.append((nm_,) + (tuple(c_[0][1:]) if nm_ == 'swapaxes' else (mx.show(c_[0][1]),)))
                    v = c_[0][0]
                    continue
                break
            ops.reverse()
            base_f = sorted(mx.show(f_) for f_ in mx.factors(v, '*'))
            if base_f != sorted(['func(params, nseq, pts, k=k)', '(1 - use_sim_mat)', '(1 - prob_nocall_ND)']):
                bad['split'].append('%s: analytic part starts from %s' % (tagd, base_f))
            want_dots = []
            for i_ in range(D):
                want_dots += ['proj_mats[%d]' % i_, 'heterr_mats[%d]' % i_]
            if [o[1] for o in ops if o[0] == 'dot'] != want_dots:
                bad['order'].append('%s: products %s' % (tagd, [o[1] for o in ops if o[0] == 'dot']))
            # axis bookkeeping: every product acts on the last axis while it holds the axis of its population; identity order at the end
            perm = list(range(D))
            pop_of_dot = iter([i_ for i_ in range(D) for _ in range(2)])
            okax = True
            for o in ops:
                if o[0] == 'swapaxes':
                    a_, b_ = o[1], o[2]
                    if not (isinstance(a_, int) and isinstance(b_, int)):
                        okax = False
                        break
                    a_, b_ = a_ % D, b_ % D
                    perm[a_], perm[b_] = perm[b_], perm[a_]
                else:
                    try:
                        if perm[-1] != next(pop_of_dot):
                            okax = False
                    except StopIteration:
                        okax = False
            if not okax or perm != list(range(D)):
                bad['axis'].append('%s: axis order after the loop %s (ops %s)' % (tagd, perm, [o[:1] + tuple(mx.show(x) for x in o[1:]) for o in ops][:6]))
            sets = {e[2]: mx.show(e[3]) for e in events if e[0] == 'setattr' and e[1] == mx.show(outcome[1])}
            if sets.get('folded') != 'func(params, nseq, pts, k=k).folded' or sets.get('extrap_x') != 'func(params, nseq, pts, k=k).extrap_x':
                bad['meta'].append('%s: %s' % (tagd, sets))

    def fmt(k, okmsg):
        return '; '.join(sorted(set(bad[k]))[:2]) if bad[k] else okmsg
    rep.ob('R-RESTORE', 'lowpass_func axis order', not bad['axis'], fmt('axis', 'each pair of products acts on the axis of its population (moved to the end and back); identity axis order at the end'), m.rel, fn.lineno,
           what='each iteration multiplies along the axis of its population and returns the array to the original axis order (1-3 populations)')
    rep.ob('R-ORD', 'lowpass_func matrix order', not bad['order'], fmt('order', 'dot(proj_mats[i]) then dot(heterr_mats[i]) for every population i in order'), m.rel, fn.lineno,
           what='projection to the subsample first, then heterozygote miscalling on the subsample')
    pre_ret = ast.unparse(prog.func(LP, 'low_cov_precalc_GATK_multisample_GATK_multisample').body[-1])
    okc = not bad['split'] and flat(pre_ret) == flat('return prob_nocall_ND, use_sim_mat, proj_mats, heterr_mats, sim_outputs')
    rep.ob('R-COMPL', 'lowpass_func analytic/simulated split', okc, fmt('split', 'analytic = model*(1-use_sim)*(1-p_nocall) transformed; simulated = sum over simulated entries of model[af]*outcome distribution'), m.rel, fn.lineno,
           what='every model entry is used exactly once: analytically where use_sim_mat is 0, by simulation where it is 1; results unpacked in the order they are returned')
    rep.ob('R-ARGS', 'lowpass_func model sample size', not bad['model'], fmt('model', 'the model is evaluated with ns = nseq'), m.rel, fn.lineno, what='the uncorrected model has the sequenced sample sizes')
    rebound = {n.id for n in own_nodes(fn) if isinstance(n, ast.Name) and isinstance(n.ctx, ast.Store)} & {'nsub', 'nseq', 'cov_dist', 'sim_threshold', 'Fx', 'nsim'}
    pp = func_params(prog.func(LP, 'low_cov_precalc_GATK_multisample_GATK_multisample'))
    okk = not bad['key'] and not rebound and pp[:5] == ['nsub', 'nseq', 'cov_dist', 'sim_threshold', 'Fx'] and 'precalc_cache = {}' in ast.unparse(outer)
    rep.ob('R-KEY', 'lowpass_func precalc cache', okk, fmt('key', 'key tuple(nsub); nseq, cov_dist, sim_threshold, Fx, nsim are closure constants (rebound: %s)' % sorted(rebound)), m.rel, fn.lineno,
           what='the cache key determines the cached matrices')
    to = ast.unparse(outer)
    okf = has(to, 'elif numpy.any(numpy.asarray(Fx) == 1): raise ValueError') and has(to, 'if Fx is None:\n        Fx = [0] * len(nseq)')
    rep.ob('R-DOM', 'make_low_pass_func Fx', okf, 'Fx defaults to zeros per population; Fx == 1 is refused', m.rel, outer.lineno, what='the beta-binomial weights are never evaluated at F = 1')
    okfo = has(t, "if model.folded:\n        raise ValueError") and not bad['meta']
    rep.ob('R-FLOW', 'lowpass_func metadata', okfo, 'folded models are refused; folding status and extrapolation abscissa are carried over', m.rel, fn.lineno, what='the corrected spectrum keeps the metadata of the model')


def check_shared_structures(rep, prog):
    """the genotype partitions handed around in the simulated regime are the objects stored in Numerics' partition cache: the functions
    that combine them must build new lists (alias / effect analysis with element-level aliasing through itertools.product, zip, list,
    tuple: an in-place `+=`, `*=`, .extend on an element of the argument changes the cached object)"""
    from sa import effects
    from sa.flow import Engine
    m = prog.mod(LP)

    class Eff(effects.EffAnalysis):
        def call(self, e, s):
            fn_ = dotted(e.func) or ''
            if fn_ in ('itertools.product', 'itertools.chain', 'itertools.combinations', 'itertools.permutations', 'itertools.zip_longest', 'zip', 'list', 'tuple', 'sorted', 'reversed', 'iter',
                       'itertools.chain.from_iterable', 'enumerate'):
                held = frozenset()
                for a in e.args:
                    v = self.ev(a.value if isinstance(a, ast.Starred) else a, s)
                    held = held | v.al | v.held
                return effects.Val(frozenset(), '?', frozenset(), held)
            return super().call(e, s)
    for q in ('flatten_nested_list',):
        fn = prog.func(LP, q)
        rep.saw_function(m.rel + ':' + q)
        an = Eff(prog, m, fn, {}, {})
        an.summaries = _Default()
        try:
            Engine(an, max_iter=6).run_function(fn, an.initial())
            mut = sorted(an.mut)
            det = 'no element of the argument is updated in place' if not mut else 'line %d: %s (argument %s)' % (an.mut[mut[0]][0], an.mut[mut[0]][1], mut[0])
        except Exception as e:        # the analysis itself failing is not a verdict
            raise AnalysisError('%s: effect analysis failed: %s' % (q, e))
        rep.ob('R-PURE', '%s elements' % q, not mut, det, m.rel, an.mut[mut[0]][0] if mut else fn.lineno,
               what='combined partitions are new objects: the sub-lists of the argument (cached partitions) are not extended or scaled in place')


class _Default(dict):
    def __missing__(self, k):
        from sa.effects import Summary
        v = Summary()
        self[k] = v
        return v


def run(rep, prog, tier):
    check_partitions(rep, prog)
    check_shared_structures(rep, prog)
    check_new_memos(rep, prog)
    check_projection(rep, prog)
    check_calling_error(rep, prog)
    check_nocall(rep, prog)
    check_precalc(rep, prog)
    check_lowpass_func(rep, prog)
    rep.floor('R-NORM', 6)
    rep.floor('R-ALG', 7)
    rep.floor('R-ARGS', 7)
