"""C08 - Projection is hypergeometric subsampling: conserving, composable, mask-monotone (DESIGN.md C08)."""
import ast, re
from sa import generic
from sa.algebra import Rat, Translator, AlgebraError, parse_expr
from sa.extract import single_assignments, inline, names_in, straightline
from sa.srcmodel import own_nodes, dotted, positional_params, bind_call
from sa.report import AnalysisError
from rules import c20

EXPLANATION = (
    "Decides for all sample sizes, hit counts and masks: (1) R-ALG - _cached_projection computes exp(lnC(to,j) + "
    "lnC(from-to,hits-j) - lnC(from,hits)), the hypergeometric log-pmf, with _lncomb = gammaln(N+1)-gammaln(k+1)-gammaln(N-k+1); "
    "(2) window - _project_one_axis uses [max(n-(from-hits),0), min(hits,n)], the exact support, and the SAME window slices the "
    "destination data, the weights and the destination mask; the source slice is [hits, hits+1); the data and mask updates are "
    "unconditional statements of the loop over hits = 0..from (no skip can make the mask depend on data values); masks are "
    "OR-ed from the source slice; (3) R-KEY - the memo key (to, from, hits) covers all inputs and R-MEMO - no function of the "
    "package writes through an array read from the projection cache; (4) R-IDX - the three call sites pass (to, from, hits) in "
    "that order; (5) typestate - project() refuses upward projection before any work, unfolds a folded input, projects each "
    "requested axis independently and re-folds on every returning path, and carries labels and extrap_x. Numerical conservation "
    "and log-space accuracy are not decided.")
TECHNIQUE = "formula normal forms + window/loop templates + memo-key and memo-alias dataflow + fold typestate"
DECLINED = ["numerical conservation / composability over all (n, m, hits)", "accuracy of the log-space evaluation"]

NUM = 'dadi.Numerics'
SM = 'dadi.Spectrum_mod'


def run(rep, prog, tier):
    nm = prog.mod(NUM)
    sm = prog.mod(SM)
    rep.saw_file(nm.rel)
    rep.saw_file(sm.rel)
    # ---- (1) formulas ----------------------------------------------------------------------------------------
    lc = prog.func(NUM, '_lncomb')
    try:
        env, r = straightline(lc)
        ok = r.equals(parse_expr('gammaln(N + 1) - gammaln(k + 1) - gammaln(N - k + 1)'))
    except AlgebraError:
        ok = False
    rep.ob('R-ALG', 'Numerics._lncomb', ok, 'ln C(N,k) = gammaln(N+1) - gammaln(k+1) - gammaln(N-k+1)', nm.rel, lc.lineno, what='log binomial coefficient')
    cp = prog.func(NUM, '_cached_projection')
    rep.saw_function(nm.rel + ':_cached_projection')
    generic.rule_name(rep, prog, nm, cp)
    generic.rule_def(rep, nm, cp)
    params = positional_params(cp)
    rep.ob('R-IDX', '_cached_projection signature', params == ['proj_to', 'proj_from', 'hits'], 'parameters %s' % params, nm.rel, cp.lineno, what='(proj_to, proj_from, hits)')
    # the regime switch: short circuit for proj_from < proj_to, log-space computation otherwise (found by what the branches do,
    # not by the names of their variables)
    blk = None
    for n in own_nodes(cp):
        if isinstance(n, ast.If) and n.orelse and any(isinstance(c, ast.Call) and dotted(c.func) == '_lncomb' for x in n.orelse for c in ast.walk(x)):
            blk = n
    if blk is None:
        raise AnalysisError('anchor vanished: log-space computation in _cached_projection')
    from sa.algebra import exp_of

    def eval_branch(stmts_):
        """symbolic values of the locals after the branch; the hit-count vector arange(proj_to+1) is the atom j"""
        tr_ = Translator({})
        stored = None
        okh_ = None
        for x in stmts_:
            if isinstance(x, ast.Assign) and len(x.targets) == 1:
                t_ = x.targets[0]
                if isinstance(x.value, ast.Call) and (dotted(x.value.func) or '').replace('np.', 'numpy.') == 'numpy.arange' and isinstance(t_, ast.Name):
                    okh_ = (ast.unparse(x.value).replace('np.', 'numpy.') == 'numpy.arange(proj_to + 1)', x)
                    tr_.env[t_.id] = Rat.atom('j')
                    continue
                if isinstance(x.value, ast.Call) and dotted(x.value.func) == 'numpy.seterr':
                    continue
                v_ = tr_.tr(x.value)
                if isinstance(t_, ast.Name):
                    tr_.env[t_.id] = v_
                elif ast.unparse(t_) == '_projection_cache[key]':
                    stored = v_
            elif isinstance(x, ast.AugAssign) and isinstance(x.target, ast.Name) and isinstance(x.op, (ast.Add, ast.Sub)):
                cur = tr_.env[x.target.id]
                v_ = tr_.tr(x.value)
                tr_.env[x.target.id] = cur + v_ if isinstance(x.op, ast.Add) else cur - v_
        return tr_.env, stored, okh_
    okf = okc = oks = False
    res_name = None
    try:
        env_e, stored_e, okh = eval_branch(blk.orelse)
        env_i, stored_i, _ = eval_branch(blk.body)
        if okh is not None:
            rep.ob('R-ALG', '_cached_projection hits range', okh[0], ast.unparse(okh[1]), nm.rel, okh[1].lineno, what='target hit counts j = 0..proj_to')
        ref = parse_expr('_lncomb(proj_to, j) + _lncomb(proj_from - proj_to, hits - j) - _lncomb(proj_from, hits)')
        want = exp_of(ref)
        # the value that reaches the cache: stored inside the branch, or through a local stored after the switch
        after = [x for x in own_nodes(cp) if isinstance(x, ast.Assign) and ast.unparse(x.targets[0]) == '_projection_cache[key]' and x not in blk.body and x not in blk.orelse]
        if stored_e is None and after and isinstance(after[0].value, ast.Name):
            res_name = after[0].value.id
            stored_e, stored_i = env_e.get(res_name), env_i.get(res_name)
        okc = stored_e is not None and stored_e.equals(want)
        okf = any(v.equals(ref) for v in env_e.values()) or okc
        conj = [ast.unparse(v) for v in (blk.test.values if isinstance(blk.test, ast.BoolOp) and isinstance(blk.test.op, ast.And) else [blk.test])]
        oks = stored_i is not None and stored_i.equals(parse_expr('zeros(proj_to + 1)')) and 'proj_from < proj_to' in conj and \
            not any(isinstance(x, (ast.If, ast.For, ast.While)) or (isinstance(x, ast.Assign) and isinstance(x.targets[0], ast.Subscript) and ast.unparse(x.targets[0]) != '_projection_cache[key]') for x in blk.body)
    except (AlgebraError, KeyError) as e:
        okf = okc = False
    rep.ob('R-ALG', '_cached_projection weights', okf and okc, 'ln w_j = lnC(to,j) + lnC(from-to,hits-j) - lnC(from,hits); cached weights = exp(.)', nm.rel, blk.lineno, what='hypergeometric log-pmf')
    rep.ob('R-ALG', '_cached_projection upward', oks, 'projecting upward contributes zeros(proj_to+1)', nm.rel, blk.lineno, what='short circuit for proj_from < proj_to')
    c20.rule_key_full(rep, prog, NUM, '_cached_projection', '_projection_cache')
    st = [n for n in own_nodes(cp) if isinstance(n, ast.Assign) and ast.unparse(n.targets[0]) == '_projection_cache[key]']
    rets = [ast.unparse(n.value) for n in own_nodes(cp) if isinstance(n, ast.Return)]
    okret = bool(st) and bool(rets) and set(rets) <= {'_projection_cache[key]'} | ({res_name} if res_name else set()) and '_projection_cache[key]' in rets + [ast.unparse(x.targets[0]) for x in st]
    rep.ob('R-FLOW', '_cached_projection return', okret, 'stores the computed weights under the key and returns the stored object; returns %s' % rets,
           nm.rel, cp.lineno, what='cache hit and miss return the same object')
    errs = [n for n in own_nodes(cp) if isinstance(n, ast.Call) and dotted(n.func) == 'numpy.seterr']
    okr = len(errs) == 2 and any(k.arg is None for k in errs[1].keywords)
    rep.ob('R-RESTORE', '_cached_projection error state', okr, 'numpy.seterr(...) saved and restored', nm.rel, errs[0].lineno if errs else cp.lineno, what='floating-point error state restored after the computation')
    # ---- (2) window and loop of _project_one_axis ---------------------------------------------------------------
    po = prog.func(SM, 'Spectrum._project_one_axis')
    rep.saw_function(sm.rel + ':Spectrum._project_one_axis')
    generic.rule_name(rep, prog, sm, po)
    generic.rule_def(rep, sm, po)
    loops = [n for n in po.body if isinstance(n, ast.For)]
    if len(loops) != 1:
        raise AnalysisError('anchor vanished: loop over hits in _project_one_axis')
    lp = loops[0]
    flat = all(isinstance(x, (ast.Assign, ast.AugAssign, ast.Expr)) for x in lp.body) and not any(isinstance(n, (ast.Continue, ast.Break, ast.If, ast.Try)) for x in lp.body for n in ast.walk(x))
    rep.ob('R-DOM', '_project_one_axis loop body', flat, 'loop body is a straight sequence of %d statements without continue/break/if' % len(lp.body), sm.rel, lp.lineno,
           what='data and mask updates execute for every hit count (mask propagation cannot depend on data values)')
    sing = single_assignments(po)
    # what one iteration of the loop does, for 1..3 populations and every axis: abstract execution with a symbolic hit count.  The
    # index tuples are compared as values, so the way they are built (lists updated in place, tuple arithmetic, Ellipsis) is irrelevant
    from sa import miniexec as mx
    from sa import alpha
    known = alpha.load_table().get('__params__', {}).get(sm.rel)
    known = set(known) if known is not None else None
    prob = {'loop': [], 'window': [], 'from': [], 'to': [], 'proj': [], 'call': [], 'data': [], 'mask': [], 'init': []}

    def rat(v):
        return parse_expr(mx.show(v))

    def window_of(sl, hits_name):
        """slice(max(n - (from - hits), 0), min(hits, n) + 1)"""
        if not isinstance(sl, slice) or sl.step not in (None, 1):
            return False
        lo, hi = mx.call_of(sl.start, 'max'), None
        his = mx.factors(sl.stop, '+') if isinstance(sl.stop, mx.Sym) else []
        hi_call = [x for x in his if mx.call_of(x, 'min') is not None]
        ones = [x for x in his if x == 1]
        if lo is None or len(hi_call) != 1 or len(ones) != 1 or len(his) != 2:
            return False
        try:
            la = sorted(rat(a).canon() if not isinstance(a, int) else str(a) for a in lo[0])
            ref = sorted([parse_expr('n - (FROM - %s)' % hits_name).canon(), '0'])
            la = [x.replace('self.sample_sizes[AXIS]', 'FROM') for x in la]
            ma = sorted(mx.show(a) for a in mx.call_of(hi_call[0], 'min')[0])
        except AlgebraError:
            return False
        return la == ref and ma == sorted([hits_name, 'n'])
    n_runs = 0
    for D in (1, 2, 3):
        for axis in range(D):
            it = mx.Interp(prog, sm, known_functions=known, symbolic_loops=True)
            selfv = mx.Sym('self', truth=True, attrs={'Npop': D, 'ndim': D, 'sample_sizes': mx.Sym('self.sample_sizes', length=D, elems=lambda k: mx.Sym('FROM' if k == axis else 'self.sample_sizes[%d]' % k)),
                                                   'shape': mx.Sym('self.shape', length=D)})
            try:
                paths = it.run(po, {'self': selfv, 'n': mx.Sym('n'), 'axis': axis})
            except mx.Undecidable as e:
                raise AnalysisError('_project_one_axis is not recognised: %s' % e)
            n_runs += 1
            tagr = '%d-D axis %d' % (D, axis)
            for outcome, events, dec in paths:
                lpe = [e for e in events if e[0] == 'loop']
                if len(lpe) != 1:
                    prob['loop'].append('%s: %d loops' % (tagr, len(lpe)))
                    continue
                hits = lpe[0][2]
                if lpe[0][1].replace(' ', '') not in ('range((FROM+1))', 'range(0,(FROM+1))', 'range(FROM+1)'):
                    prob['loop'].append('%s: loop over %s' % (tagr, lpe[0][1]))
                calls = [e for e in events if e[0] == 'call' and e[1].split('.')[-1] == '_cached_projection']
                if len(calls) != 1 or [mx.show(a) for a in calls[0][2]] != ['n', 'FROM', hits] or calls[0][3]:
                    prob['call'].append('%s: %s' % (tagr, ['%s(%s)' % (c[1], ', '.join(mx.show(a) for a in c[2])) for c in calls]))
                upd = [e for e in events if e[0] == 'augitem' and mx.show(e[1]).endswith('.data')]
                if len(upd) != 1 or upd[0][3] != 'Add':
                    prob['data'].append('%s: %d accumulating updates of the data' % (tagr, len(upd)))
                    continue
                _, base, key_to, _, val = upd[0]
                key_to = key_to if isinstance(key_to, tuple) else (key_to,)
                dest = mx.show(base)[:-len('.data')]

                def full_elsewhere(key, what):
                    return len(key) == D and all(mx.is_full_slice(x) for k_, x in enumerate(key) if k_ != axis)
                if not (full_elsewhere(key_to, 'to') and window_of(key_to[axis], hits)):
                    prob['to'].append('%s: destination index %s' % (tagr, mx.show(key_to)))
                fac = mx.factors(val, '*')
                src = [f for f in fac if isinstance(f, mx.Sym) and f.struct and f.struct[0] == 'index' and mx.show(f.struct[1]) == 'self.data']
                wts = [f for f in fac if f not in src]
                if len(src) != 1 or len(wts) != 1:
                    prob['data'].append('%s: increment %s' % (tagr, mx.show(val)[:80]))
                    continue
                key_from = src[0].struct[2] if isinstance(src[0].struct[2], tuple) else (src[0].struct[2],)
                okfrom = full_elsewhere(key_from, 'from') and isinstance(key_from[axis], slice) and mx.show(key_from[axis].start) == hits and \
                    mx.show(key_from[axis].stop).replace(' ', '') in ('(%s+1)' % hits, '(1+%s)' % hits) and key_from[axis].step in (None, 1)
                if not okfrom:
                    prob['from'].append('%s: source index %s' % (tagr, mx.show(key_from)))
                # the weights: proj[(nuax.., window, nuax..)]  or  proj[window][(nuax.., :, nuax..)]
                w = wts[0]
                okw = False
                if isinstance(w, mx.Sym) and w.struct and w.struct[0] == 'index':
                    inner, key = w.struct[1], w.struct[2] if isinstance(w.struct[2], tuple) else (w.struct[2],)
                    others = len(key) == D and all(mx.is_newaxis(x) for k_, x in enumerate(key) if k_ != axis)
                    if mx.call_of(inner, '_cached_projection') is not None:
                        okw = others and window_of(key[axis], hits)
                    elif isinstance(inner, mx.Sym) and inner.struct and inner.struct[0] == 'index' and mx.call_of(inner.struct[1], '_cached_projection') is not None:
                        okw = others and mx.is_full_slice(key[axis]) and window_of(inner.struct[2], hits)
                if not okw:
                    prob['proj'].append('%s: weights %s' % (tagr, mx.show(w)[:90]))
                # the mask: destination mask over the same window OR-ed with the source mask over the source slice
                mset = [e for e in events if e[0] == 'setitem' and e[1] == dest + '.mask'] + [e for e in events if e[0] == 'augitem' and mx.show(e[1]) == dest + '.mask']
                okm = False
                if len(mset) == 1:
                    e = mset[0]
                    if e[0] == 'setitem':
                        mkey, mval = e[2], e[3]
                        parts = mx.call_of(mval, 'logical_or') or mx.call_of(mval, 'mask_or')
                        texts = sorted(mx.show(a) for a in parts[0]) if parts else []
                        okm = mx.show(mkey) == mx.show(upd[0][2]) and texts == sorted(['%s.mask[%s]' % (dest, mx.show(upd[0][2]) if not isinstance(upd[0][2], tuple) else ', '.join(mx.show(x) for x in upd[0][2])),
                                                                                      'self.mask[%s]' % ', '.join(mx.show(x) for x in key_from)])
                    else:
                        okm = e[3] == 'BitOr' and mx.show(e[2]) == mx.show(upd[0][2]) and mx.show(e[4]) == 'self.mask[%s]' % ', '.join(mx.show(x) for x in key_from)
                if not okm:
                    prob['mask'].append('%s: %s' % (tagr, [(e[0], mx.show(e[2]), mx.show(e[3] if e[0] == 'setitem' else e[4])[:70]) for e in mset]))
    hv = lp.target.id if isinstance(lp.target, ast.Name) else '?'
    rep.ob('R-EXH', '_project_one_axis loop', not prob['loop'], '; '.join(prob['loop'][:2]) if prob['loop'] else 'for %s in range(current size + 1) (%d axis/dimension combinations executed abstractly)' % (hv, n_runs), sm.rel, lp.lineno,
           what='every source hit count 0..from is visited')
    rep.ob('R-ALG', '_project_one_axis window', not prob['to'] and not prob['proj'], '; '.join((prob['to'] + prob['proj'])[:2]) if prob['to'] or prob['proj'] else 'destination and weights restricted to [max(n-(from-hits),0), min(hits,n)]',
           sm.rel, lp.lineno, what='least = max(n-(from-hits), 0), most = min(hits, n): the support of the hypergeometric distribution')
    rep.ob('R-IDX', '_project_one_axis from_slice[axis]', not prob['from'], '; '.join(prob['from'][:2]) if prob['from'] else 'source restricted to slice(hits, hits+1) on the projected axis, full elsewhere', sm.rel, lp.lineno,
           what='from_slice[axis] = slice(hits, hits + 1)')
    rep.ob('R-IDX', '_project_one_axis to_slice[axis]', not prob['to'], '; '.join(prob['to'][:2]) if prob['to'] else 'destination restricted to the window on the projected axis, full elsewhere', sm.rel, lp.lineno,
           what='to_slice[axis] = slice(least, most + 1)')
    rep.ob('R-IDX', '_project_one_axis proj_slice[axis]', not prob['proj'], '; '.join(prob['proj'][:2]) if prob['proj'] else 'weights restricted to the window and aligned with the projected axis (new axes elsewhere)', sm.rel, lp.lineno,
           what='proj_slice[axis] = slice(least, most + 1)')
    rep.ob('R-IDX', '_project_one_axis weights call', not prob['call'], '; '.join(prob['call'][:2]) if prob['call'] else '_cached_projection(n, current size, hits)', sm.rel, lp.lineno, what='_cached_projection(to=n, from=proj_from, hits)')
    rep.ob('R-TPL', '_project_one_axis data update', not prob['data'], '; '.join(prob['data'][:2]) if prob['data'] else 'destination window += source slice * weights', sm.rel, lp.lineno, what='destination window += source slice * weights window')
    rep.ob('R-TPL', '_project_one_axis mask update', not prob['mask'], '; '.join(prob['mask'][:2]) if prob['mask'] else 'destination mask |= source mask over the same index tuples as the data', sm.rel, lp.lineno,
           what='destination mask |= source mask over the same window as the data')
    rep.ob('R-IDX', '_project_one_axis slices init', not prob['to'] and not prob['from'] and not prob['proj'], 'other axes: full slices for data, broadcast (newaxis) for the weights', sm.rel, po.lineno, what='only the projected axis is restricted')
    pfs = sing.get('pfs')
    okz = pfs is not None and 'numpy.zeros(newshape)' in ast.unparse(pfs) and 'mask_corners=False' in ast.unparse(pfs)
    ns_ = [x for x in po.body if isinstance(x, ast.Assign) and ast.unparse(x.targets[0]) == 'newshape[axis]']
    okz = okz and bool(ns_) and ast.unparse(ns_[0].value) == 'n + 1'
    rep.ob('R-TPL', '_project_one_axis result', okz, 'result starts as zeros with extent n+1 on the projected axis and an empty mask', sm.rel, po.lineno, what='fresh, unmasked accumulator')
    g = [n for n in po.body if isinstance(n, ast.If) and any(isinstance(x, ast.Raise) for x in n.body)]
    def up_test(t):
        # n > <current size of the axis>, the size possibly through a single-assignment local; either operand order
        if not (isinstance(t, ast.Compare) and len(t.ops) == 1 and isinstance(t.ops[0], (ast.Gt, ast.Lt))):
            return False
        a, b = (t.left, t.comparators[0]) if isinstance(t.ops[0], ast.Gt) else (t.comparators[0], t.left)
        return ast.unparse(a) == 'n' and ast.unparse(inline(b, sing)) == 'self.sample_sizes[axis]'
    rep.ob('R-DOM', '_project_one_axis upward', bool(g) and up_test(g[0].test) and po.body.index(g[0]) < po.body.index(lp), 'raises when n exceeds the current size',
           sm.rel, g[0].lineno if g else po.lineno, what='upward projection refused before any work')
    # ---- (5) project(): fold typestate ---------------------------------------------------------------------------------
    pr = prog.func(SM, 'Spectrum.project')
    rep.saw_function(sm.rel + ':Spectrum.project')
    generic.rule_name(rep, prog, sm, pr)
    generic.rule_def(rep, sm, pr)
    stm = [x for x in pr.body if not (isinstance(x, ast.Expr) and isinstance(x.value, ast.Constant))]
    raises = [x for x in stm if isinstance(x, ast.If) and any(isinstance(y, ast.Raise) for y in x.body)]
    first_work = next((i for i, x in enumerate(stm) if not (isinstance(x, ast.If) and any(isinstance(y, ast.Raise) for y in x.body))), 0)
    sing_pr = single_assignments(pr)
    # (the guards may read the sizes through a local; a local binding of an attribute is not work)
    def is_guard_or_binding(x):
        return (isinstance(x, ast.If) and any(isinstance(y, ast.Raise) for y in x.body)) or \
            (isinstance(x, ast.Assign) and len(x.targets) == 1 and isinstance(x.targets[0], ast.Name) and isinstance(x.value, (ast.Attribute, ast.Name)))
    first_work = next((i_ for i_, x in enumerate(stm) if not is_guard_or_binding(x)), 0)
    def upward_cmp(t):
        # some requested size exceeds the current one: ns > sample_sizes element-wise (either side may be wrapped in asarray; one is an array)
        for c in ast.walk(inline(t, sing_pr)):
            if isinstance(c, ast.Compare) and len(c.ops) == 1 and isinstance(c.ops[0], (ast.Gt, ast.Lt)):
                a, b = (c.left, c.comparators[0]) if isinstance(c.ops[0], ast.Gt) else (c.comparators[0], c.left)
                ta, tb = ast.unparse(a).replace('np.', 'numpy.'), ast.unparse(b).replace('np.', 'numpy.')
                if ta in ('numpy.asarray(ns)', 'numpy.array(ns)', 'ns') and tb in ('numpy.asarray(self.sample_sizes)', 'numpy.array(self.sample_sizes)', 'self.sample_sizes'):
                    return True
        return False
    oku = any(upward_cmp(x.test) for x in raises) and all(stm.index(x) < first_work for x in raises)
    rep.ob('R-DOM', 'project upward', oku, 'dimension and upward-projection checks precede all work', sm.rel, pr.lineno, what='projecting upward is refused')
    # what project() does for folded and unfolded spectra of 1..3 populations, whichever axes need projecting: abstract execution
    from sa import miniexec as mx
    from sa import alpha as _alpha
    known_ = _alpha.load_table().get('__params__', {}).get(sm.rel)
    known_ = set(known_) if known_ is not None else None
    bad_fold, bad_axes, bad_lab = [], [], []
    n_paths = 0
    for D in (1, 2, 3):
        for folded in (False, True):
            it = mx.Interp(prog, sm, known_functions=known_)
            selfv = mx.Sym('self', truth=True, attrs={'Npop': D, 'ndim': D, 'folded': folded, 'sample_sizes': mx.Sym('self.sample_sizes', length=D)})
            try:
                paths = it.run(pr, {'self': selfv, 'ns': mx.Sym('ns', length=D)})
            except mx.Undecidable as e:
                raise AnalysisError('Spectrum.project is not recognised: %s' % e)
            tagp = '%d populations, %s' % (D, 'folded' if folded else 'unfolded')
            for outcome, events, dec in paths:
                if outcome[0] != 'return':
                    continue
                n_paths += 1
                v = outcome[1]
                base = mx.method_call(v, 'fold')
                if (base is not None) != folded:
                    bad_fold.append('%s: result %s' % (tagp, 'folded again' if base is not None else 'not folded again'))
                if base is not None:
                    v = base
                labelled = v
                ks = []
                while mx.method_call(v, '_project_one_axis') is not None:
                    args_ = v.struct[2]
                    kw_ = v.struct[3]
                    n_arg = args_[0] if args_ else kw_.get('n')
                    a_arg = args_[1] if len(args_) > 1 else kw_.get('axis')
                    if not isinstance(a_arg, int) or mx.show(n_arg) != 'ns[%d]' % a_arg:
                        bad_axes.append('%s: _project_one_axis(%s, %s)' % (tagp, mx.show(n_arg), mx.show(a_arg)))
                    ks.append(a_arg)
                    v = mx.method_call(v, '_project_one_axis')
                ks.reverse()
                if ks != sorted(set(k_ for k_ in ks if isinstance(k_, int))) or (all(dec) and len(dec) == D and ks != list(range(D))):
                    bad_axes.append('%s: axes projected %s' % (tagp, ks))
                start = mx.show(v)
                if start != ('self.unfold()' if folded else 'self.copy()'):
                    bad_fold.append('%s: projection starts from %s' % (tagp, start[:40]))
                sets = {e[2]: mx.show(e[3]) for e in events if e[0] == 'setattr' and e[1] == mx.show(labelled)}
                if sets.get('pop_ids') != 'self.pop_ids' or sets.get('extrap_x') != 'self.extrap_x':
                    bad_lab.append('%s: %s' % (tagp, sets))
    rep.ob('R-TPL', 'project fold typestate', not bad_fold and n_paths >= 6, '; '.join(sorted(set(bad_fold))[:3]) if bad_fold else 'folded input: unfold -> project -> fold; unfolded input: copy -> project (%d paths executed abstractly)' % n_paths,
           sm.rel, pr.lineno, what='folded spectra project as fold(project(unfold))')
    rep.ob('R-IDX', 'project axes', not bad_axes, '; '.join(sorted(set(bad_axes))[:3]) if bad_axes else 'each requested size is applied to its own axis', sm.rel, pr.lineno,
           what='axes are projected independently, size k on axis k')
    rep.ob('R-FLOW', 'project labels', not bad_lab, '; '.join(sorted(set(bad_lab))[:2]) if bad_lab else 'pop_ids and extrap_x carried over', sm.rel, pr.lineno, what='labels and extrap_x survive projection')
    # ---- (4) other call sites --------------------------------------------------------------------------------------------
    fcd = prog.func(SM, 'Spectrum._from_count_dict')
    cs = [c for c in own_nodes(fcd) if isinstance(c, ast.Call) and dotted(c.func) == '_cached_projection']
    # the arguments each population's call receives, by abstract execution of the function for 1..3 populations (shared with C13)
    from rules import c13
    bad = []
    for (P, polarized), paths in sorted(c13.count_dict_summary(prog).items()):
        for pth in paths:
            if pth.get('error'):
                bad.append(pth['error'])
            elif not pth['skipped']:
                cl, dv = pth['names'][:2]
                for i in range(P):
                    f = pth['factors'].get(i)
                    if f is None or f['args'] != ['projections[%d]' % i, '%s[%d]' % (cl, i), '%s[%d]' % (dv, i)]:
                        bad.append('population %d of %d: _cached_projection(%s)' % (i, P, ', '.join(f['args']) if f else 'not called'))
    okc = not bad and len(cs) >= 1
    rep.ob('R-IDX', '_from_count_dict weights call', okc, '; '.join(sorted(set(bad))[:3]) if bad else '_cached_projection(projections[i], called[i], derived[i]) for every population i', sm.rel, cs[0].lineno if cs else fcd.lineno,
           what='_cached_projection(to, from, hits)')
    lm = prog.mod('dadi.LowPass.LowPass')
    pm = prog.func('dadi.LowPass.LowPass', 'projection_matrix')
    cs = [c for c in own_nodes(pm) if isinstance(c, ast.Call) and (dotted(c.func) or '').endswith('_cached_projection')]
    okc = len(cs) == 1 and [ast.unparse(a) for a in cs[0].args] == ['n_subsampling', 'n_sequenced', 'allele_freq']
    rep.ob('R-IDX', 'LowPass.projection_matrix weights call', okc, ast.unparse(cs[0]) if cs else 'no call', lm.rel, cs[0].lineno if cs else pm.lineno, what='_cached_projection(to, from, hits)')
    # ---- (3) R-MEMO -------------------------------------------------------------------------------------------------------------
    from sa.effects import compute_summaries
    from sa.pyxfront import ext_table
    ext, _, _ = ext_table()
    summaries, results, rounds = compute_summaries(prog, ext)
    bad = 0
    fills = 0
    for fid, an in results.items():
        for (g, node, text, direct) in an.gmut:
            if g == 'G:dadi.Numerics._projection_cache':
                if direct:
                    fills += 1
                else:
                    bad += 1
                    rep.ob('R-MEMO', '%s:%s' % (an.m.rel, an.fn._qualname), False, '%s writes into an array read from the projection cache: later projections use modified weights' % text,
                           an.m.rel, getattr(node, 'lineno', 0), what='memoised projection weights are modified')
    if not bad:
        rep.ob('R-MEMO', 'package-wide', fills >= 1, '%d memo fill(s); no function writes through an array obtained from _cached_projection (%d functions analysed)' % (fills, len(results)),
               nm.rel, cp.lineno, what='memoised projection weights are never modified')
    rep.floor('R-IDX', 9)
    rep.floor('R-ALG', 5)
