"""C16 - Demes graphs and native dadi models give the same spectrum in any units or order (DESIGN.md C16)."""
import ast, re
from fractions import Fraction
from sa import generic
from sa.algebra import Rat, Translator, AlgebraError, parse_expr
from sa.extract import single_assignments, inline, names_in, straightline
from sa.srcmodel import own_nodes, dotted, positional_params, func_params, bind_call
from sa.flow import Analysis, Engine
from sa.report import AnalysisError

EXPLANATION = (
    "Decides the index/unit/event plumbing between the demes front end and the numerical layer, for all graphs: (1) R-IDX - in "
    "the five dispatch arms of Demes._integrate_phi every keyword nu<k>, m<i><j>, gamma<k>, h<k>, frozen<k> receives element "
    "[k-1] (resp. [i-1,j-1]) of its source, every such parameter of the integrator is bound, and the arm for D populations "
    "calls the D-population integrator; the dispatch lists of _split_phi/_admix_phi place the function for destination d+1 at "
    "index d and unit proportion vectors on the diagonal; (2) units - T=(t0-t1)/(2Ne), M[to,from]=2*Ne*m(from->to), nu=N/Ne, the "
    "size functions built by _make_nu_func and the partial-epoch sizes of _sizes_at_time/DemesUtil._size_at interpolate their "
    "end points exactly (rational/exponential identities), and the export factors of Demes.output are the inverses of the "
    "import factors; (3) event log writer/reader agreement - every integrator path that changes phi appends exactly one event "
    "with start_sizes=[nu1..nuD] and mig in destination-major order (the order Demes.output decodes), every new-population "
    "constructor records Split([f..,1-sum f]), every in-place pulse phi_<D>D_admix_.._into_<K> records exactly one "
    "Pulse(sources=others ascending, dest=K, proportions in that order), phi_1D resets the log; (4) R-RET/R-DEF/R-NAME over the "
    "three demes modules; the break-point set is consumed through sorted(); population reordering uses 1-based index(...)+1. "
    "Equality of spectra and the behaviour of the demes library are not decided.")
TECHNIQUE = "index-name correspondence + unit algebra (endpoint identities) + event-log writer/reader templates + path rules"
DECLINED = ["numerical equality of spectra", "behaviour of the demes library (event extraction, in_generations, resolve)"]

DM = 'dadi.Demes.Demes'
DI = 'dadi.Demes'
DU = 'dadi.Demes.DemesUtil'
WORDS = {1: 'one_pop', 2: 'two_pops', 3: 'three_pops', 4: 'four_pops', 5: 'five_pops'}

RDEF_EXCEPTIONS = {
    ('_get_root_Ne', 'root_deme'): 'every resolved demes graph has exactly one root (a deme without predecessors); SFS validates a single root with start time inf',
    ('_sizes_at_time', 'start_size'): 'size_function is validated to be constant/exponential/linear just above; each of the three assigns start_size',
    ('_sizes_at_time', 'end_size'): 'same three-way exhaustive dispatch on the validated size_function',
    ('_shift_deme_time', 'start_time'): 'asdict() of a resolved deme lists start_time before epochs (fixed key order of demes.Deme.asdict)',
    ('_get_sliced_deme', 'start_time'): 'same key order of asdict()',
    ('_apply_event', 'dest'): "arm commented '# XXX: This should crash': demes admix/merge events always create a NEW child deme, so `child in pop_ids` "
                              'cannot hold for a resolved graph; the arm is unreachable and its crash is intended',
}
RNAME_EXCEPTIONS = {('_apply_event', 'sources'): RDEF_EXCEPTIONS[('_apply_event', 'dest')],
                    # (UnboundLocalError is a NameError: the intended crash of that arm is the same whether `dest` is a never-bound local or no name at all)
                    ('_apply_event', 'dest'): RDEF_EXCEPTIONS[('_apply_event', 'dest')]}


def _last(n):
    return (n or '').split('.')[-1]


def const_int(e):
    if isinstance(e, ast.Constant) and isinstance(e.value, int):
        return e.value
    return None


def _interp(prog, m, **kw):
    from sa import miniexec as mx
    from sa import alpha as _alpha
    known = _alpha.load_table().get('__params__', {}).get(m.rel)
    known = set(known) if known is not None else None
    return mx.Interp(prog, m, known_functions=known, enter=('_make_sorted_proportions_list',), **kw)


def _lib_calls(events, prefix):
    return [e for e in events if e[0] == 'call' and e[1].startswith(prefix)]


def integration_parameters_by_value(prog, gp):
    """_get_integration_parameters executed abstractly on a three-epoch history (root epoch of infinite length, one deme; then one deme;
    then two demes, the second frozen), Ne and the graph symbolic: what it returns for the integration times, the migration matrices
    and the frozen flags -> {'T': (ok, detail), 'M': ..., 'frozen': ...}; empty when it cannot be evaluated"""
    import math
    from sa import miniexec as mx
    from sa import alpha as _alpha
    m = prog.mod(DM)
    known_ = _alpha.load_table().get('__params__', {}).get(m.rel)
    known_ = set(known_) if known_ is not None else None

    class W(mx.Interp):
        def compare(self, op, l, r):
            res = mx.Interp.compare(self, op, l, r)
            if res is None and isinstance(op, (ast.Eq, ast.NotEq)):
                for a_, b_ in ((l, r), (r, l)):
                    if ((isinstance(b_, float) and b_ == math.inf) or (isinstance(b_, mx.Sym) and b_.text in ('math.inf', 'numpy.inf', 'np.inf', 'inf'))) and isinstance(a_, mx.Sym) and \
                            a_.text not in ('math.inf', 'numpy.inf', 'np.inf', 'inf'):
                        # a quotient by the (finite, positive) reference size is infinite exactly when its numerator is
                        is_inf = 'inf' in mx.show(a_)
                        return is_inf if isinstance(op, ast.Eq) else not is_inf
            return res
    epochs = {(200.0, 100.0): ['A'], (100.0, 0.0): ['A', 'B'], (math.inf, 200.0): ['A']}
    it = W(prog, m, known_functions=known_, symbolic_loops=False)
    try:
        paths = [p_ for p_ in it.run(gp, {'g': mx.Sym('g'), 'demes_present': dict(epochs), 'frozen_list': ['B'], 'Ne': mx.Sym('Ne')}) if p_[0][0] == 'return']
    except mx.Undecidable:
        return {}
    if len(paths) != 1 or not isinstance(paths[0][0][1], tuple) or len(paths[0][0][1]) != 4:
        return {}
    (nu_funcs, mats, times, frozen), events = paths[0][0][1], paths[0][1]
    order = sorted(epochs, reverse=True)
    out = {}
    if not all(isinstance(x, list) and len(x) == 3 for x in (nu_funcs, mats, times, frozen)):
        return {}

    def leaf(v):
        if isinstance(v, mx.Sym) and v.struct is None and v.text == 'Ne':
            return Rat.atom('Ne')
        c = mx.call_of(v, '_migration_rate_in_interval') if isinstance(v, mx.Sym) else None
        if c is not None:
            return Rat.atom('RATE[%d]' % id(v))
        return None
    # times
    badT = []
    for k, iv in enumerate(order):
        want = Rat.const(0) if iv[0] == math.inf else Rat.const(Fraction(iv[0] - iv[1]).limit_denominator(10 ** 6)) / (Rat.const(2) * Rat.atom('Ne'))
        try:
            got = mx.to_rat(times[k], leaf)
            if not got.equals(want):
                badT.append('epoch (%s, %s): T = %s' % (iv[0], iv[1], got.canon()[:40]))
        except AlgebraError:
            badT.append('epoch (%s, %s): T = %s' % (iv[0], iv[1], mx.show(times[k])[:40]))
    out['T'] = (not badT, '; '.join(badT) if badT else 'T = (t_start - t_end)/(2 Ne) for every epoch, 0 for the root epoch (3 epochs executed abstractly)')
    # frozen flags
    wantz = [[d == 'B' for d in epochs[iv]] for iv in order]
    out['frozen'] = (frozen == wantz, 'frozen flags %s' % (frozen,) if frozen != wantz else 'one flag per live deme in the order of the live demes, set for the demes of frozen_list')
    # migration matrices
    pp = positional_params(prog.func(DM, '_migration_rate_in_interval'))
    badM = []
    for k, iv in enumerate(order):
        live = epochs[iv]
        M = mats[k]
        z = mx.call_of(M, 'zeros') if isinstance(M, mx.Sym) else None
        if z is None or not z[0] or list(z[0][0]) != [len(live), len(live)]:
            badM.append('epoch %d: matrix %s' % (k, mx.show(M)[:40]))
            continue
        cells = {}
        for e in events:
            if e[0] == 'setitem' and e[4] is M:
                cells[tuple(e[2]) if isinstance(e[2], (tuple, list)) else e[2]] = e[3]
            elif e[0] == 'augitem' and e[1] is M:
                badM.append('epoch %d: accumulates into the matrix' % k)
        for jj, d_to in enumerate(live):
            for ii, d_from in enumerate(live):
                v = cells.get((jj, ii))
                if ii == jj:
                    if v is not None:
                        badM.append('epoch %d: diagonal entry set' % k)
                    continue
                if v is None:
                    badM.append('epoch %d: M[%d, %d] is never set' % (k, jj, ii))
                    continue
                fac = mx.factors(v, '*')
                calls = [f for f in fac if isinstance(f, mx.Sym) and mx.call_of(f, '_migration_rate_in_interval') is not None]
                if len(calls) != 1:
                    badM.append('epoch %d: M[%d, %d] = %s' % (k, jj, ii, mx.show(v)[:50]))
                    continue
                c = mx.call_of(calls[0], '_migration_rate_in_interval')
                b = dict(zip(pp, c[0]))
                b.update(c[1])
                try:
                    coef = mx.to_rat(v, leaf) / Rat.atom('RATE[%d]' % id(calls[0]))
                except AlgebraError:
                    coef = None
                if not (b.get('source') == d_from and b.get('dest') == d_to and mx.show(b.get('time_interval')) == mx.show(iv) and coef is not None and coef.equals(Rat.const(2) * Rat.atom('Ne'))):
                    badM.append('epoch %d: M[%d, %d] = %s x rate(source=%s, dest=%s) where row %d is %s and column %d is %s' % (
                        k, jj, ii, coef.canon() if coef is not None else '?', b.get('source'), b.get('dest'), jj, d_to, ii, d_from))
    out['M'] = (not badM, '; '.join(badM[:3]) if badM else 'M[row of dest, column of source] = 2 Ne rate(source -> dest) in the epoch, diagonal untouched')
    return out


def nu_constant_by_value(prog, mk):
    """_make_nu_func on epochs that are all constant: the list of N/Ne in the order of the demes"""
    from sa import miniexec as mx
    m = prog.mod(DM)
    it = mx.Interp(prog, m, symbolic_loops=False)
    sizes = [(mx.Sym('Na'), mx.Sym('Na'), 'constant'), (mx.Sym('Nb'), mx.Sym('Nb'), 'constant')]
    try:
        paths = [p_ for p_ in it.run(mk, {'sizes': sizes, 'T': mx.Sym('T'), 'Ne': mx.Sym('Ne')}) if p_[0][0] == 'return']
    except mx.Undecidable as e:
        return False, 'not recognised: %s' % e
    if len(paths) != 1:
        return False, 'not recognised: %d paths' % len(paths)
    v = paths[0][0][1]
    c = mx.call_of(v, 'array') if isinstance(v, mx.Sym) else None
    if c is not None and c[0]:
        v = c[0][0]
    got = [mx.show(x).replace(' ', '') for x in v] if isinstance(v, (list, tuple)) else None
    ok = got == ['(Na/Ne)', '(Nb/Ne)']
    return ok, 'constant epochs: nu = N/Ne' if ok else 'constant epochs give %s' % (got if got is not None else mx.show(v)[:60])


def check_integrate_phi(rep, prog, m):
    """what _integrate_phi hands to the integrators, for 1..5 populations (abstract execution with a concrete list of labels and
    symbolic parameter arrays): the integrator for that many populations, every indexed parameter bound to the like-indexed element"""
    from sa import miniexec as mx
    fn = prog.func(DM, '_integrate_phi')
    rel = m.rel
    rep.saw_function(rel + ':_integrate_phi')
    src = ('nu', 'T', 'M', 'gamma', 'h', 'theta', 'frozen')
    src_of = {'nu': 'nu', 'T': 'T', 'm': 'M', 'gamma': 'gamma', 'h': 'h', 'theta0': 'theta', 'frozen': 'frozen'}
    nb = 0
    arms = []
    for d in range(1, 7):
        it = _interp(prog, m)
        ids = ['deme%d' % k for k in range(d)]
        try:
            paths = it.run(fn, {'phi': mx.Sym('phi'), 'xx': mx.Sym('xx'), 'integration_params': tuple(mx.Sym(x) for x in src), 'pop_ids': ids})
        except mx.Undecidable as e:
            raise AnalysisError('_integrate_phi is not recognised: %s' % e)
        rets = [p for p in paths if p[0][0] == 'return']
        calls = [c for p in rets for c in _lib_calls(p[1], 'dadi.Integration.')]
        if d == 6:
            rep.ob('R-EXH', '_integrate_phi dispatch', arms == [1, 2, 3, 4, 5] and not calls, 'integrators called for %s populations%s' % (arms, '; and for 6' if calls else ''), rel, fn.lineno,
                   what='one arm per dimension 1..5')
            break
        if len(rets) != 1 or len(calls) != 1:
            rep.ob('R-IDX', '_integrate_phi[%dD] integrator' % d, False, '%d returning paths, %d integrator calls' % (len(rets), len(calls)), rel, fn.lineno, what='arm for %d populations calls %s' % (d, WORDS[d]))
            continue
        arms.append(d)
        ev = calls[0]
        name = _last(ev[1])
        callee = prog.func('dadi.Integration', name) if name in prog.mod('dadi.Integration').funcs else None
        okc = callee is not None and name == WORDS[d] and ev[1] == 'dadi.Integration.' + name
        rep.ob('R-IDX', '_integrate_phi[%dD] integrator' % d, okc, 'calls %s' % ev[1], rel, fn.lineno, what='arm for %d populations calls %s' % (d, WORDS[d]))
        ret = rets[0][0][1]
        okr = mx.call_of(ret, name) is not None
        rep.ob('R-RET', '_integrate_phi[%dD] result' % d, okr, 'returns %s' % mx.show(ret)[:60], rel, fn.lineno, what='the integrated density is returned')
        if callee is None:
            continue
        pp = positional_params(callee)
        b, problems = {}, []
        for k, a in enumerate(ev[2]):
            if k < len(pp):
                b[pp[k]] = a
            else:
                problems.append('too many positional arguments')
        for k, a in ev[3].items():
            if k in b:
                problems.append('%s passed twice' % k)
            elif k not in func_params(callee):
                problems.append('no parameter %s' % k)
            b[k] = a
        rep.ob('R-SIG', '_integrate_phi[%dD] call' % d, not problems, '; '.join(problems) or 'conforms to %s' % callee.name, rel, fn.lineno, what='call conforms')
        want = [p_ for p_ in pp if re.fullmatch(r'(nu|gamma|h|frozen)\d?|m\d\d', p_)]
        missing = [p_ for p_ in want if p_ not in b]
        rep.ob('R-EXH', '_integrate_phi[%dD] coverage' % d, not missing, 'unbound integrator parameters: %s' % missing if missing else '%d indexed parameters bound' % len(want),
               rel, fn.lineno, what='every size, migration, selection, dominance and frozen parameter is passed')
        for p_, val in b.items():
            mm = re.fullmatch(r'(nu|gamma|h|frozen)(\d?)', p_)
            m2 = re.fullmatch(r'm(\d)(\d)', p_)
            exp = None
            if mm:
                k = int(mm.group(2)) if mm.group(2) else 1
                exp = '%s[%d]' % (src_of[mm.group(1)], k - 1)
            elif m2:
                exp = '%s[%d, %d]' % (src_of['m'], int(m2.group(1)) - 1, int(m2.group(2)) - 1)
            elif p_ == 'theta0':
                exp = src_of['theta0']
            elif p_ == 'T':
                exp = src_of['T']
            elif p_ == 'deme_ids':
                exp = mx.show(ids)
            elif p_ in ('phi', 'xx'):
                exp = p_
            elif p_ == 'initial_t':
                exp = '0'
            if exp is None:
                continue
            got = mx.show(val)
            nb += 1
            rep.ob('R-IDX', '_integrate_phi[%dD] %s' % (d, p_), got == exp, '%s=%s (expected %s)' % (p_, got, exp), rel, fn.lineno, what='keyword %s receives the like-indexed element' % p_)
    if nb < 100 and all(o.ok for o in rep.obls):
        raise AnalysisError('only %d keyword bindings analysed in _integrate_phi (expected >= 100)' % nb)


def _subsets(items):
    import itertools
    for r in range(1, len(items) + 1):
        for c in itertools.combinations(items, r):
            yield list(c)
            if r > 1:
                yield list(reversed(c))


def check_dispatch_lists(rep, prog, m):
    """which PhiManip routine the event handlers call, with which proportions, for every number of populations, every destination /
    parent and every set of sources (abstract execution with concrete labels and symbolic proportions)"""
    from sa import miniexec as mx
    rel = m.rel
    n_runs = 0
    # ---- in-place pulses ----------------------------------------------------------------------------------------------------------------
    ad = prog.func(DM, '_admix_phi')
    rep.saw_function(rel + ':_admix_phi')
    bad = {'func': [], 'props': [], 'grids': [], 'ret': []}
    for D in range(2, 6):
        ids = ['deme%d' % k for k in range(D)]
        for dest in range(D):
            others = [k for k in range(D) if k != dest]
            for srcs in _subsets(others):
                forms = [('list', [mx.Sym('f%d' % k) for k in srcs], [ids[k] for k in srcs])]
                if len(srcs) == 1:
                    forms.append(('scalar', mx.Sym('f%d' % srcs[0], attrs={'__pytype__': 'float'}), ids[srcs[0]]))
                for form, props, sources in forms:
                    it = _interp(prog, m)
                    tag = '%dD dest %d sources %s%s' % (D, dest + 1, [k + 1 for k in srcs], ' (scalars)' if form == 'scalar' else '')
                    try:
                        paths = it.run(ad, {'phi': mx.Sym('phi'), 'xx': mx.Sym('xx'), 'proportions': props, 'pop_ids': list(ids), 'sources': sources, 'dest': ids[dest]})
                    except mx.Undecidable as e:
                        raise AnalysisError('_admix_phi is not recognised: %s' % e)
                    n_runs += 1
                    rets = [p for p in paths if p[0][0] == 'return']
                    calls = [c for p in rets for c in _lib_calls(p[1], 'dadi.PhiManip.')]
                    if len(rets) != 1 or len(calls) != 1:
                        bad['func'].append('%s: %d returning paths, %d pulse calls' % (tag, len(rets), len(calls)))
                        continue
                    if mx.show(rets[0][0][1]) != 'phi':
                        bad['ret'].append('%s: returns %s' % (tag, mx.show(rets[0][0][1])[:40]))
                    ev = calls[0]
                    nm = _last(ev[1])
                    mi, md = re.search(r'into_(\d)$', nm), re.match(r'phi_(\d)D_admix', nm)
                    if not (mi and md and int(mi.group(1)) == dest + 1 and int(md.group(1)) == D and nm in prog.mod('dadi.PhiManip').funcs):
                        bad['func'].append('%s: calls %s' % (tag, nm))
                    args = [mx.show(a) for a in ev[2]]
                    want = ['f%d' % k if k in srcs else '0' for k in others]
                    if D == 2:
                        want = ['f%d' % srcs[0]]
                    if args[:1] != ['phi'] or args[1:D] != want or ev[3]:
                        bad['props'].append('%s: %s(%s), expected proportions %s' % (tag, nm, ', '.join(args[:D]), want))
                    if args[D:] != ['xx'] * D:
                        bad['grids'].append('%s: grids %s' % (tag, args[D:]))
    # _admix_phi keeps the array it was given and drops what the pulse returns: every pulse routine it can call must then update
    # that array in place (and return it)
    badip = []
    if not bad['ret']:
        pmm = prog.mod('dadi.PhiManip')
        for qn, pf in sorted(pmm.funcs.items()):
            if not re.fullmatch(r'phi_(\d)D_admix_(?:.*_)?into_(\d)', qn):
                continue
            from sa import alpha as _alpha
            known = _alpha.load_table().get('__params__', {}).get(pmm.rel)
            it = mx.Interp(prog, pmm, known_functions=set(known) if known is not None else None, symbolic_loops=True)
            pp = positional_params(pf)
            try:
                paths = [p for p in it.run(pf, {p_: (mx.Sym(p_, truth=True) if re.fullmatch(r'f\d?', p_) else mx.Sym(p_)) for p_ in pp}) if p[0][0] == 'return']
            except mx.Undecidable as e:
                badip.append('%s is not recognised: %s' % (qn, e))
                continue
            for outcome, events, _d in paths:
                touched = any((e[0] == 'setitem' and mx.show(e[4]) == pp[0]) or (e[0] == 'augitem' and mx.show(e[1]) == pp[0]) for e in events)
                if mx.show(outcome[1]) != pp[0] or not touched:
                    badip.append('%s returns %s%s' % (qn, mx.show(outcome[1])[:40], '' if touched else ' and never stores into its density argument'))
    rep.ob('R-PURE', '_admix_phi in-place contract', not badip, '; '.join(sorted(set(badip))[:2]) if badip else 'the pulse routines update the density they are given and return it; _admix_phi relies on that', rel, ad.lineno,
           what='the pulse is applied to the array _admix_phi returns (the result of the call is not used, so the routine must work in place)')
    for k, lab, what in (('func', '_admix_phi pulse list', 'the pulse into population d+1 of the D-dimensional density is the routine phi_<D>D_admix_.._into_<d+1>'),
                         ('props', '_admix_phi pulse proportions', 'the proportions are those of the other populations in ascending order, 0 for a population that is not a source'),
                         ('grids', '_admix_phi pulse call', 'pulse receives phi, D-1 proportions and D grids'),
                         ('ret', '_admix_phi result', 'the density modified in place is returned')):
        rep.ob('R-IDX' if k != 'grids' else 'R-SIG', lab, not bad[k], '; '.join(bad[k][:2]) if bad[k] else '2..5 populations, every destination, every ordered set of sources (%d runs)' % n_runs, rel, ad.lineno, what=what)
    # ---- splits -----------------------------------------------------------------------------------------------------------------------
    sp = prog.func(DM, '_split_phi')
    rep.saw_function(rel + ':_split_phi')
    bads = []
    for D in range(1, 5):
        ids = ['deme%d' % k for k in range(D)]
        for parent in range(D):
            it = _interp(prog, m)
            tag = '%dD parent %d' % (D, parent + 1)
            try:
                paths = it.run(sp, {'phi': mx.Sym('phi'), 'xx': mx.Sym('xx'), 'pop_ids': list(ids), 'parent': ids[parent], 'new_pop_ids': mx.Sym('new_pop_ids')})
            except mx.Undecidable as e:
                raise AnalysisError('_split_phi is not recognised: %s' % e)
            rets = [p for p in paths if p[0][0] == 'return']
            calls = [c for p in rets for c in _lib_calls(p[1], 'dadi.PhiManip.')]
            if len(rets) != 1 or len(calls) != 1:
                bads.append('%s: %d returning paths, %d calls' % (tag, len(rets), len(calls)))
                continue
            ev = calls[0]
            nm = _last(ev[1])
            args = [mx.show(a) for a in ev[2]]
            kw = {k: mx.show(v) for k, v in ev[3].items()}
            if D == 1:
                ok = nm == 'phi_1D_to_2D' and args == ['xx', 'phi']
            elif D == 2:
                ok = nm == 'phi_2D_to_3D_split_%d' % (parent + 1) and args == ['xx', 'phi']
            else:
                unit = ['1' if k == parent else '0' for k in range(D)]
                ok = nm == 'phi_%dD_to_%dD' % (D, D + 1) and args == ['phi'] + unit[:D - 1] + ['xx'] * (D + 1)
            ok = ok and kw == {'deme_ids': 'new_pop_ids'} and mx.call_of(rets[0][0][1], nm) is not None and nm in prog.mod('dadi.PhiManip').funcs
            if not ok:
                bads.append('%s: %s(%s)' % (tag, nm, ', '.join(args + ['%s=%s' % x for x in kw.items()])))
    rep.ob('R-IDX', '_split_phi function list', not bads, '; '.join(bads[:2]) if bads else '1..4 populations, every parent: the split routine of that parent / the unit proportion vector of that parent', rel, sp.lineno,
           what='the child is split off population d+1: routine split_<d+1> for two populations, unit vector of the parent (first D-1 entries) for three and four')
    # ---- new populations by admixture -----------------------------------------------------------------------------------------------------
    an = prog.func(DM, '_admix_new_pop_phi')
    rep.saw_function(rel + ':_admix_new_pop_phi')
    badn = []
    for D in range(2, 5):
        ids = ['deme%d' % k for k in range(D)]
        for pars in _subsets(list(range(D))):
            it = _interp(prog, m)
            tag = '%dD parents %s' % (D, [k + 1 for k in pars])
            try:
                paths = it.run(an, {'phi': mx.Sym('phi'), 'xx': mx.Sym('xx'), 'proportions': [mx.Sym('f%d' % k) for k in pars], 'pop_ids': list(ids), 'parents': [ids[k] for k in pars],
                                    'new_pop_ids': mx.Sym('new_pop_ids')})
            except mx.Undecidable as e:
                raise AnalysisError('_admix_new_pop_phi is not recognised: %s' % e)
            rets = [p for p in paths if p[0][0] == 'return']
            calls = [c for p in rets for c in _lib_calls(p[1], 'dadi.PhiManip.')]
            if len(rets) != 1 or len(calls) != 1:
                badn.append('%s: %d returning paths, %d calls' % (tag, len(rets), len(calls)))
                continue
            ev = calls[0]
            nm = _last(ev[1])
            args = [mx.show(a) for a in ev[2]]
            kw = {k: mx.show(v) for k, v in ev[3].items()}
            want = ['f%d' % k if k in pars else '0' for k in range(D - 1)]
            ok = nm == ('phi_2D_to_3D_admix' if D == 2 else 'phi_%dD_to_%dD' % (D, D + 1)) and args == ['phi'] + want + ['xx'] * (D + 1) and kw == {'deme_ids': 'new_pop_ids'} and \
                mx.call_of(rets[0][0][1], nm) is not None and nm in prog.mod('dadi.PhiManip').funcs
            if not ok:
                badn.append('%s: %s(%s)' % (tag, nm, ', '.join(args + ['%s=%s' % x for x in kw.items()])))
    rep.ob('R-IDX', '_admix_new_pop_phi -> constructors', not badn, '; '.join(badn[:2]) if badn else '2..4 populations, every ordered set of parents: first D-1 proportions in population order, D+1 grids, new labels',
           rel, an.lineno, what='the new population draws proportion f_k from population k (0 from a population that is not a parent); the last proportion is implied')


def check_root_equilibrium(rep, prog, m):
    """the ancestral deme starts at equilibrium at ITS size relative to the reference size: with an explicit Ne (or any
    reference other than the root size) nu = N_root/Ne is not 1, and phi_1D's default nu=1 would be a different population"""
    fn = prog.func(DM, '_compute_sfs')
    calls = [c for c in own_nodes(fn) if isinstance(c, ast.Call) and (dotted(c.func) or '').endswith('PhiManip.phi_1D')]
    ok = False
    det = 'no call of PhiManip.phi_1D in _compute_sfs'
    if len(calls) == 1:
        callee = prog.func('dadi.PhiManip', 'phi_1D')
        b, problems = bind_call(callee, calls[0])
        nu = b.get('nu')
        det = 'call %s' % ast.unparse(calls[0])[:120]
        if nu is None:
            det += ' omits nu (default 1.0)'
        else:
            sing = single_assignments(fn)
            deps = names_in(inline(nu, sing))
            # through conditional re-bindings (if callable(x): x = x(0)) the name may not be a single assignment: follow plain assignments
            for n in own_nodes(fn):
                if isinstance(n, ast.Assign) and isinstance(n.targets[0], ast.Name) and n.targets[0].id in deps:
                    deps |= names_in(n.value)
            ok = 'nu_funcs' in deps and b.get('theta0') is not None and ast.unparse(b['theta0']) == 'theta' and not problems
            det += '; nu depends on %s' % sorted(deps & {'nu_funcs', 'Ne', 'theta'})
    rep.ob('R-ARGS', '_compute_sfs root equilibrium', ok, det, m.rel, calls[0].lineno if calls else fn.lineno,
           what='the initial density is phi_1D(nu = size of the root deme relative to the reference size, theta0 = theta)')

    # the first entry of nu_funcs is the root deme's relative size: sizes / Ne in _make_nu_func
    mk = prog.func(DM, '_make_nu_func')
    t = ast.unparse(mk)
    okm = 'nu_func = [s[0] / Ne for s in sizes]' in t
    detm = 'constant epochs: nu = N/Ne'
    if not okm:
        okm, detm = nu_constant_by_value(prog, mk)
    rep.ob('R-ALG', '_make_nu_func constant sizes', okm, detm, m.rel, mk.lineno, what='relative sizes are N/Ne')


def check_units(rep, prog, m):
    rel = m.rel
    gp = prog.func(DM, '_get_integration_parameters')
    rep.saw_function(rel + ':_get_integration_parameters')
    T = [n for n in own_nodes(gp) if isinstance(n, ast.Assign) and ast.unparse(n.targets[0]) == 'T' and isinstance(n.value, ast.BinOp)]
    ok = False
    if T:
        try:
            ok = parse_expr(ast.unparse(T[0].value).replace('interval[0]', 't0').replace('interval[1]', 't1')).equals(parse_expr('(t0 - t1)/(2*Ne)'))
        except AlgebraError:
            ok = False
    BYV = {}
    if not ok:
        BYV.update(integration_parameters_by_value(prog, gp))
        if 'T' in BYV:
            ok = BYV['T'][0]
    rep.ob('R-ALG', '_get_integration_parameters T', ok, BYV['T'][1] if 'T' in BYV else (ast.unparse(T[0]) if T else 'no assignment to T'), rel, T[0].lineno if T else gp.lineno, what='T = (t_start - t_end)/(2 Ne)')
    mig = [n for n in own_nodes(gp) if isinstance(n, ast.Assign) and isinstance(n.targets[0], ast.Subscript) and ast.unparse(n.targets[0].value) == 'mig_mat']
    ok = False
    det = 'no store into mig_mat'
    if mig:
        st = mig[0]
        idx = [ast.unparse(e) for e in st.targets[0].slice.elts] if isinstance(st.targets[0].slice, ast.Tuple) else []
        # find loop variables: ii enumerates d_from, jj enumerates d_to
        loops = {}
        par = st
        while par is not None:
            par = getattr(par, '_parent', None)
            if isinstance(par, ast.For) and isinstance(par.target, ast.Tuple) and isinstance(par.iter, ast.Call) and dotted(par.iter.func) == 'enumerate':
                loops[par.target.elts[1].id] = par.target.elts[0].id
        sing = single_assignments(gp)
        mcall = None
        for n in own_nodes(gp):
            if isinstance(n, ast.Assign) and ast.unparse(n.targets[0]) == 'm' and isinstance(n.value, ast.Call):
                mcall = n.value
        okf = False
        if mcall is not None:
            callee = prog.resolve_call(m, mcall, scope=gp)
            if callee is not None:
                b, _ = bind_call(callee, mcall)
                src, dst = ast.unparse(b.get('source')), ast.unparse(b.get('dest'))
                okf = idx == [loops.get(dst), loops.get(src)]
                det = 'mig_mat[%s] = %s with m = rate(source=%s, dest=%s); loop indices %s' % (', '.join(idx), ast.unparse(st.value), src, dst, loops)
        try:
            okv = parse_expr(ast.unparse(st.value)).equals(parse_expr('2*Ne*m'))
        except AlgebraError:
            okv = False
        ok = okf and okv
    if not ok:
        if not BYV:
            BYV.update(integration_parameters_by_value(prog, gp))
        if 'M' in BYV:
            ok, det = BYV['M']
    rep.ob('R-ALG', '_get_integration_parameters M', ok, det, rel, mig[0].lineno if mig else gp.lineno, what='M[dest, source] = 2 Ne m(source -> dest)')
    # reader side in _integrate_phi: m<i><j> = M[i-1, j-1] (checked by R-IDX) means rate into i from j: dest-major -> consistent
    fr = [n for n in own_nodes(gp) if isinstance(n, ast.Assign) and ast.unparse(n.targets[0]) == 'freeze']
    okz = bool(fr) and ast.unparse(fr[0].value) == '[d in frozen_list for d in live_demes]'
    detz = ast.unparse(fr[0]) if fr else ''
    if not okz:
        if not BYV:
            BYV.update(integration_parameters_by_value(prog, gp))
        if 'frozen' in BYV:
            okz, detz = BYV['frozen']
    rep.ob('R-IDX', '_get_integration_parameters frozen', okz, detz, rel, fr[0].lineno if fr else gp.lineno, what='frozen flags follow the order of live demes')
    # _make_nu_func
    mk = prog.func(DM, '_make_nu_func')
    rep.saw_function(rel + ':_make_nu_func')
    consts = [n for n in own_nodes(mk) if isinstance(n, ast.ListComp) and 'Ne' in ast.unparse(n)]
    okc = bool(consts) and ast.unparse(consts[0].elt) == 's[0] / Ne'
    rep.ob('R-ALG', '_make_nu_func constant', okc, ast.unparse(consts[0]) if consts else '', rel, mk.lineno, what='constant sizes are N/Ne')
    nl = 0
    for lam in [n for n in ast.walk(mk) if isinstance(n, ast.Lambda)]:
        # which arm?
        par = lam
        arm = None
        while par is not None:
            par = getattr(par, '_parent', None)
            if isinstance(par, ast.If) and isinstance(par.test, ast.Compare) and isinstance(par.test.comparators[0], ast.Constant):
                arm = par.test.comparators[0].value
                break
        defaults = {a.arg: ast.unparse(dv) for a, dv in zip(lam.args.args[-len(lam.args.defaults):], lam.args.defaults)} if lam.args.defaults else {}
        try:
            body = Translator().tr(lam.body)
        except AlgebraError as e:
            raise AnalysisError('cannot normalise size function %s: %s' % (ast.unparse(lam), e))
        tname = lam.args.args[0].arg
        nl += 1
        at0 = body.subs({tname: Rat.const(0)})
        okd = defaults.get('N0') == 's[0]' and (arm == 'constant' or defaults.get('NF') == 's[1]')
        rep.ob('R-IDX', '_make_nu_func[%s] defaults' % arm, okd, 'lambda defaults %s' % defaults, rel, lam.lineno, what='N0, NF bound to the start and end sizes')
        if arm != 'exponential':   # the exponential arm is compared structurally below (power atom)
            ok0 = at0.equals(parse_expr('N0/Ne'))
            rep.ob('R-ALG', '_make_nu_func[%s] nu(0)' % arm, ok0, 'nu(0) = %s' % at0.canon(), rel, lam.lineno, what='size function starts at N0/Ne')
        if arm == 'exponential':
            # (N0/Ne)*(NF/N0)**(t/T): exponent atom; check exponent is t/T and base NF/N0
            pw = [n for n in ast.walk(lam.body) if isinstance(n, ast.BinOp) and isinstance(n.op, ast.Pow)]
            okT = len(pw) == 1 and parse_expr(ast.unparse(pw[0].right)).equals(parse_expr('t/T')) and parse_expr(ast.unparse(pw[0].left)).equals(parse_expr('NF/N0'))
            pre = lam.body.left if isinstance(lam.body, ast.BinOp) and isinstance(lam.body.op, ast.Mult) else None
            okT = okT and pre is not None and parse_expr(ast.unparse(pre)).equals(parse_expr('N0/Ne'))
            rep.ob('R-ALG', '_make_nu_func[exponential] nu(T)', bool(okT), ast.unparse(lam.body), rel, lam.lineno, what='nu(t) = N0/Ne * (NF/N0)^(t/T): ends at NF/Ne')
        elif arm == 'linear':
            atT = body.subs({tname: Rat.atom('T')})
            rep.ob('R-ALG', '_make_nu_func[linear] nu(T)', atT.equals(parse_expr('NF/Ne')), 'nu(T) = %s' % atT.canon(), rel, lam.lineno, what='size function ends at NF/Ne')
    if nl != 3:
        raise AnalysisError('expected 3 size-function lambdas in _make_nu_func, found %d' % nl)
    rs = [n for n in own_nodes(mk) if isinstance(n, ast.Raise)]
    rep.ob('R-EXH', '_make_nu_func dispatch', bool(rs), 'unknown size functions raise', rel, mk.lineno, what='constant/linear/exponential, anything else raises')

    # _sizes_at_time partial-epoch interpolation
    sz = prog.func(DM, '_sizes_at_time')
    rep.saw_function(rel + ':_sizes_at_time')
    for var, tnode in (('start_size', 'time_interval[0]'), ('end_size', 'time_interval[1]')):
        for n in own_nodes(sz):
            if isinstance(n, ast.Assign) and ast.unparse(n.targets[0]) == var and isinstance(n.value, ast.BinOp):
                # which arm (exponential / linear) -- the enclosing test
                par = n
                arm = None
                while par is not None:
                    par = getattr(par, '_parent', None)
                    if isinstance(par, ast.If) and 'size_function ==' in ast.unparse(par.test):
                        arm = par.test.comparators[0].value
                        break
                sing = single_assignments(sz)
                expr = inline(n.value, {k: v for k, v in sing.items() if k == 'frac'})
                # if frac is assigned in both linear arms it is not single: inline the sibling statement
                if 'frac' in names_in(expr):
                    blk = getattr(n, '_parent', None)
                    sib = [x for x in (blk.body if hasattr(blk, 'body') else []) if isinstance(x, ast.Assign) and ast.unparse(x.targets[0]) == 'frac' and x.lineno < n.lineno]
                    if not sib and blk is not None:
                        sib = [x for x in getattr(blk, 'orelse', []) if isinstance(x, ast.Assign) and ast.unparse(x.targets[0]) == 'frac' and x.lineno < n.lineno]
                    if sib:
                        expr = inline(n.value, {'frac': sib[-1].value})
                txt = ast.unparse(expr)
                for a, bname in (('epoch.start_size', 'S0'), ('epoch.end_size', 'S1'), ('epoch.start_time', 't0'), ('epoch.end_time', 't1'), ('epoch.time_span', '(t0 - t1)'),
                                 (tnode, 'tq'), ('np.exp', 'numpy.exp'), ('np.log', 'numpy.log')):
                    txt = txt.replace(a, bname)
                try:
                    r = parse_expr(txt)
                    if arm == 'exponential':
                        # S0*exp(log(S1/S0)*(t0-tq)/(t0-t1)): exponent must be the normalised elapsed fraction times log(S1/S0)
                        ex = [c for c in ast.walk(ast.parse(txt, mode='eval')) if isinstance(c, ast.Call) and _last(dotted(c.func)) == 'exp']
                        okx = len(ex) == 1 and parse_expr(ast.unparse(ex[0].args[0])).equals(parse_expr('numpy.log(S1/S0)*(t0 - tq)/(t0 - t1)'))
                        pre = ast.parse(txt, mode='eval').body
                        okx = okx and isinstance(pre, ast.BinOp) and isinstance(pre.op, ast.Mult) and ast.unparse(pre.left) == 'S0'
                        rep.ob('R-ALG', '_sizes_at_time[exponential] %s' % var, bool(okx), txt[:110], rel, n.lineno,
                               what='%s = S0*exp(log(S1/S0)*(t0-t)/(t0-t1)): equals S0 at t0 and S1 at t1' % var)
                    else:
                        a0 = r.subs({'tq': Rat.atom('t0')}).equals(parse_expr('S0'))
                        a1 = r.subs({'tq': Rat.atom('t1')}).equals(parse_expr('S1'))
                        rep.ob('R-ALG', '_sizes_at_time[linear] %s' % var, a0 and a1, '%s ; at t0 -> S0: %s, at t1 -> S1: %s' % (txt[:80], a0, a1), rel, n.lineno,
                               what='%s interpolates linearly between the epoch end points' % var)
                except AlgebraError as e:
                    raise AnalysisError('cannot normalise %s in _sizes_at_time: %s' % (var, e))
    rep.floor('R-ALG', 11)


def check_size_at(rep, prog):
    m = prog.mod(DU)
    fn = prog.func(DU, '_size_at')
    rep.saw_function(m.rel + ':_size_at')
    generic.rule_ret(rep, m, fn)
    arms = {}
    # an elif chain, or a sequence of `if size_function == ...: return ...` statements (each arm returns, so both forms are the same)
    for first in [n for n in fn.body if isinstance(n, ast.If)]:
        node = first
        while node is not None:
            t = node.test
            if isinstance(t, ast.Compare) and ast.unparse(t.left) == 'size_function' and isinstance(t.comparators[0], ast.Constant):
                arms.setdefault(t.comparators[0].value, node.body)
            node = node.orelse[0] if (len(node.orelse) == 1 and isinstance(node.orelse[0], ast.If)) else None
    for need in ('constant', 'exponential', 'linear'):
        rep.ob('R-EXH', 'DemesUtil._size_at dispatch', need in arms, 'arms: %s' % sorted(arms), m.rel, fn.lineno, what='size function %r is handled' % need)
    # end-point identities of each arm
    for arm, body in arms.items():
        rets = [x for x in body if isinstance(x, ast.Return)]
        if not rets:
            continue
        sing = {}
        for x in body:
            if isinstance(x, ast.Assign) and isinstance(x.targets[0], ast.Name):
                sing[x.targets[0].id] = x.value
        val = rets[0].value
        if isinstance(val, ast.Call) and isinstance(val.func, ast.Name) and val.func.id in sing and isinstance(sing[val.func.id], ast.Lambda):
            lam = sing[val.func.id]
            txt = ast.unparse(lam.body).replace(lam.args.args[0].arg, 'tq') if False else None
            import copy
            from sa.srcmodel import clone
            bodyc = clone(lam.body)
            for nn in ast.walk(bodyc):
                if isinstance(nn, ast.Name) and nn.id == lam.args.args[0].arg:
                    nn.id = ast.unparse(val.args[0])
            val = bodyc
        val = inline(val, sing, depth=2)
        txt = ast.unparse(val).replace('math.exp', 'numpy.exp').replace('math.log', 'numpy.log')
        if arm == 'exponential':
            tree = ast.parse(txt, mode='eval').body
            ex = [c for c in ast.walk(tree) if isinstance(c, ast.Call) and _last(dotted(c.func)) == 'exp']
            try:
                okx = len(ex) == 1 and parse_expr(ast.unparse(ex[0].args[0])).equals(parse_expr('numpy.log(end_size/start_size)*(start_time - t)/(start_time - end_time)'))
            except AlgebraError:
                okx = False
            okx = okx and isinstance(tree, ast.BinOp) and isinstance(tree.op, ast.Mult) and ast.unparse(tree.left) == 'start_size'
            rep.ob('R-ALG', 'DemesUtil._size_at[exponential]', bool(okx), txt[:120], m.rel, rets[0].lineno, what='size(t) = S0*exp(log(S1/S0)*(t0-t)/(t0-t1))')
        elif arm == 'linear':
            try:
                r = parse_expr(txt)
                a0 = r.subs({'t': Rat.atom('start_time')}).equals(parse_expr('start_size'))
                a1 = r.subs({'t': Rat.atom('end_time')}).equals(parse_expr('end_size'))
            except AlgebraError:
                a0 = a1 = False
            rep.ob('R-ALG', 'DemesUtil._size_at[linear]', a0 and a1, txt[:120], m.rel, rets[0].lineno, what='linear interpolation between the epoch end points')
        elif arm == 'constant':
            rep.ob('R-ALG', 'DemesUtil._size_at[constant]', txt == 'start_size', txt, m.rel, rets[0].lineno, what='constant size')
    # call sites pass (t, start_size, end_size, start_time, end_time, size_function)
    for q in ('_shift_deme_time', '_get_sliced_deme'):
        f = prog.func(DU, q)
        for c in own_nodes(f):
            if isinstance(c, ast.Call) and dotted(c.func) == '_size_at':
                b, problems = bind_call(fn, c)
                exp = {'t': 't', 'start_size': "e['start_size']", 'end_size': "e['end_size']", 'start_time': 'start_time', 'end_time': "e['end_time']", 'size_function': "e['size_function']"}
                ok = not problems and all(ast.unparse(b[k]) == v for k, v in exp.items() if k in b) and len(b) == 6
                rep.ob('R-ARGS', '%s -> _size_at' % q, ok, ast.unparse(c)[:120], m.rel, c.lineno, what='epoch fields reach the like-named parameters')


class CountAnalysis(Analysis):
    """number of event-log appends on the current path: 0, 1, 2 (=2 or more); join keeps both extremes"""
    for_body_runs_at_least_once = True

    def __init__(self, world):
        self.world = world

    def join(self, a, b):
        return (min(a[0], b[0]), max(a[1], b[1]))

    def expr(self, e, s, st):
        n = 0
        for c in ast.walk(e):
            if isinstance(c, ast.Call) and dotted(c.func) in ('Demes.cache.append', 'dadi.Demes.cache.append'):
                n += 1
        return (min(2, s[0] + n), min(2, s[1] + n))

    def assign(self, target, value, s, st):
        if isinstance(target, ast.Attribute) and dotted(target) in ('Demes.cache', 'dadi.Demes.cache') and not isinstance(st, ast.AugAssign):
            return (1, 1)      # the log is reset to a one-element list
        return s

    def const_truth(self, test):
        if isinstance(test, ast.Constant):
            return bool(test.value)
        t = ast.unparse(test)
        if t in self.world:
            return self.world[t]
        if isinstance(test, ast.BoolOp) and isinstance(test.op, ast.Or) and any(ast.unparse(v) in self.world and self.world[ast.unparse(v)] for v in test.values):
            return True
        if isinstance(test, ast.UnaryOp) and isinstance(test.op, ast.Not) and ast.unparse(test.operand) in self.world:
            return not self.world[ast.unparse(test.operand)]
        return None


def mig_order(D):
    return ['m%d%d' % (i, j) for i in range(1, D + 1) for j in range(1, D + 1) if i != j]


def check_event_writers(rep, prog):
    im = prog.mod('dadi.Integration')
    pm = prog.mod('dadi.PhiManip')
    # ---- integrators: exactly one event on every path that integrates --------------------------------
    for D, name in WORDS.items():
        fn = prog.func('dadi.Integration', name)
        rep.saw_function(im.rel + ':' + name)
        an = CountAnalysis({'cuda_enabled': False, 'not cuda_enabled': True})
        exits = Engine(an).run_function(fn, (0, 0))
        for ex in exits:
            if ex.kind not in ('return', 'fall'):
                continue
            # early no-op returns: under `T - initial_t == 0` or `frozen`
            par = ex.node
            noop = False
            while par is not None:
                par = getattr(par, '_parent', None)
                if isinstance(par, ast.If) and ex.node in ast.walk(par) and any(ex.node is x or ex.node in ast.walk(x) for x in par.body):
                    tt = ast.unparse(par.test)
                    if tt in ('T - initial_t == 0', 'frozen'):
                        noop = True
            lo, hi = ex.state
            ok = (lo == hi == 0) if noop else (lo == hi == 1)
            rep.ob('R-EVENT', 'Integration.%s return@%s' % (name, 'noop' if noop else ast.unparse(ex.node.value)[:30] if ex.kind == 'return' else 'end'), ok,
                   'events appended on this path: between %d and %d (%s)' % (lo, hi, 'density unchanged: no event' if noop else 'exactly one expected'),
                   im.rel, getattr(ex.node, 'lineno', fn.lineno), what='exactly one event per integration')
        # event contents
        nus = ['nu%d' % k if D > 1 else 'nu' for k in range(1, D + 1)]
        migs = mig_order(D)
        for c in own_nodes(fn):
            if isinstance(c, ast.Call) and _last(dotted(c.func)) == 'IntegrationConst':
                kw = {k.arg: k.value for k in c.keywords}
                ok = ast.unparse(kw.get('duration')) == 'T - initial_t' and [ast.unparse(e) for e in kw['start_sizes'].elts] == nus and \
                    ([ast.unparse(e) for e in kw['mig'].elts] == migs if D > 1 else 'mig' not in kw) and ast.unparse(kw.get('deme_ids')) == 'deme_ids'
                rep.ob('R-TPL', 'Integration.%s IntegrationConst' % name, ok, ast.unparse(c)[:150], im.rel, c.lineno,
                       what='duration T-initial_t, sizes [nu1..nuD], migration rates in destination-major order')
            if isinstance(c, ast.Call) and _last(dotted(c.func)) == 'IntegrationNonConst':
                kw = {k.arg: k.value for k in c.keywords}
                ok = ast.unparse(kw.get('history')) == 'demes_hist' and ast.unparse(kw.get('deme_ids')) == 'deme_ids'
                rep.ob('R-TPL', 'Integration.%s IntegrationNonConst' % name, ok, ast.unparse(c)[:100], im.rel, c.lineno, what='history and deme ids recorded')
        hist = []
        for n in own_nodes(fn):
            if isinstance(n, ast.Assign) and ast.unparse(n.targets[0]) == 'demes_hist':
                hist.append(('init', n.value.elts[0], n))
            if isinstance(n, ast.Call) and dotted(n.func) == 'demes_hist.append':
                hist.append(('step', n.args[0], n))
        for kind, entry, node in hist:
            ok = isinstance(entry, ast.List) and len(entry.elts) == 3 and [ast.unparse(e) for e in entry.elts[1].elts] == nus and \
                [ast.unparse(e) for e in entry.elts[2].elts] == (migs if D > 1 else []) and ast.unparse(entry.elts[0]) == ('0' if kind == 'init' else 'next_t')
            rep.ob('R-TPL', 'Integration.%s history %s' % (name, kind), ok, ast.unparse(entry)[:150], im.rel, node.lineno, what='[t, [nu1..nuD], [m.. destination-major]]')
        if len(hist) != 2:
            rep.ob('R-TPL', 'Integration.%s history' % name, False, '%d history records (expected the initial entry and one per step)' % len(hist), im.rel, fn.lineno, what='history recorded')
    # ---- reader: Demes.output decodes mig destination-major ------------------------------------------------
    dm = prog.mod(DI)
    out = prog.func(DI, 'output')
    rep.saw_function(dm.rel + ':output')
    okr = False
    for n in own_nodes(out):
        if isinstance(n, ast.For) and isinstance(n.target, ast.Name) and n.target.id == 'dest' and ast.unparse(n.iter) == 'e.deme_ids':
            inner = [x for x in n.body if isinstance(x, ast.For)]
            if inner and isinstance(inner[0].target, ast.Name) and inner[0].target.id == 'source' and ast.unparse(inner[0].iter) == 'e.deme_ids':
                b = inner[0].body
                skip = isinstance(b[0], ast.If) and ast.unparse(b[0].test) in ('dest == source', 'source == dest') and isinstance(b[0].body[0], ast.Continue)
                incr = isinstance(b[-1], ast.AugAssign) and ast.unparse(b[-1].target) == 'm_ii' and ast.unparse(b[-1].value) == '1'
                dct = [d for d in ast.walk(inner[0]) if isinstance(d, ast.Dict)]
                okd = bool(dct) and {ast.literal_eval(k): ast.unparse(v) for k, v in zip(dct[0].keys, dct[0].values)}.get('source') == 'source' and \
                    {ast.literal_eval(k): ast.unparse(v) for k, v in zip(dct[0].keys, dct[0].values)}.get('dest') == 'dest' and \
                    {ast.literal_eval(k): ast.unparse(v) for k, v in zip(dct[0].keys, dct[0].values)}.get('rate') == 'e.mig[m_ii]'
                okr = skip and incr and okd
    if not okr:
        # the same walk written as an enumeration of the (dest, source) pairs in destination-major order without the diagonal
        from sa.pattern import has as _has
        t_ = ast.unparse(out)
        okr = (_has(t_, "pairs = [(dest, source) for dest in e.deme_ids for source in e.deme_ids if not dest == source]") or
               _has(t_, "pairs = [(dest, source) for dest in e.deme_ids for source in e.deme_ids if dest != source]")) and \
            _has(t_, "for m_ii, (dest, source) in enumerate(pairs):\n    if e.mig[m_ii] != 0:\n        all_migs.append({'rate': e.mig[m_ii], 'source': source, 'dest': dest, 'start_time': start_time, 'end_time': e.end_time})")
    found_decode = okr or any(isinstance(n, ast.For) and 'e.deme_ids' in ast.unparse(n.iter) and 'm_ii' in ast.unparse(n) for n in own_nodes(out))
    rep.ob('R-TPL', 'Demes.output migration decode', okr, 'for dest: for source != dest: rate = e.mig[m_ii]; m_ii += 1' + ('' if found_decode else ' (walk over the rates not found)'), dm.rel, out.lineno,
           what='reader walks mig in destination-major order (same as the writers)')
    # export factors are inverse of import factors
    txt = ast.unparse(out)
    # (the epoch being filled in is epochs[-1], or a local alias of the dictionary that was just appended)
    ep = r"(?:epochs\[-1\]|%s)" % '|'.join(sorted({n.targets[0].id for n in own_nodes(out) if isinstance(n, ast.Assign) and isinstance(n.targets[0], ast.Name) and isinstance(n.value, ast.Dict)
                                                        and any(isinstance(c, ast.Call) and ast.unparse(c) == 'epochs.append(%s)' % n.targets[0].id for c in own_nodes(out))} | {'epochs\\[-1\\]'}))
    facs = {'end_time': bool(re.search(ep + r"\['end_time'\] \*= 2 \* Nref", txt)), 'size': bool(re.search(ep + r"\['start_size'\] \*= Nref", txt)) and bool(re.search(ep + r"\['end_size'\] \*= Nref", txt)),
            'rate': "m['rate'] /= 2 * Nref" in txt, 'mig times': "m['start_time'] *= 2 * Nref" in txt and "m['end_time'] *= 2 * Nref" in txt,
            'start_time': txt.count('start_time *= 2 * Nref') == 2, 'pulse time': 'e.end_time *= 2 * Nref' in txt}
    for k, v in facs.items():
        rep.ob('R-ALG', 'Demes.output factor %s' % k, v, 'export multiplies times by 2*Nref, sizes by Nref and divides rates by 2*Nref (inverse of T=dt/(2Ne), nu=N/Ne, M=2Ne*m)',
               dm.rel, out.lineno, what='export factor for %s is the inverse of the import factor' % k)
    # ---- PhiManip writers ---------------------------------------------------------------------------------------
    p1 = prog.func('dadi.PhiManip', 'phi_1D')
    first = [x for x in p1.body if not (isinstance(x, ast.Expr) and isinstance(x.value, ast.Constant))][0]
    okp = isinstance(first, ast.Assign) and dotted(first.targets[0]) == 'Demes.cache' and isinstance(first.value, ast.List) and len(first.value.elts) == 1 and \
        _last(dotted(first.value.elts[0].func)) == 'Initiation' and ast.unparse(first.value.elts[0].args[0]) == 'nu'
    rep.ob('R-EVENT', 'PhiManip.phi_1D', okp, ast.unparse(first)[:100], pm.rel, first.lineno, what='phi_1D resets the event log to a single Initiation(nu)')
    splits = {'phi_1D_to_2D': ['1'], 'phi_2D_to_3D_admix': ['f1', '1 - f1'], 'phi_3D_to_4D': ['f1', 'f2', '1 - f1 - f2'], 'phi_4D_to_5D': ['f1', 'f2', 'f3', '1 - f1 - f2 - f3']}
    for q, props in splits.items():
        f = prog.func('dadi.PhiManip', q)
        ev = [c for c in own_nodes(f) if isinstance(c, ast.Call) and _last(dotted(c.func)) == 'Split']
        ok = len(ev) == 1
        if ok:
            kw = {k.arg: k.value for k in ev[0].keywords}
            ok = [ast.unparse(e) for e in kw['proportions'].elts] == props and ast.unparse(kw.get('deme_ids')) == 'deme_ids'
            par = getattr(ev[0], '_parent', None)
            ok = ok and isinstance(par, ast.Call) and dotted(par.func) == 'Demes.cache.append'
        rep.ob('R-EVENT', 'PhiManip.%s' % q, ok, ast.unparse(ev[0])[:120] if ev else 'no Split event recorded', pm.rel, ev[0].lineno if ev else f.lineno,
               what='records Split(proportions=[f.., 1-sum f], deme_ids)')
    npulse = 0
    for q, f in sorted(pm.funcs.items()):
        mm = re.fullmatch(r'phi_(\d)D_admix_(?:.*_)?into_(\d)', q)
        if not mm:
            continue
        npulse += 1
        D, K = int(mm.group(1)), int(mm.group(2))
        rep.saw_function(pm.rel + ':' + q)
        fparams = [p for p in positional_params(f) if re.fullmatch(r'f\d?', p)]
        sources = [j for j in range(1, D + 1) if j != K]
        ev = [c for c in own_nodes(f) if isinstance(c, ast.Call) and _last(dotted(c.func)) == 'Pulse']
        appended = [c for c in ev if isinstance(getattr(c, '_parent', None), ast.Call) and dotted(c._parent.func) == 'Demes.cache.append']
        if len(appended) != 1:
            rep.ob('R-EVENT', 'PhiManip.%s' % q, False, '%d Pulse events appended to the event log (exactly one expected): the export to demes omits this pulse' % len(appended),
                   pm.rel, f.lineno, what='records exactly one Pulse event')
            continue
        kw = {k.arg: k.value for k in appended[0].keywords}
        got_s = [const_int(e) for e in kw['sources'].elts] if isinstance(kw.get('sources'), ast.List) else None
        got_d = const_int(kw.get('dest')) if kw.get('dest') is not None else None
        got_p = [ast.unparse(e) for e in kw['proportions'].elts] if isinstance(kw.get('proportions'), ast.List) else None
        ok = got_s == sources and got_d == K and got_p == fparams and len(fparams) == D - 1
        rep.ob('R-EVENT', 'PhiManip.%s' % q, ok, 'Pulse(sources=%s, dest=%s, proportions=%s); expected sources=%s dest=%d proportions=%s' % (got_s, got_d, got_p, sources, K, fparams),
               pm.rel, appended[0].lineno, what='records Pulse(sources=others ascending, dest=K, proportions in that order)')
        # parameter names f<j> agree with the sources
        if D > 2:
            okn = [int(p[1:]) for p in fparams] == sources
            rep.ob('R-IDX', 'PhiManip.%s parameters' % q, okn, 'proportion parameters %s' % fparams, pm.rel, f.lineno, what='proportion parameters are named after the source populations')
    if npulse != 14:
        raise AnalysisError('expected 14 in-place pulse functions in PhiManip, found %d' % npulse)
    for q, cls, kwn, par in (('remove_pop', 'Remove', 'removed', 'popnum'), ('reorder_pops', 'Reorder', 'neworder', 'neworder')):
        f = prog.func('dadi.PhiManip', q)
        ev = [c for c in own_nodes(f) if isinstance(c, ast.Call) and _last(dotted(c.func)) == cls]
        ok = len(ev) == 1 and {k.arg: ast.unparse(k.value) for k in ev[0].keywords} == {kwn: par}
        rep.ob('R-EVENT', 'PhiManip.%s' % q, ok, ast.unparse(ev[0]) if ev else 'no event', pm.rel, ev[0].lineno if ev else f.lineno, what='records %s(%s=%s)' % (cls, kwn, par))
    # Pulse reader: sources/dest are 1-based indices into deme_ids
    okpr = "sources = [e.deme_ids[ii - 1] for ii in e.sources]" in txt and "dest = e.deme_ids[e.dest - 1]" in txt
    rep.ob('R-TPL', 'Demes.output pulse decode', okpr, 'sources/dest decoded as 1-based population numbers', dm.rel, out.lineno, what='reader uses the 1-based numbering the writers record')
    rep.floor('R-EVENT', 30)


def check_reorder(rep, prog, m):
    rel = m.rel
    n_found = 0
    for q in ('SFS', '_compute_sfs'):
        f = prog.func(DM, q)
        sing = {}
        for n in own_nodes(f):
            if isinstance(n, ast.Assign) and ast.unparse(n.targets[0]) == 'new_order' and isinstance(n.value, ast.ListComp):
                lc = n.value
                cur = None
                ok = isinstance(lc.elt, ast.BinOp) and isinstance(lc.elt.op, ast.Add) and ast.unparse(lc.elt.right) == '1' and \
                    isinstance(lc.elt.left, ast.Call) and _last(dotted(lc.elt.left.func)) == 'index' and \
                    ast.unparse(lc.elt.left.args[0]) == ast.unparse(lc.generators[0].target)
                cur = ast.unparse(lc.elt.left.func.value) if ok else None
                wanted = ast.unparse(lc.generators[0].iter)
                n_found += 1
                rep.ob('R-IDX', '%s new_order' % q, ok, ast.unparse(n)[:110], rel, n.lineno, what='new_order[k] = 1-based position of the k-th wanted deme in the current order (%s -> %s)' % (cur, wanted))
    # (the debug and the normal tail of SFS each had their own copy; merged tails leave one per function)
    if n_found < 2:
        raise AnalysisError('expected a new_order computation in SFS and in _compute_sfs, found %d' % n_found)
    # SFS: final reorder then from_phi with the sampled order
    f = prog.func(DM, 'SFS')
    calls = [c for c in own_nodes(f) if isinstance(c, ast.Call) and dotted(c.func) == 'dadi.Spectrum.from_phi']
    def reordered(name):
        """the name holds the density after PhiManip.reorder_pops(<density>, new_order)"""
        for a_ in own_nodes(f):
            if isinstance(a_, ast.Assign) and len(a_.targets) == 1 and isinstance(a_.targets[0], ast.Name) and a_.targets[0].id == name and isinstance(a_.value, ast.Call) and \
                    _last(dotted(a_.value.func)) == 'reorder_pops' and len(a_.value.args) == 2 and ast.unparse(a_.value.args[1]) == 'new_order':
                return True
        return False
    ok = any(isinstance(c.args[0], ast.Name) and reordered(c.args[0].id) and ast.unparse(c.args[1]) == 'sample_sizes' and any(k.arg == 'pop_ids' and ast.unparse(k.value) == 'sampled_pops' for k in c.keywords)
             for c in calls if len(c.args) >= 2)
    rep.ob('R-IDX', 'SFS from_phi', ok, 'from_phi(phi, sample_sizes, ..., pop_ids=sampled_pops) after reordering to sampled_pops', rel, f.lineno, what='axes, sample sizes and labels follow the requested deme order')
    # break points
    ge = prog.func(DM, '_get_demographic_events')
    uses = [n for n in own_nodes(ge) if isinstance(n, ast.Name) and n.id == 'break_points' and isinstance(n.ctx, ast.Load)]
    okb = True
    cnt = 0
    for u in uses:
        par = getattr(u, '_parent', None)
        if isinstance(par, ast.Attribute) and par.attr in ('add', 'update', 'discard', 'remove'):
            continue            # the set being built
        if isinstance(par, ast.Compare) and any(isinstance(o, (ast.In, ast.NotIn)) for o in par.ops) and u in par.comparators:
            continue            # membership does not depend on the order
        if isinstance(par, ast.Call) and dotted(par.func) == 'len':
            continue
        cnt += 1
        g2 = getattr(par, '_parent', None)
        fenced = (isinstance(par, ast.Call) and dotted(par.func) == 'sorted') or (isinstance(par, ast.Call) and dotted(par.func) == 'list' and isinstance(g2, ast.Call) and dotted(g2.func) == 'sorted')
        okb = okb and fenced
    rep.ob('R-ORD', '_get_demographic_events break_points', okb and cnt >= 1, '%d ordered uses of the break-point set, all through sorted()' % cnt, rel, ge.lineno, what='set of break points consumed only through sorted()')


def check_output_names(rep, prog):
    """Demes.output: propagation of deme names through Remove / Reorder / Split events (reader side of the event log)"""
    dm = prog.mod(DI)
    out = prog.func(DI, 'output')
    chain = None
    for n in own_nodes(out):
        if isinstance(n, ast.If) and ast.unparse(n.test) == 'isinstance(younger, Split)':
            chain = n
    if chain is None:
        raise AnalysisError('anchor vanished: name propagation chain in Demes.output')
    arms = {}
    node = chain
    while node is not None:
        arms[ast.unparse(node.test)] = node.body
        node = node.orelse[0] if (len(node.orelse) == 1 and isinstance(node.orelse[0], ast.If)) else None
    # ---- Reorder: new[k] = old[neworder[k]-1]  (what PhiManip.reorder_pops does to the axes) ------------------------
    body = arms.get('isinstance(younger, Reorder)')
    verdict, det = None, 'Reorder arm not found'
    if body is not None:
        det = '; '.join(ast.unparse(x) for x in body)
        if len(body) == 1 and isinstance(body[0], ast.Assign) and isinstance(body[0].value, ast.ListComp):
            lc = body[0].value
            v = ast.unparse(lc.generators[0].target)
            if ast.unparse(lc.generators[0].iter) == 'younger.neworder' and ast.unparse(lc.elt) == 'older.deme_ids[%s - 1]' % v and ast.unparse(body[0].targets[0]) == 'younger.deme_ids':
                verdict = True
        if verdict is None:
            # scatter form: for i, pos in enumerate(neworder): new[pos-1] = old[i]  is the INVERSE permutation
            for x in body:
                if isinstance(x, ast.For) and 'enumerate(younger.neworder)' in ast.unparse(x.iter) and isinstance(x.target, ast.Tuple):
                    iv, pv = [e.id for e in x.target.elts]
                    for y in x.body:
                        if isinstance(y, ast.Assign) and isinstance(y.targets[0], ast.Subscript):
                            ti, vi = ast.unparse(y.targets[0].slice), ast.unparse(y.value)
                            if ti == '%s - 1' % pv and vi == 'older.deme_ids[%s]' % iv:
                                verdict = False      # new[neworder[i]-1] = old[i]
                            elif ti == iv and vi == 'older.deme_ids[%s - 1]' % pv:
                                verdict = True       # new[i] = old[neworder[i]-1]
        if verdict is None:
            raise AnalysisError('Demes.output: the Reorder arm has a form the rule does not recognise: %s' % det[:120])
    rep.ob('R-TPL', 'Demes.output Reorder names', bool(verdict), det[:160], dm.rel, body[0].lineno if body else out.lineno,
           what='names after a reorder: new[k] = old[neworder[k]-1], the permutation PhiManip.reorder_pops applies to the axes (not its inverse)')
    rp = prog.func('dadi.PhiManip', 'reorder_pops')
    # what PhiManip.reorder_pops does to the axes, for every permutation of 2-4 populations (abstract execution + index semantics)
    import itertools
    from sa import miniexec as mx
    from sa import tis
    okax, detax = True, 'new axis k = old axis neworder[k]-1'
    try:
        pmm = prog.mod('dadi.PhiManip')
        for D_ in (2, 3, 4):
            for order in itertools.permutations(range(1, D_ + 1)):
                it_ = mx.Interp(prog, pmm)
                rets = [p_ for p_ in it_.run(rp, {'phi': mx.Sym('phi', attrs={'ndim': D_}), 'neworder': list(order)}) if p_[0][0] == 'return']
                idx_ = [mx.Sym('i%d' % k) for k in range(D_)]
                root_, pidx_ = tis.at(rets[0][0][1], idx_, lambda v: isinstance(v, mx.Sym) and v.text == 'phi' and not v.struct)
                if len(rets) != 1 or [mx.show(x) for x in pidx_] != ['i%d' % list(order).index(a + 1) for a in range(D_)]:
                    okax, detax = False, 'neworder=%s returns %s' % (list(order), mx.show(rets[0][0][1])[:50] if rets else 'nothing')
    except (mx.Undecidable, tis.Unfollowed, IndexError) as e:
        okax, detax = False, 'reorder_pops is not recognised: %s' % e
    rep.ob('R-TPL', 'PhiManip.reorder_pops axes', okax, detax, 'dadi/PhiManip.py', rp.lineno,
           what='writer side of the Reorder event')
    body = arms.get('isinstance(younger, Remove)')
    okr = body is not None and [ast.unparse(x) for x in body] == ['younger.deme_ids = list(older.deme_ids)', 'del younger.deme_ids[younger.removed - 1]', 'younger.deme_ids = tuple(younger.deme_ids)']
    rep.ob('R-TPL', 'Demes.output Remove names', okr, '; '.join(ast.unparse(x) for x in body) if body else 'not found', dm.rel, body[0].lineno if body else out.lineno,
           what='names after a removal: copy of the older names without entry removed-1 (1-based event field)')
    body = arms.get('isinstance(younger, Split)')
    def split_names(x):
        # n+1 names d<era>_1 .. d<era>_<n+1>, written with str.format or an f-string
        if not (isinstance(x, ast.Assign) and ast.unparse(x.targets[0]) == 'younger.deme_ids' and isinstance(x.value, ast.ListComp) and len(x.value.generators) == 1):
            return False
        g = x.value.generators[0]
        if not isinstance(g.target, ast.Name) or g.ifs:
            return False
        v = g.target.id
        form = (ast.unparse(x.value.elt), ast.unparse(g.iter))
        return form in (("'d{0}_{1}'.format(era, %s + 1)" % v, 'range(len(older.deme_ids) + 1)'), ("f'd{era}_{%s + 1}'" % v, 'range(len(older.deme_ids) + 1)'),
                        ("f'd{era}_{%s}'" % v, 'range(1, len(older.deme_ids) + 2)'), ("'d{0}_{1}'.format(era, %s)" % v, 'range(1, len(older.deme_ids) + 2)'))
    oks = body is not None and any(split_names(x) for x in body) and any(ast.unparse(x) == 'era += 1' for x in body)
    rep.ob('R-TPL', 'Demes.output Split names', oks, 'a split creates one more deme than before, all renamed in a new era', dm.rel, body[0].lineno if body else out.lineno, what='names after a split')
    # end times: accumulated from the present backwards
    t = ast.unparse(out)
    oke = 'cache[-1].end_time = 0' in t and 'for younger, older in zip(cache[::-1][:-1], cache[::-1][1:])' in t and ('older.end_time = younger.end_time + younger.duration' in t or 'older.end_time = younger.duration + younger.end_time' in t)
    if not oke:
        # the same recurrence with an index running from the event before the last down to the first
        from sa.pattern import has as _has2
        oke = 'cache[-1].end_time = 0' in t and (
            _has2(t, 'for ii in range(len(cache) - 2, -1, -1):\n    younger = cache[ii + 1]\n    cache[ii].end_time = younger.end_time + younger.duration') or
            _has2(t, 'for ii in range(len(cache) - 2, -1, -1):\n    cache[ii].end_time = cache[ii + 1].end_time + cache[ii + 1].duration') or
            _has2(t, 'for ii in reversed(range(len(cache) - 1)):\n    cache[ii].end_time = cache[ii + 1].end_time + cache[ii + 1].duration'))
    rep.ob('R-TPL', 'Demes.output end times', oke, 'end_time(older) = end_time(younger) + duration(younger), starting from 0 at the present', dm.rel, out.lineno, what='event end times accumulate durations backwards in time')


def check_shift_deme_time(rep, prog):
    """DemesUtil._shift_deme_time: each epoch's size at the slice time is interpolated between the UNSHIFTED start and end
    times; the next epoch starts at the unshifted end time of this one"""
    m = prog.mod(DU)
    fn = prog.func(DU, '_shift_deme_time')
    loops = [n for n in ast.walk(fn) if isinstance(n, ast.For) and isinstance(n.target, ast.Name) and n.target.id == 'e']
    if len(loops) != 1:
        raise AnalysisError('anchor vanished: epoch loop of _shift_deme_time')
    state = 'orig'     # is e['end_time'] still the unshifted value?
    size_ok = next_ok = shift_ok = None
    for st in loops[0].body:
        txt = ast.unparse(st)
        reads_end = "e['end_time']" in txt
        if isinstance(st, ast.Assign) and isinstance(st.value, ast.Call) and dotted(st.value.func) == '_size_at':
            size_ok = state == 'orig' and [ast.unparse(a) for a in st.value.args] == ['t', "e['start_size']", "e['end_size']", 'start_time', "e['end_time']", "e['size_function']"]
        elif isinstance(st, ast.Assign) and ast.unparse(st.targets[0]) == 'start_time':
            next_ok = state == 'orig' and ast.unparse(st.value) == "e['end_time']"
        elif isinstance(st, ast.Assign) and ast.unparse(st.targets[0]) == "e['end_time']":
            shift_ok = ast.unparse(st.value) == "max(0, e['end_time'] - t)" and state == 'orig'
            state = 'shifted'
        elif isinstance(st, ast.Assign) and ast.unparse(st.targets[0]) == 'e':
            # rebinding e to a shifted copy
            if 'end_time' in txt:
                shift_ok = "max(0, e['end_time'] - t)" in txt and state == 'orig'
                state = 'shifted'
    rep.ob('R-ORD', '_shift_deme_time size at slice', bool(size_ok), '_size_at receives the unshifted start and end times of the epoch', m.rel, loops[0].lineno, what='interpolation uses unshifted epoch times')
    rep.ob('R-ORD', '_shift_deme_time next start', bool(next_ok), 'start_time of the next epoch = unshifted end_time of this epoch (read before the shift)', m.rel, loops[0].lineno,
           what='next epoch starts at the unshifted end time of the previous one')
    rep.ob('R-ORD', '_shift_deme_time shift', bool(shift_ok), "end_time shifted by t and clipped at 0", m.rel, loops[0].lineno, what='epoch end times are shifted once')
    t = ast.unparse(fn)
    oke = "if e['end_time'] == 0" in t and "d_shifted[k][-1]['end_size'] = size_at_t" in t and 'break' in t and 'd_shifted[k] = v - t' in t
    rep.ob('R-TPL', '_shift_deme_time cut', oke, 'the epoch that reaches the slice time gets the interpolated end size and later epochs are dropped; start_time shifted by t', m.rel, fn.lineno, what='sliced epoch ends with the size at the slice time')


def run(rep, prog, tier):
    m = prog.mod(DM)
    rep.saw_file(m.rel)
    from sa import alpha as _alpha
    for modname in (DM, DU, DI):
        mm = prog.mod(modname)
        rep.saw_file(mm.rel)
        known_f = _alpha.load_table().get('__params__', {}).get(mm.rel)
        for q, fn in mm.funcs.items():
            exn, exd = RNAME_EXCEPTIONS, RDEF_EXCEPTIONS
            if known_f is not None and q not in known_f:
                # a helper the confirmed tree does not have may hold code moved out of an excepted function: the same reasons apply
                exn = dict(RNAME_EXCEPTIONS)
                exn.update({(q, k[1]): v for k, v in list(RNAME_EXCEPTIONS.items()) + list(RDEF_EXCEPTIONS.items())})
                exd = dict(RDEF_EXCEPTIONS)
                exd.update({(q, k[1]): v for k, v in RDEF_EXCEPTIONS.items()})
            generic.rule_name(rep, prog, mm, fn, exceptions=exn)
            generic.rule_def(rep, mm, fn, exceptions=exd)
            generic.rule_closure(rep, mm, fn)
            generic.rule_ret(rep, mm, fn)
            generic.rule_sig(rep, prog, mm, fn)
    check_integrate_phi(rep, prog, m)
    check_dispatch_lists(rep, prog, m)
    check_units(rep, prog, m)
    check_size_at(rep, prog)
    check_root_equilibrium(rep, prog, m)
    check_event_writers(rep, prog)
    check_reorder(rep, prog, m)
    check_output_names(rep, prog)
    check_shift_deme_time(rep, prog)
    rep.floor('R-IDX', 110)
