"""C01, general-h equilibrium density (PhiManip.phi_1D) decided on values.

The function is executed abstractly (sa.miniexec) in three worlds - gamma < 0 with and without the overflow shift, gamma >= 0 - with
symbolic parameters and a grid of unknown length.  `scipy.integrate.quad(f, a, b, args=...)` is summarised as an opaque number that
remembers its integrand (f applied to a symbol), its bounds and where it was evaluated.  From the returned array and the stores
made into it the content of a generic interior cell, of the first and of the last cell are computed as
        rational part * exp(exponent)
(products of exponentials add exponents, so no identity depends on how exp atoms are normalised).  The rule then compares with

    phi(x) * V(x) = theta0 * exp(Q(x)) * int_x^1 exp(-Q) / int_0^1 exp(-Q),        Q' = 2M/V, Q(0) = 0,

M and V being the integrator's own drift and variance.  How the code is cut into statements, lambdas, helper functions, loops or
comprehensions does not matter; what it computes does."""
import ast
from fractions import Fraction
from sa import miniexec as mx
from sa.algebra import Rat, AlgebraError, diff
from sa.report import AnalysisError

PARAMS = ('nu', 'theta0', 'gamma', 'h', 'beta')


class NotRecognised(Exception):
    pass


class LV:
    """rat * exp(expo)"""
    def __init__(self, rat, expo=None):
        self.rat, self.expo = rat, (expo if expo is not None else Rat.const(0))

    def __mul__(self, o):
        return LV(self.rat * o.rat, self.expo + o.expo)

    def __truediv__(self, o):
        if o.rat.is_zero():
            raise NotRecognised('division by zero')
        return LV(self.rat / o.rat, self.expo - o.expo)

    def _same(self, o):
        if self.rat.is_zero():
            return o.expo
        if o.rat.is_zero() or (self.expo - o.expo).is_zero():
            return self.expo
        raise NotRecognised('sum of terms with different exponential factors')

    def __add__(self, o):
        return LV(self.rat + o.rat, self._same(o))

    def __sub__(self, o):
        return LV(self.rat - o.rat, self._same(o))

    def power(self, k):
        r = Rat.const(1)
        for _ in range(abs(k)):
            r = r * self.rat
        return LV(r if k >= 0 else Rat.const(1) / r, self.expo * Rat.const(k))

    def plain(self):
        if not self.expo.is_zero():
            raise NotRecognised('an exponential where a plain number is needed')
        return self.rat

    def show(self):
        return '%s * exp(%s)' % (self.rat.canon()[:90], self.expo.canon()[:90])


def _clear(r):
    n, d = r.n, r.den_poly()
    low = {}
    for p in (n, d):
        for mono in p.t:
            for k, e in mono:
                if e < low.get(k, 0):
                    low[k] = e
    if low:
        from sa.algebra import Poly
        mono = Poly({tuple(sorted((k, -e) for k, e in low.items())): Fraction(1)})
        n, d = n * mono, d * mono
    return n, d


def decide_compare(op, d, sign):
    """truth of  d <op> 0  in the world `sign` ('neg': gamma < 0, 'nonneg': gamma >= 0; nu, beta > 0; h generic), None when it is not
    determined"""
    n, dn = _clear(d)
    if not n.t:
        s, strict = 0, True
    else:
        ats = {a for mo in n.t for a, _ in mo}
        if ats == {'h'} or (ats <= {'h'} and len(n.t) > 1):
            # a test on the dominance coefficient alone: h is a generic value here (the genic case h = 1/2 is another function)
            return {ast.Eq: False, ast.NotEq: True}.get(type(op))
        if len(n.t) != 1:
            return None
        (mono, c), = n.t.items()
        exps = dict(mono)
        if not set(exps) <= {'gamma', 'nu', 'beta'} or any(Fraction(e).denominator != 1 for e in exps.values()):
            return None
        if any(cf <= 0 for cf in dn.t.values()) or not {a for mo in dn.t for a, _ in mo} <= {'nu', 'beta'}:
            return None
        s = 1 if c > 0 else -1
        eg = int(exps.get('gamma', 0))
        strict = True
        if eg % 2 == 1:
            if sign == 'neg':
                s = -s
            else:
                strict = False
        elif eg > 0 and sign != 'neg':
            strict = False
    t = type(op)
    if strict:
        return {ast.Lt: s < 0, ast.LtE: s <= 0, ast.Gt: s > 0, ast.GtE: s >= 0, ast.Eq: s == 0, ast.NotEq: s != 0}.get(t)
    # s * d >= 0, possibly zero
    if s > 0:
        return {ast.Lt: False, ast.GtE: True}.get(t)
    return {ast.Gt: False, ast.LtE: True}.get(t)


class World:
    def __init__(self, prog, m, fn, sign, shifted):
        self.prog, self.m, self.fn, self.sign, self.shifted = prog, m, fn, sign, shifted
        self.quads = []

    def leafp(self, v):
        if isinstance(v, mx.Sym) and v.struct is None and v.text in PARAMS:
            return Rat.atom(v.text)
        return None

    def run(self):
        world = self

        class W(mx.Interp):
            def compare(self, op, l, r):
                res = mx.Interp.compare(self, op, l, r)
                if res is not None:
                    return res
                try:
                    d = mx.to_rat(l, world.leafp) - mx.to_rat(r, world.leafp)
                except AlgebraError:
                    return None
                return decide_compare(op, d, world.sign)

        def hook(nm, args, kwargs):
            last = nm.split('.')[-1]
            if last == 'quad' and len(args) >= 3:
                extra = kwargs.get('args', args[3] if len(args) > 3 else ())
                if not isinstance(extra, (tuple, list)):
                    extra = (extra,)
                k = len(world.quads)
                xi = mx.Sym('xi_%d' % k)
                val = it.apply(args[0], [xi] + list(extra), {})
                world.quads.append((val, args[1], args[2], xi))
                return (mx.Sym('QUAD%d' % k, struct=('quad', k)), mx.Sym('quaderr%d' % k))
            if last == 'isinf' and len(args) == 1:
                return mx.Sym('isinf(%s)' % mx.show(args[0])[:40], truth=world.shifted)
            return NotImplemented
        # helper functions that the confirmed tree does not have are stepped into (a refactoring may move the quadratures there)
        known = None
        try:
            from sa import alpha as _alpha
            known = _alpha.load_table().get('__params__', {}).get(self.m.rel)
            known = set(known) if known is not None else None
        except Exception:
            known = None
        it = W(self.prog, self.m, call_hook=hook, symbolic_loops=True, known_functions=known)
        it.array_rows = True
        args = {}
        a = self.fn.args
        names = [x.arg for x in a.posonlyargs + a.args]
        defaults = dict(zip(names[len(names) - len(a.defaults):], a.defaults))
        for n in names:
            if n == 'xx':
                args[n] = mx.Sym('xx')
            elif n in PARAMS:
                args[n] = mx.Sym(n)
            else:
                try:
                    args[n] = ast.literal_eval(defaults[n])
                except Exception:
                    args[n] = mx.Sym(n)
        return it.run(self.fn, args)


class Cells:
    """contents of the cells of the arrays of one path"""
    def __init__(self, world, events):
        self.world = world
        self.stores = {}
        self.loop_idx = set()
        for e in events:
            if e[0] == 'setitem':
                self.stores.setdefault(id(e[4]), []).append(('set', e[2], e[3], None))
            elif e[0] == 'augitem':
                self.stores.setdefault(id(e[1]), []).append(('aug', e[2], e[4], e[3]))
            elif e[0] == 'loop':
                itv = e[3]
                c = mx.call_of(itv, 'rows') if isinstance(itv, mx.Sym) else None
                r = mx.call_of(itv, 'range') if isinstance(itv, mx.Sym) else None
                if c is not None and len(c[0]) == 1 and self.is_grid(c[0][0]):
                    self.loop_idx.add(e[2])
                elif r is not None and len(r[0]) == 1 and mx.show(r[0][0]) in ('len(xx)', 'xx.shape[0]', 'xx.size'):
                    self.loop_idx.add(e[2])
        self.inst = {}          # quad number -> [(integrand exponent, a, b)]

    @staticmethod
    def is_grid(v):
        return isinstance(v, mx.Sym) and v.struct is None and v.text == 'xx'

    def covers(self, key, pos):
        """does a store with this key write the cell class pos ('interior', 'first', 'last')?  -> (bool, index symbol or None)"""
        if isinstance(key, mx.Sym) and key.struct is None and key.text in self.loop_idx:
            return True, key.text
        if isinstance(key, bool):
            raise NotRecognised('boolean store key')
        if isinstance(key, int):
            if key == 0:
                return pos == 'first', None
            if key == -1:
                return pos == 'last', None
            raise NotRecognised('store into cell %d' % key)
        if isinstance(key, slice) and key.step in (None, 1):
            a, b = key.start, key.stop
            if a in (None, 0, 1) and b in (None, -1):
                return {'first': a in (None, 0), 'last': b is None, 'interior': True}[pos], None
        raise NotRecognised('store key %s' % mx.show(key)[:30])

    def content(self, A, pos, ctx, upto=None):
        """LV of cell class pos of array object A after its first `upto` stores (all when None); None when nothing defined it"""
        sts = self.stores.get(id(A), [])
        if upto is not None:
            sts = sts[:upto]
        alloc = None
        for nm_ in ('empty', 'zeros', 'ones', 'empty_like', 'zeros_like', 'ones_like'):
            if mx.call_of(A, nm_) is not None:
                alloc = nm_
        if alloc is not None:
            cur = None if alloc.startswith('empty') else LV(Rat.const(0 if alloc.startswith('zeros') else 1))
        else:
            cur = self.elem(A, dict(ctx, skip=id(A)))
        for kind, key, val, op in sts:
            hit, idx = self.covers(key, pos)
            if not hit:
                continue
            c2 = dict(ctx)
            c2['idx'] = set(ctx.get('idx', ())) | ({idx} if idx else set())
            c2['slice'] = mx.show(key) if isinstance(key, slice) else None
            c2.pop('skip', None)
            v = self.elem(val, c2)
            if kind == 'set':
                cur = v
            else:
                if cur is None:
                    raise NotRecognised('update of a cell that was never set')
                fn_ = {'Mult': LV.__mul__, 'Div': LV.__truediv__, 'Add': LV.__add__, 'Sub': LV.__sub__}.get(op)
                if fn_ is None:
                    raise NotRecognised('in-place operator %s' % op)
                cur = fn_(cur, v)
        return cur

    def elem(self, v, ctx):
        """LV of the generic interior element of array-valued v (a scalar is itself)"""
        if isinstance(v, bool):
            raise NotRecognised('boolean in arithmetic')
        if isinstance(v, int):
            return LV(Rat.const(v))
        if isinstance(v, float):
            if v != v or v in (float('inf'), float('-inf')):
                raise NotRecognised('non-finite constant')
            return LV(Rat.const(Fraction(v).limit_denominator(10 ** 12)))
        if not isinstance(v, mx.Sym):
            raise NotRecognised('value %s' % mx.show(v)[:40])
        sub = ctx.get('subst', {})
        if id(v) in sub:
            return sub[id(v)]
        if id(v) in self.stores and ctx.get('skip') != id(v):
            c = self.content(v, 'interior', ctx)
            if c is None:
                raise NotRecognised('array %s is read before it is filled' % mx.show(v)[:30])
            return c
        st = v.struct
        if st is None:
            if v.text in PARAMS:
                return LV(Rat.atom(v.text))
            if v.text == 'xx':
                if ctx.get('slice') not in (None, 'slice(None, None, None)'):
                    raise NotRecognised('whole grid combined with a slice')
                return LV(Rat.atom('x'))
            if v.text in ctx.get('names', {}):
                return ctx['names'][v.text]
            raise NotRecognised('symbol %s' % v.text[:30])
        if st[0] == 'binop':
            op, l, r = st[1], st[2], st[3]
            if op == '**':
                if isinstance(r, int) and not isinstance(r, bool) and abs(r) <= 8:
                    return self.elem(l, ctx).power(r)
                raise NotRecognised('power %s' % mx.show(r)[:20])
            a, b = self.elem(l, ctx), self.elem(r, ctx)
            if op == '+':
                return a + b
            if op == '-':
                return a - b
            if op == '*':
                return a * b
            if op == '/':
                return a / b
            raise NotRecognised('operator %s' % op)
        if st[0] == 'quad':
            k = st[1]
            val, a, b, xi = self.world.quads[k]
            c2 = dict(ctx)
            c2['names'] = dict(ctx.get('names', {}))
            c2['names'][xi.text] = LV(Rat.atom('xi'))
            c2['slice'] = None
            f = self.elem(val, c2)
            if not (f.rat - Rat.const(1)).is_zero():
                raise NotRecognised('integrand is not a pure exponential')
            rec = (f.expo, self.elem(a, ctx).plain(), self.elem(b, ctx).plain())
            self.inst.setdefault(k, []).append(rec)
            return LV(Rat.atom('QUAD%d' % k))
        if st[0] == 'call':
            nm = st[1].split('.')[-1]
            args, kw = st[2], (st[3] if len(st) > 3 else {})
            if nm == 'exp' and len(args) == 1:
                a = self.elem(args[0], ctx)
                return LV(Rat.const(1), a.plain())
            if nm in ('array', 'asarray', 'fromiter', 'asfarray') and args:
                return self.elem(args[0], ctx)
            if nm in ('float', 'float64', 'double') and len(args) == 1:
                return self.elem(args[0], ctx)
            raise NotRecognised('call %s' % st[1][:30])
        if st[0] == 'comp':
            elt, itv, var = st[1], st[2], st[3]
            if self.is_grid(itv) and isinstance(var, str) and var.isidentifier():
                c2 = dict(ctx)
                c2['names'] = dict(ctx.get('names', {}))
                c2['names'][var] = LV(Rat.atom('x'))
                return self.elem(elt, c2)
            raise NotRecognised('comprehension over %s' % mx.show(itv)[:30])
        if st[0] == 'index':
            base, key = st[1], st[2]
            if self.is_grid(base):
                if isinstance(key, mx.Sym) and key.struct is None and key.text in ctx.get('idx', ()):
                    return LV(Rat.atom('x'))
                if isinstance(key, slice) and ctx.get('slice') == mx.show(key):
                    return LV(Rat.atom('x'))
                raise NotRecognised('grid element %s' % mx.show(key)[:30])
            if isinstance(key, mx.Sym) and key.struct is None and key.text in ctx.get('idx', ()):
                return self.elem(base, ctx)
            if isinstance(key, slice) and ctx.get('slice') == mx.show(key):
                return self.elem(base, ctx)
            raise NotRecognised('element %s of %s' % (mx.show(key)[:20], mx.show(base)[:30]))
        raise NotRecognised('expression %s' % mx.show(v)[:40])


def outer_base(R, cells):
    """the outermost array object with stores inside the returned expression"""
    found = []

    def rec(v):
        if isinstance(v, mx.Sym):
            if id(v) in cells.stores:
                found.append(v)
                return
            if v.struct and v.struct[0] == 'binop':
                rec(v.struct[2])
                rec(v.struct[3])
    rec(R)
    if len(found) != 1:
        raise NotRecognised('the returned value is not one array that was filled in place times factors (%d candidates)' % len(found))
    return found[0]


def last_store(cells, A, pos):
    """(number of stores before it, kind, value) of the last store that covers pos"""
    out = None
    for k, (kind, key, val, op) in enumerate(cells.stores.get(id(A), [])):
        hit, _ = cells.covers(key, pos)
        if hit:
            out = (k, kind, val, key)
    return out


def analyse(world, outcome, events):
    """facts of one path: dict"""
    if outcome[0] != 'return':
        raise NotRecognised('path ends with %s' % (outcome,))
    R = outcome[1]
    cells = Cells(world, events)
    base = outer_base(R, cells)
    scale = cells.elem(R, {'subst': {id(base): LV(Rat.atom('BASE'))}})
    coef = scale.plain() / Rat.atom('BASE')
    if 'BASE' in coef.atoms():
        raise NotRecognised('the returned value is not a multiple of the array that was filled')
    interior = cells.content(base, 'interior', {})
    if interior is None:
        raise NotRecognised('interior cells are never set')
    facts = {'coef': coef, 'interior': LV(interior.rat * coef, interior.expo), 'inst': cells.inst, 'cells': cells, 'base': base}
    # first cell
    ls = last_store(cells, base, 'first')
    facts['first'] = None
    if ls is not None and ls[1] == 'set' and isinstance(ls[3], int):
        k, _, val, _key = ls
        if isinstance(val, mx.Sym) and val.struct and val.struct[0] == 'index' and val.struct[1] is base and val.struct[2] == 1:
            before = cells.content(base, 'interior', {}, upto=k)
            facts['first'] = ('neighbour', LV(before.rat * coef, before.expo) if before is not None else None)
        else:
            facts['first'] = ('other', mx.show(val)[:60])
    # last cell
    ls = last_store(cells, base, 'last')
    facts['last'] = None
    if ls is not None and ls[1] == 'set' and isinstance(ls[3], int):
        k, _, val, _key = ls
        mn = (mx.call_of(val, 'min') or mx.call_of(val, 'minimum')) if isinstance(val, mx.Sym) else None
        if mn is not None and len(mn[0]) == 2:
            keys = []
            for a in mn[0]:
                if isinstance(a, mx.Sym) and a.struct and a.struct[0] == 'index' and a.struct[1] is base and isinstance(a.struct[2], int):
                    keys.append(a.struct[2])
            # the neighbour must already carry the interior scaling: every interior store precedes this one
            later = [1 for kind, key, v_, op in cells.stores[id(base)][k + 1:] if cells.covers(key, 'interior')[0]]
            facts['last'] = ('min', sorted(keys), not later)
        else:
            lv = cells.elem(val, {})
            facts['last'] = ('value', LV(lv.rat * coef, lv.expo))
    return facts
