"""C03 - Integration is linear in (density, theta0) and independent of the reference size (DESIGN.md C03)."""
import ast, re
from sa import generic
from sa.degrees import DegContext, CDeg, PyDeg, Func
from sa.cfront import CProgram
from sa.kernels import KernelFacts, kernel_name, phi_reads
from sa.srcmodel import own_nodes, dotted, positional_params, func_params
from sa.report import AnalysisError

EXPLANATION = (
    "Decides two homogeneity statements by abstract interpretation in the lattice of scaling degrees, over the Python drivers, "
    "the equilibrium densities, the PhiManip operations and (with the same evaluator) the C kernels and coefficient functions: "
    "(1) linearity - under the group (phi, theta0) -> lambda*(phi, theta0) every assignment to the density is homogeneous of "
    "degree 1 (phi <- solve(a,b,c, phi/dt) with coefficients of degree 0, phi[e_k] += dt*theta0*g(grid)), every integrator, "
    "equilibrium density, constructor and pulse returns a density of degree 1, and in every C kernel phi is read only to form "
    "the right-hand side (coefficients independent of the density); (2) reference-size invariance - under G1 (sizes, times, "
    "time steps: +1; theta0, selection and migration rates: -1; density, grids, dominance, beta: 0) every sum, comparison, "
    "min/max only combines equal degrees, arguments of exp/log are dimensionless, all rows of the linear systems have degree "
    "-1, dt*theta0 and phi degree 0, _compute_dt returns degree +1, and each kernel receives arguments of the degree its C "
    "parameters have; constants wrapped by ensure_1arg_func keep their degree. The legacy use_old_timestep branch (off by "
    "default, inhomogeneous by design) is excluded. Round-off-level equality of two runs is not decided.")
TECHNIQUE = "abstract interpretation over homogeneity degrees (two scale groups), interprocedural, shared between Python and the parsed C"
DECLINED = ["equality up to round-off of two concrete runs", "behaviour of arbitrary user-supplied time functions", "the documented legacy branch use_old_timestep=True"]

INT = 'dadi.Integration'
PM = 'dadi.PhiManip'


def rx(p):
    return re.compile(p)


G1_SEEDS = {'theta0': -1, 'theta': -1, 'timescale_factor': 0, 'old_timescale_factor': 0, 'phi': 0, 'T': 1, 't': 1, 'dt': 1, 'this_dt': 1, 'next_t': 1, 'current_t': 1, 'initial_t': 1,
            'ms': -1, 'use_delj_trick': None, 'x': 0, 'y': 0, 'z': 0, 'h': 0, 'beta': 0, 'alpha': 0, 'N': None, 'L': None, 'M': None, 'O': None, 'P': None}
G1_PATTERNS = [(rx(r'nu\w*'), 1), (rx(r'gamma\w*'), -1), (rx(r'm\d\d'), -1), (rx(r'm(xy|xz|xa|xb)?'), -1), (rx(r'h\d'), 0), (rx(r'(xx|yy|zz|aa|bb|cc|a_|b_)'), 0),
               (rx(r'd[xyzab]'), 0), (rx(r'phi\w*'), 0), (rx(r'frozen\d?|nomut\d'), None), (rx(r'[xyzab]Int'), 0)]
TH_SEEDS = {'theta0': 1, 'theta': 1, 'use_delj_trick': None, 'N': None, 'L': None, 'M': None, 'O': None, 'P': None, 'timescale_factor': 0, 'old_timescale_factor': 0,
            'T': 0, 't': 0, 'dt': 0, 'this_dt': 0, 'next_t': 0, 'current_t': 0, 'initial_t': 0, 'ms': 0, 'x': 0, 'y': 0, 'z': 0, 'h': 0, 'beta': 0, 'alpha': 0, 'f': 0}
TH_PATTERNS = [(rx(r'phi\w*'), 1), (rx(r'frozen\d?|nomut\d'), None), (rx(r'nu\w*'), 0), (rx(r'gamma\w*'), 0), (rx(r'm\d\d'), 0), (rx(r'm(xy|xz|xa|xb)?'), 0), (rx(r'h\d'), 0),
               (rx(r'(xx|yy|zz|aa|bb|cc|a_|b_)'), 0), (rx(r'd[xyzab]'), 0), (rx(r'[xyzab]Int'), 0), (rx(r'f\d'), 0)]
WORLD = {'use_old_timestep': False, 'cuda_enabled': False, 'not cuda_enabled': True}

PY_ENTRIES = [(INT, q) for q in ('one_pop', 'two_pops', 'three_pops', 'four_pops', 'five_pops', '_compute_dt', '_compute_delj', '_compute_dfactor', '_Vfunc', '_Mfunc1D', '_Mfunc2D', '_Mfunc3D',
                                '_one_pop_const_params', '_two_pops_const_params', '_three_pops_const_params',
                                '_inject_mutations_1D', '_inject_mutations_2D', '_inject_mutations_3D', '_inject_mutations_4D', '_inject_mutations_5D')] + \
             [(PM, q) for q in ('phi_1D', 'phi_1D_genic', 'phi_1D_snm')] + [('dadi.Misc', 'ensure_1arg_func')]
PM_OPS = ['phi_1D_to_2D', 'phi_2D_to_3D_admix', 'phi_3D_to_4D', 'phi_4D_to_5D', '_admixture_intermediates', 'remove_pop', 'reorder_pops']


def run_group(rep, prog, cprog, gname, seeds, patterns, expect_ret, entries, c_entries):
    ctx = DegContext(prog, seeds, patterns, world=WORLD, cprog=cprog)
    per_fn = {}
    rets = {}
    for modname, q in entries:
        m = prog.mod(modname)
        fn = prog.func(modname, q)
        before = len(ctx.findings)
        d = ctx.analyse(m, fn, {})
        rets[(modname, q)] = d
    for name in c_entries:
        cf = cprog.func(name)
        s = {p: ctx.seed(p) for p in cf.param_names()}
        sub = CDeg(ctx, cf)
        d = sub.run(s)
        rets[('C', name)] = d
        # density after the kernel keeps its degree
        if 'phi' in s and name.startswith('implicit'):
            want = ctx.seed('phi')
            rep.ob('R-DEG(%s)' % gname, 'C %s density' % name, s.get('phi') == want, 'phi has degree %s after the sweep (expected %s)' % (s.get('phi'), want), cf.rel, cf.line,
                   what='the updated density has the degree of the input density')
    # findings -> failed obligations, grouped by function
    seen = set()
    by_fn = {}
    for f in ctx.findings:
        key = (f.where, f.text)
        if key in seen:
            continue
        seen.add(key)
        by_fn.setdefault(f.where, []).append(f)
    for where, fs in sorted(by_fn.items()):
        file = where.split(':')[0]
        for f in fs:
            rep.ob('R-DEG(%s)' % gname, where, False, f.text, file, getattr(f.node, 'lineno', 0), what=re.sub(r'\s+', ' ', f.text)[:160])
    for where in sorted(ctx.analysed_functions):
        if where not in by_fn:
            rep.ob('R-DEG(%s)' % gname, where, True, 'every sum/comparison combines equal degrees; exp/log arguments are dimensionless', where.split(':')[0], 0, what='homogeneous under %s' % gname)
    for (modname, q), want in expect_ret.items():
        got = rets.get((modname, q))
        if isinstance(got, Func):
            got = got.d
        rep.ob('R-DEG(%s)' % gname, '%s:%s result' % (modname, q), got == want, ('result has degree %s (expected %s)' % (got, want)) if got is not None else
               'degree of the result not evaluable (an operation the degree analysis does not know); expected %s' % want, prog.mod(modname).rel if modname != 'C' else 'dadi', 0,
               what='declared result degree under %s' % gname)
    rep.extra['functions_analysed_%s' % gname] = len(ctx.analysed_functions)
    for w_ in ctx.analysed_functions:
        if w_.split(':')[0].endswith('.py'):
            rep.saw_function(w_)
    return ctx


def run(rep, prog, tier):
    cprog = CProgram()
    kernels = [kernel_name(D, k) for D in range(1, 6) for k in range(1, D + 1)]
    shared = ['Vfunc', 'Vfunc_beta', 'Mfunc1D', 'Mfunc2D', 'Mfunc3D', 'Mfunc4D', 'Mfunc5D']
    for modname in (INT, PM, 'dadi.Misc'):
        rep.saw_file(prog.mod(modname).rel)
    for f in ('dadi/integration_shared.c', 'dadi/integration1D.c', 'dadi/integration2D.c', 'dadi/integration3D.c', 'dadi/integration4D.c', 'dadi/integration5D.c'):
        rep.saw_file(f)
    # ---- (2) reference size ------------------------------------------------------------------------------------
    exp1 = {(INT, q): 0 for q in ('one_pop', 'two_pops', 'three_pops', 'four_pops', 'five_pops')}
    exp1[(INT, '_compute_dt')] = 1
    exp1[(INT, '_Vfunc')] = -1
    for q in ('_Mfunc1D', '_Mfunc2D', '_Mfunc3D'):
        exp1[(INT, q)] = -1
    for q in ('phi_1D', 'phi_1D_genic', 'phi_1D_snm'):
        exp1[(PM, q)] = 0
    for c in shared:
        exp1[('C', c)] = -1
    ctx1 = run_group(rep, prog, cprog, 'G1', G1_SEEDS, G1_PATTERNS, exp1, PY_ENTRIES, kernels + shared)
    # ---- (1) linearity ---------------------------------------------------------------------------------------------
    exp2 = {(INT, q): 1 for q in ('one_pop', 'two_pops', 'three_pops', 'four_pops', 'five_pops')}
    for q in ('phi_1D', 'phi_1D_genic', 'phi_1D_snm', 'phi_1D_to_2D', 'phi_2D_to_3D_admix', 'phi_3D_to_4D', 'phi_4D_to_5D', 'remove_pop', 'reorder_pops'):
        exp2[(PM, q)] = 1
    exp2[(INT, '_compute_dt')] = 0
    pulses = [q for q in prog.mod(PM).funcs if re.fullmatch(r'phi_(\d)D_admix_(?:.*_)?into_(\d)', q)]
    for q in pulses:
        exp2[(PM, q)] = 1
    entries2 = PY_ENTRIES + [(PM, q) for q in PM_OPS] + [(PM, q) for q in pulses]
    ctx2 = run_group(rep, prog, cprog, 'theta', TH_SEEDS, TH_PATTERNS, exp2, entries2, kernels)
    # coefficients independent of the density: phi read only in the right-hand side of every kernel
    for D in range(1, 6):
        for k in range(1, D + 1):
            cf = cprog.func(kernel_name(D, k))

            reads = phi_reads(cf, D)
            rep.ob('R-INDEP', '%s[%dD,axis %d]' % (cf.name, D, k), len(reads) == 1,
                   'phi is read at lines %s (only the right-hand side r = phi/dt may depend on it)' % reads, cf.rel, cf.line, what='coefficients independent of the density')
    # superposition: degree 1 is necessary but not sufficient (max(phi, 0) has degree 1); every operation applied to the
    # density and to theta0 must be linear in the pair (taint classes U/L/N, interprocedural)
    from sa.linear import rule_lin
    from sa.srcmodel import func_params as _fp
    for modname, q in entries2:
        fn = prog.func(modname, q)
        t = {p_ for p_ in _fp(fn) if p_.startswith('phi')} | ({'theta0'} if 'theta0' in _fp(fn) else set())
        if t:
            rule_lin(rep, prog.mod(modname), fn, t, prog=prog, what='the result is a linear function of (density, theta0)')
    # ensure_1arg_func preserves the value
    mf = prog.func('dadi.Misc', 'ensure_1arg_func')
    t = ast.unparse(mf)
    ok = 'var_f_tmp = lambda t: var' in t and 'var_f = lambda t: numpy.float64(var_f_tmp(t))' in t and 'return var_f' in t
    rep.ob('R-TPL', 'Misc.ensure_1arg_func', ok, 'constants become constant functions of time; functions are passed through (converted to float64)', 'dadi/Misc.py', mf.lineno,
           what='wrapping a constant does not change its value')
    rep.floor('R-DEG(G1)', 40)
    rep.floor('R-DEG(theta)', 50)
    rep.floor('R-INDEP', 15)
    rep.floor('R-LIN', 30)
