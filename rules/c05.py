"""C05 - Sampling a spectrum from phi is exact binomial integration on every code path (DESIGN.md C05)."""
import ast, re
from fractions import Fraction
from sa import generic
from sa.algebra import Rat, Translator, AlgebraError, parse_expr
from sa.extract import single_assignments, inline, names_in
from sa.srcmodel import func_params, own_nodes, dotted, positional_params, bind_call
from sa.stencil import swept_component, _slice_start
from sa.report import AnalysisError
from rules import c20

EXPLANATION = (
    "Decides the coefficient and bookkeeping conformance of all sampling implementations, for all densities, grids and sample "
    "sizes: (1) R-ALG analytic family - in _from_phi_1D_analytic, cached_dbeta and the 2-D..5-D linear-algebra routines the "
    "slope s=(phi_{i+1}-phi_i)/(x_{i+1}-x_i), the constant term (phi_i - s x_i)/(n+1), the linear term s(d+1)/((n+1)(n+2)) and "
    "the incomplete-beta arguments (d+1,n-d+1), (d+2,n-d+1) equal the closed-form integrals of C(n,d)x^d(1-x)^(n-d)(a+s x) "
    "(slice offsets translated to per-interval stencils); each level peels the LAST axis and recurses on the (D-1) routine with "
    "the remaining sizes and grids in order and raw=True; (2) direct family - per axis the factor comb(n_a,i)*g_a^i*(1-g_a)^(n_a-i), "
    "the het_ascertained option multiplies the factor of the same-named axis by g(1-g), integration proceeds from the last axis "
    "to the first with the matching spacing, results stored at data[i_1..i_D]; admix_props builds the frequency of sampled "
    "population r from row r with column c multiplying grid c on axis c; inbreeding uses alpha=g(1-F)/F, beta=(1-g)(1-F)/F with "
    "its own F and ploidy per axis; (3) dispatch - every (ndim, options) combination binds the result or raises (R-EXH/R-DEF), "
    "arguments are forwarded as ns[k], xxs[k] in order, extrap_x and pop_ids are set on every returning path, F=0 delegates to "
    "from_phi; (4) R-KEY on the beta-difference memo and on the beta-binomial / multinomial / partition memos of the inbreeding path; "
    "(5) R-LIN - every implementation applies only linear operations to the density (taint classes U/L/N, interprocedural). "
    "Equality with an independent quadrature is not decided."
    ' R-REC: Numerics.part (partitions behind BetaBinomConvolution) passes every defaulted bound (minval, maxval) at each self-call. R-DTYPE: no from_phi routine creates an array with a narrow or argument-dependent dtype.')
TECHNIQUE = "stencil normal forms of slice arithmetic + sibling templates of 15 implementations + dispatch exhaustiveness / definite assignment"
DECLINED = ["equality with an independent quadrature", "mass / projection consistency as numerical statements", "beta-binomial normalisation", "effect of the 1e-16 grid clamp"]

SM = 'dadi.Spectrum_mod'
G = ['xx', 'yy', 'zz', 'aa', 'bb']
NS = ['nx', 'ny', 'nz', 'na', 'nb']
IV = ['ii', 'jj', 'kk', 'll', 'mm']
AX = ['x', 'y', 'z', 'a', 'b']


def off_translator(arrays_rel=None):
    """slices [1:] -> @1, [:-1] -> @0 on the single proper sub-range component; full arrays named in arrays_rel -> @0"""
    def index_hook(tr, e):
        try:
            c = swept_component(e)
        except AlgebraError:
            return None
        if c is None:
            return None
        _, sl = c
        if isinstance(sl, ast.Slice) and (sl.lower is not None or sl.upper is not None):
            return Rat.atom('%s@%d' % (tr._basename(e.value), _slice_start(sl)))
        return None

    def name_hook(n):
        if arrays_rel and n in arrays_rel:
            return Rat.atom('%s@0' % n)
        return None
    return Translator({}, index_hook=index_hook, name_hook=name_hook)


def at(txt, env=None):
    enc = re.sub(r'(\w+)@(-?\d+)', lambda m: '%s__AT__%s' % (m.group(1), m.group(2)), txt)

    def name_hook(n):
        if '__AT__' in n:
            a, d = n.split('__AT__')
            return Rat.atom('%s@%s' % (a, d))
        return None
    return Translator(env or {}, name_hook=name_hook).tr(ast.parse(enc, mode='eval').body)


def check_slope_const(rep, m, fn, label, phi, grid, n, svar, cvar):
    """s = (phi@1 - phi@0)/(g@1 - g@0); c1 = (phi@0 - s*g@0)/(n+1) along the swept (last) axis"""
    sing = single_assignments(fn)
    ok = False
    det = 'definitions of %s / %s not found' % (svar, cvar)
    if svar in sing and cvar in sing:
        try:
            T = off_translator()
            s = T.tr(sing[svar])
            ref_s = at('(%s@1 - %s@0)/(%s@1 - %s@0)' % (phi, phi, grid, grid))
            T2 = off_translator({svar})
            c1 = T2.tr(sing[cvar])
            ref_c = at('(%s@0 - %s@0*%s@0)/(%s + 1)' % (phi, svar, grid, n))
            ok = s.equals(ref_s) and c1.equals(ref_c)
            det = '%s = %s ; %s = %s' % (svar, ast.unparse(sing[svar])[:70], cvar, ast.unparse(sing[cvar])[:70])
            # the sub-range must be on the LAST axis of phi
            for sub in ast.walk(sing[svar]):
                if isinstance(sub, ast.Subscript) and ast.unparse(sub.value) == phi:
                    comps = sub.slice.elts if isinstance(sub.slice, ast.Tuple) else [sub.slice]
                    pos = [i for i, c in enumerate(comps) if isinstance(c, ast.Slice) and (c.lower is not None or c.upper is not None)]
                    if pos != [len(comps) - 1]:
                        ok = False
                        det += ' (sub-range not on the last axis)'
        except AlgebraError as e:
            det = 'cannot normalise: %s' % e
    rep.ob('R-ALG', '%s slope/constant' % label, ok, det, m.rel, fn.lineno, what='slope (phi_{i+1}-phi_i)/(x_{i+1}-x_i) and constant term (phi_i - s x_i)/(n+1) along the last axis')


def check_analytic(rep, prog, m):
    rel = m.rel
    # cached_dbeta
    cd = prog.func(SM, 'cached_dbeta')
    rep.saw_function(rel + ':cached_dbeta')
    # row d of the two tables, as a value (abstract execution): filled row by row in a loop over d, or all rows at once from a broadcast
    # betainc call whose orders are the column numpy.arange(n+1)[:, newaxis]
    from sa import miniexec as mx
    from sa import alpha as _alpha
    known_ = _alpha.load_table().get('__params__', {}).get(rel)
    known_ = set(known_) if known_ is not None else None

    def is_row_index(x):
        """numpy.arange(n + 1, ...)[:, newaxis]: the column of row numbers"""
        if isinstance(x, mx.Sym) and x.struct and x.struct[0] == 'index' and isinstance(x.struct[2], tuple) and len(x.struct[2]) == 2 and mx.is_full_slice(x.struct[2][0]) and mx.is_newaxis(x.struct[2][1]):
            return mx.call_of(x.struct[1], 'arange') is not None
        return False

    CLAMP = 'numpy.minimum(numpy.maximum(xx, 0), 1.0)'

    def beta_leaf(n_name, grid_text):
        def leaf(x):
            if isinstance(x, mx.Sym) and not x.struct and re.fullmatch(r'[A-Za-z_]\w*', x.text):
                return Rat.atom(x.text)
            if isinstance(x, mx.Sym) and mx.show(x).replace('np.', 'numpy.') == CLAMP:
                return Rat.atom('xx')          # the grid clamped to [0, 1] (a separate obligation)
            if x == 'ROW':
                return Rat.atom('d')
            b_ = mx.call_of(x, 'betainc')
            if b_ is not None and len(b_[0]) == 3 and not b_[1]:
                return Rat.atom('BI[%s|%s|%s]' % (mx.to_rat(b_[0][0], leaf).canon(), mx.to_rat(b_[0][1], leaf).canon(), mx.show(b_[0][2]).replace('np.', 'numpy.').replace(CLAMP, 'xx')))
            if isinstance(x, mx.Sym) and x.struct and x.struct[0] == 'index' and isinstance(x.struct[2], slice):
                k_ = x.struct[2]
                inner = mx.to_rat(x.struct[1], leaf)
                if (k_.start, k_.stop, k_.step) == (1, None, None):
                    return Rat.atom('HI[%s]' % inner.canon())
                if (k_.start, k_.stop, k_.step) == (None, -1, None):
                    return Rat.atom('LO[%s]' % inner.canon())
            if isinstance(x, mx.Sym) and x.struct and x.struct[0] == 'index' and not isinstance(x.struct[2], (slice, tuple)):
                # row number <key> of a table built from the column of row numbers
                holder = [False]

                def hit(y):
                    if is_row_index(y):
                        holder[0] = True
                        return True
                    return False
                rows = mx.replace(x.struct[1], hit, x.struct[2])
                if holder[0]:
                    return mx.to_rat(rows, leaf)
            d_ = mx.call_of(x, 'diff')
            if d_ is not None and len(d_[0]) == 1 and (not d_[1] or (set(d_[1]) == {'axis'} and d_[1]['axis'] in (-1, 0, 1))):
                inner = mx.to_rat(d_[0][0], leaf)
                return Rat.atom('HI[%s]' % inner.canon()) - Rat.atom('LO[%s]' % inner.canon())
            return None
        return leaf

    def row_of(table_value_events, table, dvar='d'):
        """Rat of row d of `table` from the stores into it, or raises"""
        leaf = beta_leaf(None, None)
        st = [e for e in table_value_events if e[0] == 'setitem' and e[4] is table]
        if len(st) != 1:
            raise mx.Undecidable('%d stores into a table' % len(st))
        key, val = st[0][2], st[0][3]
        if mx.is_full_slice(key) or (isinstance(key, tuple) and all(mx.is_full_slice(k_) for k_ in key)):
            rows = mx.replace(val, is_row_index, 'ROW')
            return mx.to_rat(rows, leaf), None
        if isinstance(key, mx.Sym) and not key.struct:
            return mx.to_rat(mx.subst(val, key.text, 'ROW'), leaf), key.text
        raise mx.Undecidable('store key %s' % mx.show(key)[:30])
    ok, detd = False, ''
    try:
        it = mx.Interp(prog, m, known_functions=known_, symbolic_loops=True)
        paths = [p_ for p_ in it.run(cd, {'nx': mx.Sym('nx'), 'xx': mx.Sym('xx')}) if p_[0][0] == 'return']
        filled = [p_ for p_ in paths if any(e[0] == 'setitem' and mx.show(e[4]) == '_dbeta_cache' for e in p_[1])]
        if not filled:
            raise mx.Undecidable('no path fills the cache')
        ok = True
        for outcome, events, _d in filled:
            ret = [e[3] for e in events if e[0] == 'setitem' and mx.show(e[4]) == '_dbeta_cache'][0]      # the pair stored under the key
            if not (isinstance(ret, tuple) and len(ret) == 2):
                raise mx.Undecidable('stores %s' % mx.show(ret)[:40])
            rt_ = [mx.show(x) for x in (outcome[1] if isinstance(outcome[1], tuple) else ())]
            same_pair = isinstance(outcome[1], tuple) and len(outcome[1]) == 2 and all(a_ is b_ for a_, b_ in zip(outcome[1], ret))       # the very tables it stored
            if not same_pair and not (len(rt_) == 2 and all(t_.startswith('_dbeta_cache[') and t_.endswith('][%d]' % k_) for k_, t_ in enumerate(rt_)) and rt_[0][:-3] == rt_[1][:-3]):
                ok = False
                detd = 'returns %s' % mx.show(outcome[1])[:60]
            grid = 'xx'
            for k_, tab in enumerate(ret, start=1):
                got, var = row_of(events, tab)
                want = Rat.atom('HI[BI[%s|%s|%s]]' % ((Rat.atom('d') + Rat.const(k_)).canon(), (Rat.atom('nx') - Rat.atom('d') + Rat.const(1)).canon(), grid)) - \
                    Rat.atom('LO[BI[%s|%s|%s]]' % ((Rat.atom('d') + Rat.const(k_)).canon(), (Rat.atom('nx') - Rat.atom('d') + Rat.const(1)).canon(), grid))
                if not got.equals(want):
                    ok = False
                    detd = 'row d of table %d is %s' % (k_, got.canon()[:120])
                if var is not None:
                    rg = next((e[3] for e in events if e[0] == 'loop' and e[2] == var and len(e) > 3), None)
                    c_ = mx.call_of(rg, 'range') if rg is not None else None
                    hi_ = c_[0][-1] if c_ else None
                    lo_ = c_[0][0] if c_ and len(c_[0]) == 2 else 0
                    if c_ is None or lo_ != 0 or mx.show(hi_) not in ('(nx + 1)', 'nx + 1'):
                        ok = False
                        detd = 'rows filled for %s' % (mx.show(rg)[:40] if rg is not None else '?')
                else:
                    z_ = mx.call_of(tab, 'empty') or mx.call_of(tab, 'zeros')
                    rows_n = z_[0][0][0] if z_ and z_[0] and isinstance(z_[0][0], (tuple, list)) else None
                    ar = [x for x in [mx.call_of(e[3], 'diff') for e in events if e[0] == 'setitem' and e[4] is tab] if x]
                    if rows_n is None or mx.show(rows_n) not in ('(nx + 1)', 'nx + 1'):
                        ok = False
                        detd = 'table of %s rows' % mx.show(rows_n)
    except (mx.Undecidable, AlgebraError) as e:
        ok, detd = False, 'cached_dbeta is not recognised: %s' % e
    rep.ob('R-ALG', 'cached_dbeta', ok, detd or 'dbeta1[d] = Delta I(d+1, n-d+1), dbeta2[d] = Delta I(d+2, n-d+1) for d = 0..n', rel, cd.lineno, what='incomplete-beta differences with the arguments of the closed-form integrals')
    clamp = [n for n in own_nodes(cd) if isinstance(n, ast.Assign) and ast.unparse(n.targets[0]) == 'xx']
    rep.ob('R-TPL', 'cached_dbeta clamp', bool(clamp) and ast.unparse(clamp[0].value) == 'numpy.minimum(numpy.maximum(xx, 0), 1.0)', 'grid clamped to [0,1] before betainc', rel, cd.lineno, what='grid clamp present')
    c20.rule_key_full(rep, prog, SM, 'cached_dbeta', '_dbeta_cache')
    # 1-D analytic
    f1 = prog.func(SM, 'Spectrum._from_phi_1D_analytic')
    rep.saw_function(rel + ':' + f1._qualname)
    check_slope_const(rep, m, f1, '_from_phi_1D_analytic', 'phi', 'xx', 'n', 's', 'c1')
    ok, det = False, ''
    try:
        it = mx.Interp(prog, m, known_functions=known_, symbolic_loops=True)
        pp1 = positional_params(f1)
        args1 = {p_: mx.Sym(p_) for p_ in pp1}
        args1['divergent'] = False
        paths = [p_ for p_ in it.run(f1, args1) if p_[0][0] == 'return']
        if len(paths) != 1:
            raise mx.Undecidable('%d returning paths' % len(paths))
        outcome, events, _d = paths[0]
        zc = [e for e in events if e[0] == 'setitem' and mx.call_of(e[4], 'zeros') is not None]
        if len(zc) != 1 or not (isinstance(zc[0][2], mx.Sym) and not zc[0][2].struct):
            raise mx.Undecidable('%d stores into the result' % len(zc))
        dv = zc[0][2].text
        sm = mx.call_of(zc[0][3], 'sum')
        if sm is None or len(sm[0]) != 1 or sm[1]:
            raise mx.Undecidable('entry %s' % mx.show(zc[0][3])[:50])
        leaf1 = beta_leaf(None, None)
        got = mx.to_rat(sm[0][0], leaf1)
        D, N = Rat.atom(dv), Rat.atom('n')
        one = Rat.const(1)
        S = (Rat.atom('HI[phi]') - Rat.atom('LO[phi]')) / (Rat.atom('HI[xx]') - Rat.atom('LO[xx]'))
        C1 = (Rat.atom('LO[phi]') - S * Rat.atom('LO[xx]')) / (N + one)

        def dbi(k_):
            a_ = 'BI[%s|%s|xx]' % ((D + Rat.const(k_)).canon(), (N - D + one).canon())
            return Rat.atom('HI[%s]' % a_) - Rat.atom('LO[%s]' % a_)
        ref = C1 * dbi(1) + S * (D + one) / ((N + one) * (N + Rat.const(2))) * dbi(2)
        rg = next((e[3] for e in events if e[0] == 'loop' and e[2] == dv and len(e) > 3), None)
        c_ = mx.call_of(rg, 'range') if rg is not None else None
        okrange = c_ is not None and (c_[0][0] if len(c_[0]) == 2 else 0) == 0 and mx.show(c_[0][-1]) in ('(n + 1)', 'n + 1')
        ok = got.equals(ref) and okrange
        det = 'entry d = sum over intervals of c1*DeltaI(d+1, n-d+1) + s*(d+1)/((n+1)(n+2))*DeltaI(d+2, n-d+1), d in range(0, n+1): %s' % ('yes' if ok else got.canon()[:140])
    except (mx.Undecidable, AlgebraError) as e:
        det = 'unrecognised loop body (%s)' % e
    rep.ob('R-ALG', '_from_phi_1D_analytic entries', ok, det, rel, f1.lineno,
           what='entry d = sum_i c1_i DeltaI(d+1,n-d+1) + s_i (d+1)/((n+1)(n+2)) DeltaI(d+2,n-d+1)')
    def matrix_leaf():
        """leaves of the linear-algebra routines: matrix products are non-commutative atoms DOT[a|b], transposes TR[a], sub-ranges along
        the last axis HI[a] / LO[a], rows of the beta-difference tables ROW[table|d], the column 1..n+1 of row numbers plus one DP1[n]"""
        def leaf(x):
            if isinstance(x, mx.Sym) and not x.struct and re.fullmatch(r'[A-Za-z_][\w\[\]|.]*', x.text):
                return Rat.atom(x.text)
            c_ = mx.call_of(x, 'dot')
            if c_ is not None and len(c_[0]) == 2 and not c_[1]:
                return Rat.atom('DOT[%s|%s]' % (mx.to_rat(c_[0][0], leaf).canon(), mx.to_rat(c_[0][1], leaf).canon()))
            if isinstance(x, mx.Sym) and x.struct and x.struct[0] == 'attr' and x.struct[2] == 'T':
                return Rat.atom('TR[%s]' % mx.to_rat(x.struct[1], leaf).canon())
            if isinstance(x, mx.Sym) and x.struct and x.struct[0] == 'attr' and x.struct[2] == 'data' and mx.call_of(x.struct[1], '_from_phi_%dD_linalg' % 0) is None:
                return mx.to_rat(x.struct[1], leaf)
            if isinstance(x, mx.Sym) and x.struct and x.struct[0] == 'index':
                base, key = x.struct[1], x.struct[2]
                comps = list(key) if isinstance(key, tuple) else [key]
                last = comps[-1]
                if isinstance(last, mx.Sym) and not last.struct and re.fullmatch(r'(nuax|None|numpy\.newaxis|np\.newaxis):-1', last.text):
                    last = slice(None, -1, None)       # `nuax:-1` is `None:-1`, i.e. `:-1` (numpy.newaxis is None)
                others_ok = all(mx.is_full_slice(c__) or mx.is_newaxis(c__) for c__ in comps[:-1])
                if isinstance(last, slice) and others_ok and last.step is None:
                    start = None if mx.is_newaxis(last.start) else last.start
                    inner = mx.to_rat(base, leaf)
                    if (start, last.stop) == (1, None):
                        return Rat.atom('HI[%s]' % inner.canon())
                    if (start, last.stop) == (None, -1):
                        return Rat.atom('LO[%s]' % inner.canon())
                    if (start, last.stop) == (None, None):
                        return inner
                ar = mx.call_of(base, 'arange')
                if ar is not None and len(comps) == 2 and mx.is_full_slice(comps[0]) and mx.is_newaxis(comps[1]) and len(ar[0]) == 2 and ar[0][0] == 1:
                    return Rat.atom('DP1[%s]' % (mx.to_rat(ar[0][1], leaf) - Rat.const(2)).canon())
                if not isinstance(key, (tuple, slice)) and isinstance(base, mx.Sym) and base.text.startswith('DB'):
                    return Rat.atom('ROW[%s|%s]' % (base.text, mx.to_rat(key, leaf).canon()))
            return None
        return leaf

    def run_linalg(fn, D):
        """(paths, tables) of a linear-algebra routine with raw=True; cached_dbeta is summarised by two table symbols per (n, grid)"""
        def fh(nm, args, kwargs):
            if nm == 'cached_dbeta' and len(args) == 2:
                tag = '%s|%s' % (mx.show(args[0]), mx.show(args[1]))
                return (mx.Sym('DB1[%s]' % tag), mx.Sym('DB2[%s]' % tag))
            return NotImplemented
        it = mx.Interp(prog, m, known_functions=known_, symbolic_loops=True, func_hook=fh)
        it.array_rows = True
        pp = positional_params(fn)
        a_ = {p_: mx.Sym(p_) for p_ in pp}
        if 'raw' in func_params(fn):
            a_['raw'] = True
        out = []
        for p_ in it.run(fn, a_):
            if p_[0][0] != 'return':
                continue
            v_ = p_[0][1]
            sp_ = mx.call_of(v_, 'Spectrum')
            if sp_ is not None and sp_[0]:
                v_ = sp_[0][0]              # (the 5-D routine has no raw form: the array it wraps)
            out.append((('return', v_), p_[1], p_[2]))
        return out

    def closed_form(phi_r, grid, n, row1, row2, fac):
        """C1 x row1 + S x row2 * fac  with  S = (HI[phi]-LO[phi])/(HI[g]-LO[g]),  C1 = (LO[phi] - S LO[g])/(n+1)  - as the two operands of
        the products; the caller wraps them into DOT atoms in the order the routine uses"""
        g, N = Rat.atom(grid), Rat.atom(n)
        hi = lambda r: Rat.atom('HI[%s]' % r.canon())
        lo = lambda r: Rat.atom('LO[%s]' % r.canon())
        S = (hi(phi_r) - lo(phi_r)) / (hi(g) - lo(g))
        C1 = (lo(phi_r) - S * lo(g)) / (N + Rat.const(1))
        return S, C1
    # 2-D linalg
    f2 = prog.func(SM, 'Spectrum._from_phi_2D_linalg')
    rep.saw_function(rel + ':' + f2._qualname)
    sing = single_assignments(f2)
    check_slope_const(rep, m, f2, '_from_phi_2D_linalg (y)', 'phi', 'yy', 'ny', 's_yy', 'c1_yy')
    check_slope_const(rep, m, f2, '_from_phi_2D_linalg (x)', 'over_y_all', 'xx', 'nx', 's_xx_all', 'c1_xx_all')
    un = {}
    for n in own_nodes(f2):
        if isinstance(n, ast.Assign) and isinstance(n.targets[0], ast.Tuple) and isinstance(n.value, ast.Call) and dotted(n.value.func) == 'cached_dbeta':
            un[tuple(e.id for e in n.targets[0].elts)] = [ast.unparse(a) for a in n.value.args]
    okd = un.get(('dbeta1_xx', 'dbeta2_xx')) == ['nx', 'xx'] and un.get(('dbeta1_yy', 'dbeta2_yy')) == ['ny', 'yy']
    rep.ob('R-IDX', '_from_phi_2D_linalg dbeta', okd, str(un), rel, f2.lineno, what='beta differences for (n, grid) of each axis')
    okt, dett = False, ''
    try:
        paths = run_linalg(f2, 2)
        if len(paths) != 1:
            raise mx.Undecidable('%d returning paths' % len(paths))
        leaf = matrix_leaf()
        got = mx.to_rat(paths[0][0][1], leaf)
        one, two = Rat.const(1), Rat.const(2)

        def stage(phi_r, grid, n):
            S, C1 = closed_form(phi_r, grid, n, None, None, None)
            N = Rat.atom(n)
            return Rat.atom('DOT[DB1[%s|%s]|TR[%s]]' % (n, grid, C1.canon())) + Rat.atom('DOT[DB2[%s|%s]|TR[%s]]' % (n, grid, S.canon())) * Rat.atom('DP1[%s]' % N.canon()) / ((N + one) * (N + two))
        over_y = stage(Rat.atom('phi'), 'yy', 'ny')
        ref = stage(over_y, 'xx', 'nx')
        okt = got.equals(ref)
        dett = 'data = DB1(nx,xx) . C1(over_y)^T + DB2(nx,xx) . S(over_y)^T * (d+1)/((nx+1)(nx+2)), over_y the same closed form of phi along y' if okt else 'returns %s' % got.canon()[:200]
    except (mx.Undecidable, AlgebraError) as e:
        dett = 'not recognised: %s' % e
    rep.ob('R-ALG', '_from_phi_2D_linalg terms', okt, dett, rel, f2.lineno,
           what='matrix form of the 1-D closed forms applied to the last axis, then to the first')
    # peel levels 3, 4, 5
    for D in (3, 4, 5):
        fn = prog.func(SM, 'Spectrum._from_phi_%dD_linalg' % D)
        rep.saw_function(rel + ':' + fn._qualname)
        g, n_, L = G[D - 1], NS[D - 1], AX[D - 1] * 2
        params = positional_params(fn)
        oks = params[:2 * D + 1] == NS[:D] + G[:D] + ['phi']
        rep.ob('R-IDX', '_from_phi_%dD_linalg signature' % D, oks, 'parameters %s' % params, rel, fn.lineno, what='(sizes, grids, phi) in axis order')
        check_slope_const(rep, m, fn, '_from_phi_%dD_linalg' % D, 'phi', g, n_, 's_' + L, 'c1_' + L)
        ok, det = False, ''
        try:
            paths = run_linalg(fn, D)
            if len(paths) != 1:
                raise mx.Undecidable('%d returning paths' % len(paths))
            outcome, events, _d = paths[0]
            data = outcome[1]
            st = [e for e in events if e[0] == 'setitem' and mx.show(e[4]) == mx.show(data)]
            if mx.call_of(data, 'zeros') is None or len(st) != 1:
                raise mx.Undecidable('%d stores into the result' % len(st))
            key, val = st[0][2], st[0][3]
            key = list(key) if isinstance(key, tuple) else [key]
            okst = len(key) == D and all(mx.is_full_slice(k_) for k_ in key[:-1]) and isinstance(key[-1], mx.Sym) and not key[-1].struct
            dv = mx.show(key[-1])
            if isinstance(val, mx.Sym) and val.struct and val.struct[0] == 'attr' and val.struct[2] == 'data':
                val = val.struct[1]
            sub = mx.call_of(val, '_from_phi_%dD_linalg' % (D - 1))
            if sub is None:
                raise mx.Undecidable('stores %s' % mx.show(val)[:50])
            okc = [mx.show(a) for a in sub[0][:-1]] == NS[:D - 1] + G[:D - 1] and {k_: v_ for k_, v_ in sub[1].items()} == {'raw': True} and len(sub[0]) == 2 * (D - 1) + 1
            leaf = matrix_leaf()
            got = mx.to_rat(sub[0][-1], leaf)
            S, C1 = closed_form(Rat.atom('phi'), g, n_, None, None, None)
            N_, Dv = Rat.atom(n_), Rat.atom(dv)
            ref = Rat.atom('DOT[%s|ROW[DB1[%s|%s]|%s]]' % (C1.canon(), n_, g, dv)) + \
                Rat.atom('DOT[%s|ROW[DB2[%s|%s]|%s]]' % (S.canon(), n_, g, dv)) * (Dv + Rat.const(1)) / ((N_ + Rat.const(1)) * (N_ + Rat.const(2)))
            okv = got.equals(ref)
            rg = next((e[3] for e in events if e[0] == 'loop' and e[2] == dv and len(e) > 3), None)
            c_ = mx.call_of(rg, 'range') if rg is not None else None
            r_ = mx.call_of(rg, 'rows') if rg is not None else None
            okr = (c_ is not None and (c_[0][0] if len(c_[0]) == 2 else 0) == 0 and mx.show(c_[0][-1]) in ('(%s + 1)' % n_, '%s + 1' % n_)) or \
                (r_ is not None and all(mx.show(a) in ('DB1[%s|%s]' % (n_, g), 'DB2[%s|%s]' % (n_, g)) for a in r_[0]))
            zc = mx.call_of(data, 'zeros')
            shp = zc[0][0] if zc[0] else None
            oksh = isinstance(shp, (tuple, list)) and [mx.show(x_) for x_ in shp] == ['(%s + 1)' % NS[a] for a in range(D)]
            ok = okst and okc and okv and okr and oksh
            det = 'range %s, value %s, recursion %s, store %s, shape %s' % (okr, okv, okc, okst, oksh)
        except (mx.Undecidable, AlgebraError) as e:
            det = 'unrecognised loop body (%s)' % e
        rep.ob('R-TPL(peel)', '_from_phi_%dD_linalg' % D, ok, det, rel, fn.lineno,
               what='peels axis %d with the closed forms, recurses on the %d-D routine with (sizes, grids) in order and raw=True, stores at data[..., d]' % (D, D - 1))


def binom_factor_ok(expr, n, i, g):
    """comb(n, i) * g**i * (1-g)**(n-i) as an algebraic identity"""
    try:
        return Translator().tr(expr).equals(parse_expr('comb(%s, %s) * %s**%s * (1 - %s)**(%s - %s)' % (n, i, g, i, g, n, i)))
    except AlgebraError:
        return False


def check_direct(rep, prog, m):
    rel = m.rel
    for D in (1, 2, 3, 4):
        q = 'Spectrum._from_phi_%dD_direct' % D
        fn = prog.func(SM, q)
        rep.saw_function(rel + ':' + q)
        ns = ['n'] if D == 1 else NS[:D]
        params = positional_params(fn)
        rep.ob('R-IDX', '%s signature' % q, params[:2 * D + 1] == ns + G[:D] + ['phi'], 'parameters %s' % params, rel, fn.lineno, what='(sizes, grids, phi) in axis order')
        factors = {}
        hets = {}
        pmfs = {}
        for n in ast.walk(fn):
            if isinstance(n, ast.Assign) and isinstance(n.targets[0], ast.Name) and n.targets[0].id.startswith('factor') and isinstance(n.value, ast.BinOp):
                factors[n.targets[0].id] = n
            if isinstance(n, ast.Assign) and isinstance(n.targets[0], ast.Name) and n.targets[0].id.startswith('factor') and isinstance(n.value, ast.Call) \
                    and (dotted(n.value.func) or '').split('.')[-2:] == ['binom', 'pmf']:
                pmfs[n.targets[0].id] = n
            if isinstance(n, ast.If) and 'het_ascertained ==' in ast.unparse(n.test):
                hets[ast.unparse(n.test)] = n
        for a in range(D):
            fname = 'factor' + AX[a]
            nd = factors.get(fname)
            # loop variable of the enclosing loop
            lv = None
            p = nd
            while p is not None and lv is None:
                p = getattr(p, '_parent', None)
                if isinstance(p, ast.For):
                    lv = p.target.id
                    rng = ast.unparse(p.iter)
            ok = nd is not None and lv is not None and binom_factor_ok(nd.value, ns[a], lv, G[a]) and rng in ('range(0, %s + 1)' % ns[a], 'range(%s + 1)' % ns[a])
            if nd is None and fname in pmfs:
                # the factor through scipy.stats.binom.pmf(k, n, p): the same number for 0 <= p <= 1, but nan outside that interval, and
                # the grids of this package reach a rounding error beyond 0 and 1 (the semi-analytic path clamps them, this one does not)
                rep.ob('R-ALG', '%s factor axis %d' % (q, a + 1), False,
                       '%s: binom.pmf is nan for a frequency outside [0, 1]; grid end points may lie a rounding error outside, and the polynomial form comb(n,i) x^i (1-x)^(n-i) is defined there' % ast.unparse(pmfs[fname])[:70],
                       rel, pmfs[fname].lineno, what='binomial sampling factor comb(n,i) g^i (1-g)^(n-i) with the size, index and grid of axis %d' % (a + 1))
                continue
            rep.ob('R-ALG', '%s factor axis %d' % (q, a + 1), ok, ast.unparse(nd)[:90] if nd is not None else 'not found', rel, nd.lineno if nd is not None else fn.lineno,
                   what='binomial sampling factor comb(n,i) g^i (1-g)^(n-i) with the size, index and grid of axis %d' % (a + 1))
            ht = hets.get("het_ascertained == '%s'" % G[a])
            okh = ht is not None and len(ht.body) == 1 and isinstance(ht.body[0], ast.AugAssign) and isinstance(ht.body[0].op, ast.Mult) and ast.unparse(ht.body[0].target) == fname
            if okh:
                try:
                    okh = Translator().tr(ht.body[0].value).equals(parse_expr('%s*(1 - %s)' % (G[a], G[a])))
                except AlgebraError:
                    okh = False
            if D <= 3 or a < 3:
                rep.ob('R-IDX', '%s het axis %d' % (q, a + 1), okh or (D == 4 and a == 3), "het_ascertained == '%s' multiplies %s by %s(1-%s)" % (G[a], fname, G[a], G[a]), rel, ht.lineno if ht is not None else fn.lineno,
                       what='ascertainment weight applied to the factor of the same-named axis')
        # result store
        st = [n for n in ast.walk(fn) if isinstance(n, ast.Assign) and isinstance(n.targets[0], ast.Subscript) and ast.unparse(n.targets[0].value) == 'data']
        idx = ast.unparse(st[0].targets[0].slice).replace('(', '').replace(')', '').replace(' ', '') if st else ''
        rep.ob('R-IDX', '%s store' % q, idx == ','.join(IV[:D]), 'data[%s]' % idx, rel, st[0].lineno if st else fn.lineno, what='entry stored at data[i_1..i_D]')
        # integration order: last axis first with matching spacing
        if D >= 2:
            tz = []
            for n in ast.walk(fn):
                if isinstance(n, ast.Call) and dotted(n.func) == 'trapz':
                    kw = {k.arg: ast.unparse(k.value) for k in n.keywords}
                    tz.append((n.lineno, kw.get('dx'), ast.unparse(n.args[0])))
            tz.sort()
            dxs = [t[1] for t in tz]
            want = ['d' + AX[a] for a in range(D - 1, -1, -1)]
            sing = single_assignments(fn)
            if 'half_dx' in sing and ast.unparse(sing['half_dx']) == 'dx / 2.0':
                manual = [n for n in ast.walk(fn) if isinstance(n, ast.Assign) and ast.unparse(n.targets[0]) == 'ans']
                okman = bool(manual) and ast.unparse(manual[0].value) in ('numpy.sum(half_dx * (integrand[1:] + integrand[:-1]))', 'numpy.sum(half_dx * (integrand[:-1] + integrand[1:]))',
                                                                         'numpy.sum((integrand[1:] + integrand[:-1]) * half_dx)', 'numpy.sum((integrand[:-1] + integrand[1:]) * half_dx)')
                dxs = dxs + (['dx'] if okman else [])
            rep.ob('R-IDX', '%s integration order' % q, dxs == want, 'trapezoid integrations use spacings %s; expected %s' % (dxs, want), rel, fn.lineno, what='axes integrated from the last to the first, each with its own spacing')
            bc = True
            for n in ast.walk(fn):
                if isinstance(n, ast.Subscript) and isinstance(n.value, ast.Name) and re.fullmatch(r'factor[xyzab]', n.value.id) and isinstance(n.slice, ast.Tuple):
                    a = AX.index(n.value.id[-1])
                    pos = [i for i, c in enumerate(n.slice.elts) if isinstance(c, ast.Slice)]
                    if pos != [len(n.slice.elts) - 1] or len(n.slice.elts) != a + 1:
                        bc = False
            rep.ob('R-IDX', '%s broadcasting' % q, bc, 'factor of axis a is broadcast as [newaxis]*(a-1) + [:]', rel, fn.lineno, what='each factor multiplies along its own axis')
            dd = {}
            for n in ast.walk(fn):
                if isinstance(n, ast.Assign) and isinstance(n.targets[0], ast.Tuple) and isinstance(n.value, ast.Tuple):
                    for t, v in zip(n.targets[0].elts, n.value.elts):
                        dd[ast.unparse(t)] = ast.unparse(v).replace('np.', 'numpy.')
            okdd = all(dd.get('d' + AX[a]) == 'numpy.diff(%s)' % G[a] for a in range(D))
            rep.ob('R-IDX', '%s spacings' % q, okdd, str({k: v for k, v in dd.items() if k.startswith('d')}), rel, fn.lineno, what='d_a = diff(grid_a)')


def check_admix(rep, prog, m):
    """what _from_phi_<D>D_admix_props stores into entry (i_1..i_D) of the result (abstract execution with a symbolic D x D matrix of
    admixture proportions, loops run once with symbolic indices, tables filled under symbolic keys followed): the nested trapezoid
    integral, last axis first, of phi times one binomial factor per axis, the factor of axis a at the admixed frequency
    sum_c P[a][c] * grid_c with every grid on its own axis.  Independent of temporaries, caches and comprehension / loop form."""
    from sa import miniexec as mx
    from sa import alpha as _alpha
    rel = m.rel
    known = _alpha.load_table().get('__params__', {}).get(rel)
    known = set(known) if known is not None else None
    for D in (2, 3, 4):
        q = 'Spectrum._from_phi_%dD_admix_props' % D
        fn = prog.func(SM, q)
        rep.saw_function(rel + ':' + q)
        params = positional_params(fn)
        for mode in ('matrix', 'default'):
            P = tuple(tuple(mx.Sym('P_%d_%d' % (r, c)) for c in range(D)) for r in range(D)) if mode == 'matrix' else None
            args = {p_: mx.Sym(p_) for p_ in params}
            args['admix_props'] = P
            it = mx.Interp(prog, m, known_functions=known, symbolic_loops=True)
            tag = q if mode == 'matrix' else q + ' (default proportions)'
            try:
                try:
                    allp = it.run(fn, args)
                except mx.Undecidable:
                    if mode == 'default':
                        # (the two-population variant has no default: it indexes None; the dispatcher only calls it with proportions)
                        rep.note('%s: admix_props=None is not handled (siblings default to the identity); not reachable through from_phi' % q)
                        continue
                    raise
                paths = [p_ for p_ in allp if p_[0][0] == 'return']
                if mode == 'default' and not paths:
                    rep.note('%s: admix_props=None raises (siblings default to the identity); not reachable through from_phi' % q)
                    continue
                if len(paths) != 1:
                    raise mx.Undecidable('%d returning paths' % len(paths))
                outcome, events, _dec = paths[0]
                sp = mx.call_of(outcome[1], 'Spectrum')
                if sp is None or not sp[0]:
                    raise mx.Undecidable('returns %s' % mx.show(outcome[1])[:40])
                data = sp[0][0]
                zc = mx.call_of(data, 'zeros')
                stores = [e for e in events if e[0] == 'setitem' and mx.show(e[4]) == mx.show(data)]
                if zc is None or len(stores) != 1:
                    raise mx.Undecidable('%d stores into the result' % len(stores))
                key = stores[0][2]
                key = list(key) if isinstance(key, tuple) else [key]
                ivars = [mx.show(k_) for k_ in key]
                if len(ivars) != D or not all(re.fullmatch(r'[A-Za-z_]\w*', v_) for v_ in ivars) or len(set(ivars)) != D:
                    raise mx.Undecidable('store index %s' % ivars)
                ranges = {e[2]: e[3] for e in events if e[0] == 'loop' and len(e) > 3}

                def leaf(x, D=D):
                    if isinstance(x, mx.Sym) and not x.struct and re.fullmatch(r'[A-Za-z_]\w*', x.text):
                        return Rat.atom(x.text)
                    if isinstance(x, mx.Sym) and x.struct and x.struct[0] == 'index' and mx.show(x.struct[1]) in G:
                        b = mx.show(x.struct[1])
                        comps = x.struct[2] if isinstance(x.struct[2], tuple) else (x.struct[2],)
                        pos = [i_ for i_, c_ in enumerate(comps) if mx.is_full_slice(c_)]
                        if pos == [G.index(b)] and len(comps) == D and all(mx.is_newaxis(c_) for i_, c_ in enumerate(comps) if i_ != pos[0]):
                            return Rat.atom('GRID%d' % G.index(b))
                        return Rat.atom('BADGRID')
                    if isinstance(x, mx.Sym) and x.struct and x.struct[0] == 'binop' and x.struct[1] == '**':
                        return Rat.atom('POW[%s|%s]' % (mx.to_rat(x.struct[2], leaf).canon(), mx.to_rat(x.struct[3], leaf).canon()))
                    c_ = mx.call_of(x, 'comb')
                    if c_ is not None and len(c_[0]) == 2:
                        return Rat.atom('COMB[%s|%s]' % (mx.to_rat(c_[0][0], leaf).canon(), mx.to_rat(c_[0][1], leaf).canon()))
                    return None
                # the chain of integrals, outermost first
                v = stores[0][3]
                dxs = []
                while mx.call_of(v, 'trapz') is not None:
                    c_ = mx.call_of(v, 'trapz')
                    if len(c_[0]) != 1 or set(c_[1]) - {'dx', 'axis'} or c_[1].get('axis', -1) != -1:
                        raise mx.Undecidable('integration call %s' % mx.show(v)[:60])
                    dxs.append(c_[1].get('dx'))
                    v = c_[0][0]
                okdx = len(dxs) == D
                for a, d_ in enumerate(dxs):
                    dc = mx.call_of(d_, 'diff')
                    okdx = okdx and dc is not None and len(dc[0]) == 1 and mx.show(dc[0][0]) == G[a]
                shape = zc[0][0] if zc[0] else zc[1].get('shape')
                okshape = isinstance(shape, (tuple, list)) and len(shape) == D and all(mx.to_rat(s_, leaf).equals(Rat.atom(NS[a]) + Rat.const(1)) for a, s_ in enumerate(shape))
                okr = True
                for a, v_ in enumerate(ivars):
                    rg = mx.call_of(ranges.get(v_), 'range') if ranges.get(v_) is not None else None
                    if rg is None:
                        okr = False
                        continue
                    lo, hi = (0, rg[0][0]) if len(rg[0]) == 1 else (rg[0][0], rg[0][1])
                    okr = okr and len(rg[0]) <= 2 and lo == 0 and mx.to_rat(hi, leaf).equals(Rat.atom(NS[a]) + Rat.const(1))
                got = mx.to_rat(v, leaf)
                ref = Rat.atom('phi')
                freq_ok = []
                for a in range(D):
                    adm = Rat.const(0)
                    for c in range(D):
                        adm = adm + (Rat.atom('P_%d_%d' % (a, c)) if mode == 'matrix' else Rat.const(1 if a == c else 0)) * Rat.atom('GRID%d' % c)
                    n_, i_ = Rat.atom(NS[a]), Rat.atom(ivars[a])
                    ref = ref * Rat.atom('COMB[%s|%s]' % (n_.canon(), i_.canon())) * Rat.atom('POW[%s|%s]' % (adm.canon(), i_.canon())) * Rat.atom('POW[%s|%s]' % ((Rat.const(1) - adm).canon(), (n_ - i_).canon()))
                oki = got.equals(ref)
                kw = {k_: mx.show(x_) for k_, x_ in sp[1].items()}
                okret = kw.get('mask_corners') == 'mask_corners'
                if mode == 'matrix':
                    for r in range(D):
                        rep.ob('R-ALG', '%s %sadmix' % (q, AX[r]), oki, 'integrand %s' % ('is phi times the binomial factors at the admixed frequencies' if oki else got.canon()[:140]), rel, fn.lineno,
                               what='frequency in sampled population %d = sum_c admix_props[%d][c] * grid_c (grid c on axis c)' % (r + 1, r))
                    for a in range(D):
                        rep.ob('R-ALG', '%s factor axis %d' % (q, a + 1), oki and okr, 'index %s over range(0, %s + 1)' % (ivars[a], NS[a]) if okr else 'index %s runs over %s' % (ivars[a], mx.show(ranges.get(ivars[a]))[:40]),
                               rel, fn.lineno, what='binomial factor of axis %d uses its admixed frequency' % (a + 1))
                    rep.ob('R-IDX', '%s store' % q, okshape and okret, 'data[%s] in an array of shape (%s); returned as Spectrum(data, mask_corners=mask_corners): %s' % (', '.join(ivars), ', '.join(mx.show(s_) for s_ in (shape or ())), okret),
                           rel, fn.lineno, what='entry stored at data[i_1..i_D]')
                    rep.ob('R-IDX', '%s integration order' % q, okdx, 'spacings %s' % [mx.show(d_)[:24] for d_ in dxs], rel, fn.lineno, what='axes integrated from the last to the first')
                else:
                    rep.ob('R-DEF', tag, oki and okdx and okr, 'without proportions every sampled population has the frequency of its own axis' if oki else got.canon()[:140], rel, fn.lineno,
                           what='default admix_props is the identity')
            except mx.Undecidable as e:
                rep.ob('R-ALG', tag, False, '%s is not recognised: %s' % (q, e), rel, fn.lineno, what='entry (i_1..i_D) of the result')
            except AlgebraError as e:
                rep.ob('R-ALG', tag, False, 'not evaluable: %s' % e, rel, fn.lineno, what='entry (i_1..i_D) of the result')


def check_inbreeding(rep, prog, m):
    rel = m.rel
    for D in (1, 2, 3):
        q = 'Spectrum._from_phi_%dD_direct_inbreeding' % D
        fn = prog.func(SM, q)
        rep.saw_function(rel + ':' + q)
        sing = {}
        for n in fn.body:
            if isinstance(n, ast.Assign) and isinstance(n.targets[0], ast.Name):
                sing[n.targets[0].id] = n.value
        ns = ['n'] if D == 1 else NS[:D]
        for a in range(D):
            L = AX[a]
            try:
                oka = Translator().tr(sing['alpha' + L]).equals(parse_expr('%s*(1 - F%s)/F%s' % (G[a], L, L))) and Translator().tr(sing['beta' + L]).equals(parse_expr('(1 - %s)*(1 - F%s)/F%s' % (G[a], L, L)))
            except (KeyError, AlgebraError):
                oka = False
            rep.ob('R-ALG', '%s alpha/beta axis %d' % (q, a + 1), oka, 'alpha%s = %s(1-F%s)/F%s, beta%s = (1-%s)(1-F%s)/F%s' % (L, G[a], L, L, L, G[a], L, L), rel, fn.lineno,
                   what='beta-binomial parameters of axis %d use its own grid and inbreeding coefficient' % (a + 1))
            calls = [c for c in ast.walk(fn) if isinstance(c, ast.Call) and dotted(c.func) == 'BetaBinomConvolution' and 'alpha' + L in ast.unparse(c)]
            okc = False
            if calls:
                c = calls[0]
                lv = None
                p = c
                while p is not None:
                    p = getattr(p, '_parent', None)
                    if isinstance(p, ast.For):
                        lv = p.target.id
                        break
                args = [ast.unparse(x) for x in c.args]
                kw = {k.arg: ast.unparse(k.value) for k in c.keywords}
                nind = 'nInd' + (L if D > 1 else '')
                okc = args == [lv, nind, 'alpha%s[j]' % L, 'beta%s[j]' % L] and kw == {'ploidy': 'ploidy' + L}
                # nInd = n / ploidy
                ni = [n for n in ast.walk(fn) if isinstance(n, ast.Assign) and ast.unparse(n.targets[0]) == nind]
                okc = okc and bool(ni) and ast.unparse(ni[0].value) == '%s / ploidy%s' % (ns[a], L)
            rep.ob('R-IDX', '%s convolution axis %d' % (q, a + 1), okc, ast.unparse(calls[0])[:110] if calls else 'not found', rel, calls[0].lineno if calls else fn.lineno,
                   what='BetaBinomConvolution(i, n/ploidy, alpha[j], beta[j], ploidy) with the quantities of axis %d' % (a + 1))


def check_dispatch(rep, prog, m):
    """which implementation from_phi / from_phi_inbreeding select, and with which arguments, for every number of dimensions and
    every combination of options: decided by finite-domain abstract execution (sa/miniexec.py), so that the way the selection is
    written (if/elif chain, table of routines, helper) does not matter"""
    from sa import miniexec as mx
    rel = m.rel
    fp = prog.func(SM, 'Spectrum.from_phi')
    rep.saw_function(rel + ':Spectrum.from_phi')
    generic.rule_name(rep, prog, m, fp)
    generic.rule_def(rep, m, fp)
    generic.rule_sig(rep, prog, m, fp)
    fi = prog.func(SM, 'Spectrum.from_phi_inbreeding')
    generic.rule_name(rep, prog, m, fi)
    generic.rule_def(rep, m, fi)
    known = set(m.funcs)
    from sa import alpha
    table_known = alpha.load_table().get('__params__', {}).get(rel)
    if table_known is not None:
        known = set(table_known)

    def hook(name, args, kwargs):
        if name in ('np.minimum', 'numpy.minimum') and args and isinstance(args[0], mx.Sym):
            return mx.Sym(args[0].text, length=args[0].length)        # clipping keeps the axis order of Fs
        return NotImplemented

    def run(fn, args):
        it = mx.Interp(prog, m, call_hook=hook, known_functions=known)
        return it.run(fn, args)

    def impl_calls(events):
        return [e for e in events if e[0] == 'call' and e[1].startswith('Spectrum._from_phi_')]

    def bound_args(callee_q, ev):
        callee = prog.func(SM, callee_q) if prog.has_func(SM, callee_q) else None
        if callee is None:
            return None
        it = mx.Interp(prog, m)
        it.path = mx.Path([])
        try:
            return {k: mx.show(v) for k, v in it.bind(callee, ev[2], ev[3]).items()}
        except mx.Undecidable:
            return None

    def tail_ok(outcome, events, call_text):
        sets = {e[2]: mx.show(e[3]) for e in events if e[0] == 'setattr' and e[1] == call_text}
        return outcome[0] == 'return' and mx.show(outcome[1]) == call_text and sets.get('pop_ids') == 'pop_ids' and sets.get('extrap_x') == 'xxs[0][1]'

    # ---- from_phi ----
    bad_tail = []
    for d in range(1, 7):
        problems = []
        n_combo = 0
        for het in (None, 'xx'):
            for admix in (False, True):
                for force in (False, True):
                    n_combo += 1
                    args = {'phi': mx.Sym('phi', attrs={'ndim': d}), 'ns': mx.Sym('ns', length=d), 'xxs': mx.Sym('xxs', length=d),
                            'mask_corners': mx.Sym('mask_corners'), 'pop_ids': mx.Sym('pop_ids'),
                            'admix_props': mx.Sym('admix_props', truth=True) if admix else None, 'het_ascertained': het, 'force_direct': force}
                    combo = 'het_ascertained=%r admix_props=%s force_direct=%s' % (het, 'set' if admix else None, force)
                    # the reference semantics (confirmed on the pinned tree)
                    if admix and het:
                        want = ('raise', 'NotImplementedError')
                    elif d == 6:
                        want = ('raise', 'ValueError')
                    elif d == 1:
                        want = ('call', '_from_phi_1D_analytic', None) if (not het and not force) else ('call', '_from_phi_1D_direct', 'het_ascertained')
                    elif not het and not admix and not force:
                        want = ('call', '_from_phi_%dD_linalg' % d, None)
                    elif d == 5:
                        want = ('raise', 'NotImplementedError')
                    elif not admix:
                        want = ('call', '_from_phi_%dD_direct' % d, 'het_ascertained')
                    else:
                        want = ('call', '_from_phi_%dD_admix_props' % d, 'admix_props')
                    for outcome, events, dec in run(fp, args):
                        calls = impl_calls(events)
                        if want[0] == 'raise':
                            if outcome != want or calls:
                                problems.append('%s: expected %s, found %s%s' % (combo, want[1], outcome[0] + ' ' + mx.show(outcome[1]) if outcome[0] != 'raise' else 'raise ' + outcome[1],
                                                                                   ' after calling ' + calls[0][1] if calls else ''))
                            continue
                        if len(calls) != 1 or calls[0][1] != 'Spectrum.' + want[1]:
                            problems.append('%s: expected a call of %s, found %s' % (combo, want[1], [c[1] for c in calls] or outcome))
                            continue
                        b = bound_args(calls[0][1], calls[0])
                        ns_ = ['n'] if d == 1 else NS[:d]
                        exp = {}
                        if b is None:
                            problems.append('%s: the arguments of %s do not bind' % (combo, want[1]))
                            continue
                        for a in range(d):
                            exp[ns_[a] if ns_[a] in b else NS[a]] = 'ns[%d]' % a
                            exp[G[a]] = 'xxs[%d]' % a
                        exp['phi'] = 'phi'
                        exp['mask_corners'] = 'mask_corners'
                        if want[2] == 'het_ascertained':
                            exp['het_ascertained'] = repr(het)
                        elif want[2] == 'admix_props':
                            exp['admix_props'] = 'admix_props'
                        diff = {k: (b.get(k), v) for k, v in exp.items() if b.get(k) != v}
                        if diff:
                            problems.append('%s: %s receives %s' % (combo, want[1], ', '.join('%s=%s (expected %s)' % (k, g, w) for k, (g, w) in sorted(diff.items()))))
                            continue
                        call_text = 'Spectrum.%s(%s)' % (want[1], ', '.join([mx.show(a) for a in calls[0][2]] + ['%s=%s' % (k, mx.show(v)) for k, v in calls[0][3].items()]))
                        if not tail_ok(outcome, events, call_text):
                            bad_tail.append('ndim=%d %s' % (d, combo))
        rep.ob('R-EXH', 'Spectrum.from_phi dimensions ndim=%d' % d, not problems,
               '%d option combinations executed abstractly%s' % (n_combo, '' if not problems else ': ' + '; '.join(problems[:3])), rel, fp.lineno,
               what='every (dimension, options) combination selects the implementation of that dimension and forwards ns[k], xxs[k], phi, mask_corners and the option in axis order, or raises' if d <= 5
               else 'more than five dimensions are refused')
    rep.ob('R-FLOW', 'Spectrum.from_phi labels', not bad_tail, 'pop_ids and extrap_x = xxs[0][1] set on the result before it is returned%s' % ('' if not bad_tail else ': not for ' + '; '.join(bad_tail[:3])),
           rel, fp.lineno, what='extrap_x and labels recorded on the returning path')

    # ---- from_phi_inbreeding ----
    bad_tail = []
    deleg_bad = []
    for d in range(1, 5):
        problems = []
        for het in (None, 'xx'):
            for admix in (False, True):
                args = {'phi': mx.Sym('phi', attrs={'ndim': d}), 'ns': mx.Sym('ns', length=d), 'xxs': mx.Sym('xxs', length=d), 'Fs': mx.Sym('Fs', length=d),
                        'ploidys': mx.Sym('ploidys', length=d), 'mask_corners': mx.Sym('mask_corners'), 'pop_ids': mx.Sym('pop_ids'),
                        'admix_props': mx.Sym('admix_props', truth=True) if admix else None, 'het_ascertained': het, 'force_direct': mx.Sym('force_direct')}
                combo = 'het_ascertained=%r admix_props=%s' % (het, 'set' if admix else None)
                for outcome, events, dec in run(fi, args):
                    deleg = [e for e in events if e[0] == 'call' and e[1] == 'Spectrum.from_phi']
                    calls = impl_calls(events)
                    if deleg:
                        # the F == 0 path: everything forwarded
                        b = bound_args('Spectrum.from_phi', deleg[0])
                        expd = {'phi': 'phi', 'ns': 'ns', 'xxs': 'xxs', 'mask_corners': 'mask_corners', 'pop_ids': 'pop_ids', 'admix_props': 'admix_props' if admix else 'None',
                                'het_ascertained': repr(het), 'force_direct': 'force_direct'}
                        if b != expd or calls or outcome[0] != 'return' or not mx.show(outcome[1]).startswith('Spectrum.from_phi('):
                            deleg_bad.append('ndim=%d %s: %s' % (d, combo, b))
                        continue
                    if admix and het:
                        want = ('raise', 'NotImplementedError')
                    elif d == 4:
                        want = ('raise', 'ValueError')
                    else:
                        want = ('call', '_from_phi_%dD_direct_inbreeding' % d)
                    if want[0] == 'raise':
                        if outcome != want or calls:
                            problems.append('%s: expected %s, found %s' % (combo, want[1], outcome))
                        continue
                    if len(calls) != 1 or calls[0][1] != 'Spectrum.' + want[1]:
                        problems.append('%s: expected a call of %s, found %s' % (combo, want[1], [c[1] for c in calls] or outcome))
                        continue
                    b = bound_args(calls[0][1], calls[0])
                    if b is None:
                        problems.append('%s: the arguments of %s do not bind' % (combo, want[1]))
                        continue
                    ns_ = ['n'] if d == 1 else NS[:d]
                    exp = {'phi': 'phi', 'mask_corners': 'mask_corners', 'het_ascertained': repr(het)}
                    for a in range(d):
                        exp[ns_[a] if ns_[a] in b else NS[a]] = 'ns[%d]' % a
                        exp[G[a]] = 'xxs[%d]' % a
                        fk = 'F' + AX[a] if 'F' + AX[a] in b else 'F'
                        pk = 'ploidy' + AX[a] if 'ploidy' + AX[a] in b else 'ploidy'
                        exp[fk] = 'Fs[%d]' % a
                        exp[pk] = 'ploidys[%d]' % a
                    diff = {k: (b.get(k), v) for k, v in exp.items() if b.get(k) != v}
                    if diff:
                        problems.append('%s: %s receives %s' % (combo, want[1], ', '.join('%s=%s (expected %s)' % (k, g, w) for k, (g, w) in sorted(diff.items()))))
                        continue
                    call_text = 'Spectrum.%s(%s)' % (want[1], ', '.join([mx.show(a) for a in calls[0][2]] + ['%s=%s' % (k, mx.show(v)) for k, v in calls[0][3].items()]))
                    if not tail_ok(outcome, events, call_text):
                        bad_tail.append('ndim=%d %s' % (d, combo))
        rep.ob('R-EXH', 'Spectrum.from_phi_inbreeding dimensions ndim=%d' % d, not problems,
               'option combinations executed abstractly%s' % ('' if not problems else ': ' + '; '.join(problems[:3])), rel, fi.lineno,
               what='sizes ns[k], grids xxs[k], Fs[k] and ploidys[k] forwarded in axis order to the implementation of that dimension' if d <= 3 else 'more than three dimensions are refused')
    rep.ob('R-FLOW', 'Spectrum.from_phi_inbreeding labels', not bad_tail, 'pop_ids and extrap_x = xxs[0][1] set on the result before it is returned%s' % ('' if not bad_tail else ': not for ' + '; '.join(bad_tail[:3])),
           rel, fi.lineno, what='extrap_x and labels recorded on the returning path')
    rep.ob('R-DOM', 'from_phi_inbreeding F=0', not deleg_bad, 'all F == 0 delegates to from_phi with all options forwarded%s' % ('' if not deleg_bad else ': ' + deleg_bad[0]), rel, fi.lineno,
           what='F -> 0 reduces to plain sampling')
    # the F == 0 test itself
    okz = 'np.all(np.asarray(Fs) == 0)' in ast.unparse(fi) or 'numpy.all(numpy.asarray(Fs) == 0)' in ast.unparse(fi)
    rep.ob('R-DOM', 'from_phi_inbreeding F=0 test', okz, 'delegation is taken exactly when every F is 0', rel, fi.lineno, what='F -> 0 reduces to plain sampling')


def reaching_values(fn, node, name):
    """values assigned to `name` that can reach `node`: the nearest preceding statement(s) that bind it, looking backwards
    through the enclosing blocks (a compound statement that binds the name on some path contributes all its bindings)"""
    def binds(st):
        out = []
        for n in ast.walk(st):
            if isinstance(n, ast.Assign):
                for t in n.targets:
                    for x in ([t] if not isinstance(t, (ast.Tuple, ast.List)) else t.elts):
                        if isinstance(x, ast.Name) and x.id == name:
                            out.append(n.value if not isinstance(t, (ast.Tuple, ast.List)) else None)
            elif isinstance(n, (ast.For, ast.comprehension)) and any(isinstance(x, ast.Name) and x.id == name for x in ast.walk(n.target)):
                out.append(None)
        return out
    child = node
    par = getattr(node, '_parent', None)
    while par is not None:
        for fld in ('body', 'orelse', 'finalbody'):
            blk = getattr(par, fld, None)
            if isinstance(blk, list) and child in blk:
                i = blk.index(child)
                for st in reversed(blk[:i]):
                    b = binds(st)
                    if b:
                        return b
        if par is fn:
            break
        child, par = par, getattr(par, '_parent', None)
    return ['param'] if name in func_params(fn) else []


def check_inplace_fresh(rep, prog, m):
    """an array that is updated in place (factor *= x(1-x) for het_ascertained, data[...] = ...) must be the function's own
    fresh array on every path: an alias of a cached factor or of an argument would be modified for its other users"""
    for q, fn in sorted(m.funcs.items()):
        if 'from_phi' not in q:
            continue
        sites = []
        for n in own_nodes(fn):
            if isinstance(n, ast.AugAssign) and isinstance(n.target, ast.Name):
                sites.append((n, n.target.id))
            elif isinstance(n, ast.AugAssign) and isinstance(n.target, ast.Subscript) and isinstance(n.target.value, ast.Name):
                sites.append((n, n.target.value.id))
        bad = []
        for n, name in sites:
            vals = reaching_values(fn, n, name)
            for v in vals:
                fresh = isinstance(v, (ast.BinOp, ast.UnaryOp, ast.Constant, ast.ListComp, ast.List)) or \
                    (isinstance(v, ast.Call) and not (isinstance(v.func, ast.Attribute) and v.func.attr in ('get', 'setdefault', 'view', 'reshape', 'ravel', 'swapaxes', 'transpose')))
                if not fresh:
                    bad.append('`%s` (line %d) updates `%s`, which may be %s' % (ast.unparse(n)[:50], n.lineno, name,
                                                                                  'an argument' if v == 'param' else 'bound by unpacking / iteration' if v is None else 'the alias `%s`' % ast.unparse(v)[:40]))
        if sites:
            rep.ob('R-FRESH', 'Spectrum_mod:%s in-place updates' % q.split('.')[-1], not bad, '; '.join(bad) if bad else '%d in-place updates, all on fresh arrays of this call' % len(sites), m.rel, fn.lineno,
                   what='arrays updated in place are fresh on every path (no cached factor or argument is modified)')


def check_partition_recursion(rep, prog):
    """R-REC: Numerics.part enumerates the genotype-count partitions behind BetaBinomConvolution (inbreeding sampling, any ploidy).
    Its bounds travel down the recursion as arguments: a self-call that omits a parameter which has a default silently falls back
    to the default at every deeper level (maxval=2, i.e. diploid), whatever the caller asked for.  Rule: in a self-recursive
    function every parameter with a default is passed explicitly at each self-call, and the bound parameters (those compared with
    the running total in the guard) are forwarded unchanged or as the loop value."""
    nm = prog.mod('dadi.Numerics')
    fn = nm.funcs.get('part')
    if fn is None:
        raise AnalysisError('Numerics.part not found')
    rep.saw_function(nm.rel + ':part')
    params = [a.arg for a in fn.args.args]
    ndef = len(fn.args.defaults)
    defaulted = params[len(params) - ndef:] if ndef else []
    calls = [c for c in own_nodes(fn) if isinstance(c, ast.Call) and isinstance(c.func, ast.Name) and c.func.id == fn.name]
    if not calls:
        rep.ob('R-REC', 'Numerics.part recursion', False, 'self-call not found', nm.rel, fn.lineno, what='bounds are forwarded down the recursion')
        return
    for c in calls:
        given = set(params[:len(c.args)]) | {k.arg for k in c.keywords if k.arg}
        star = any(isinstance(a, ast.Starred) for a in c.args) or any(k.arg is None for k in c.keywords)
        missing = [p_ for p_ in defaulted if p_ not in given]
        ok = star or not missing
        det = 'self-call `%s`' % ast.unparse(c)
        if not ok:
            det += ' omits %s: deeper levels use the default (%s) instead of the caller\'s value' % (
                ', '.join(missing), ', '.join('%s=%s' % (p_, ast.unparse(fn.args.defaults[defaulted.index(p_)])) for p_ in missing))
        else:
            # the upper bound must reach the callee unchanged
            bound = dict(zip(params, c.args))
            bound.update({k.arg: k.value for k in c.keywords if k.arg})
            if 'maxval' in bound and ast.unparse(bound['maxval']) != 'maxval':
                ok, det = False, det + ' passes `%s` as maxval: the upper bound changes down the recursion' % ast.unparse(bound['maxval'])
        rep.ob('R-REC', 'Numerics.part recursion', ok, det, nm.rel, c.lineno, what='every defaulted parameter (the bounds minval/maxval) is forwarded at each self-call')


def run(rep, prog, tier):
    m = prog.mod(SM)
    rep.saw_file(m.rel)
    check_analytic(rep, prog, m)
    check_direct(rep, prog, m)
    check_admix(rep, prog, m)
    check_inbreeding(rep, prog, m)
    # memo tables on the inbreeding sampling path: the key must determine the cached value (rule shared with C20)
    for q, cache in (('BetaBinomln', '_BetaBinomln_cache'), ('multinomln', '_multinomln_cache'), ('cached_part', '_part_cache'), ('cached_part_precalc', '_part_precalc_cache')):
        c20.rule_key_full(rep, prog, 'dadi.Numerics', q, cache)
    check_partition_recursion(rep, prog)
    check_dispatch(rep, prog, m)
    check_inplace_fresh(rep, prog, m)
    # sampling is a linear functional of the density: no clamp, absolute value, threshold, product of two density terms ...
    from sa.linear import rule_lin
    for q, fn in sorted(m.funcs.items()):
        if 'from_phi' in q and 'phi' in func_params(fn):
            rule_lin(rep, m, fn, {'phi'}, prog=prog, what='the spectrum is a linear function of the density')
            generic.rule_dtype(rep, m, fn, 'the spectrum is accumulated in float64 whatever array type carries the density (an integer-valued phi must not truncate the result)')
    rep.floor('R-ALG', 35)
    rep.floor('R-IDX', 40)
