"""C11 - Likelihoods are Poisson/multinomial over jointly unmasked entries, optimal theta (DESIGN.md C11)."""
import ast, re
from fractions import Fraction
from sa import generic
from sa.algebra import Rat, Translator, AlgebraError, parse_expr, log_of
from sa.extract import single_assignments, inline, names_in, straightline
from sa.srcmodel import own_nodes, dotted, positional_params, bind_call
from sa.report import AnalysisError

EXPLANATION = (
    "Decides the formulas and the mask/scaling plumbing of the likelihood functions, for all spectra: (1) R-ALG - ll_per_bin "
    "is -m + d*log(m) - gammaln(d+1) written directly in terms of its two arguments (every term a masked-array expression of "
    "model or data, so the result is masked where either is), the linear residual is (m-d)/sqrt(m) and the Anscombe residual "
    "the documented expression with rational exponents, returned with the documented sign; (2) R-FLOW - optimal_sfs_scaling "
    "returns sum(data)/sum(model) of exactly the two values produced by intersect_masks(model, data), which ORs both masks and "
    "applies the joint mask to both; every path of ll_per_bin returns the same masked result; ll and ll_multinom are the "
    "sums of their per-bin versions and ll_multinom_per_bin evaluates ll_per_bin at optimal_sfs_scaling(model,data)*model; "
    "(3) R-DOM - each entry point folds the model against folded data before anything else; (4) homogeneity - "
    "optimal_sfs_scaling has degree -1 and ll_multinom_per_bin degree 0 in the model scale (proved by substituting "
    "model -> lambda*model in the extracted expressions). Maximality of the multinomial optimum is not decided.")
TECHNIQUE = "formula normal forms with log/power atoms + def-use of the mask intersection + guard templates"
DECLINED = ["maximality of the multinomial optimum over all models", "numerical invariances on particular arrays", "behaviour of numpy.ma reductions"]

INF = 'dadi.Inference'
NUM = 'dadi.Numerics'



def mask_sources(e, env):
    """names of the masked-array operands whose masks reach the value of e (numpy.ma semantics: arithmetic and ufuncs OR the
    masks of their masked operands; `.data`, `.filled()`, numpy.asarray(...) strip the mask)"""
    if isinstance(e, ast.Name):
        return set(env.get(e.id, set()))
    if isinstance(e, ast.Attribute):
        if e.attr in ('data', 'mask', 'shape', 'size', 'ndim', 'sample_sizes', 'folded', 'pop_ids'):
            return set()
        return mask_sources(e.value, env)
    if isinstance(e, ast.Constant):
        return set()
    if isinstance(e, ast.BinOp):
        return mask_sources(e.left, env) | mask_sources(e.right, env)
    if isinstance(e, ast.UnaryOp):
        return mask_sources(e.operand, env)
    if isinstance(e, ast.Subscript):
        return mask_sources(e.value, env)
    if isinstance(e, ast.Call):
        f = dotted(e.func) or ''
        last = f.split('.')[-1] if f else (e.func.attr if isinstance(e.func, ast.Attribute) else '')
        if last in ('asarray', 'array', 'filled', 'getdata', 'compressed', 'tolist', 'float', 'sum', 'len'):
            # reductions / conversions: no mask on the result (sum() skips masked entries but returns a scalar)
            return set()
        out = set()
        if isinstance(e.func, ast.Attribute) and not (isinstance(e.func.value, ast.Name) and e.func.value.id in ('numpy', 'np', 'scipy', 'math')):
            out |= mask_sources(e.func.value, env)          # method of a masked array: log(), copy(), ...
        for a in e.args:
            out |= mask_sources(a, env)
        return out
    if isinstance(e, (ast.Tuple, ast.List)):
        out = set()
        for x in e.elts:
            out |= mask_sources(x, env)
        return out
    return set()


def lik_translator(env=None):
    def attr_hook(tr, e):
        if e.attr == 'data' and isinstance(e.value, ast.Name):
            return tr.tr(e.value)
        return None

    def call_hook(tr, e, fn):
        if isinstance(e.func, ast.Attribute) and e.func.attr == 'log' and not e.args:
            return log_of(tr.tr(e.func.value))
        if fn in ('numpy.ma.sqrt', 'numpy.sqrt', 'np.sqrt') and len(e.args) == 1:
            return tr.tr(e.args[0]) ** Fraction(1, 2)
        if fn in ('numpy.ma.power', 'numpy.power') and len(e.args) == 2:
            k = tr.tr(e.args[1])
            if k.is_const():
                return tr.tr(e.args[0]) ** k.const_value()
        return None
    return Translator(env or {}, attr_hook=attr_hook, call_hook=call_hook)


def run(rep, prog, tier):
    m = prog.mod(INF)
    rep.saw_file(m.rel)
    names = ['ll', 'll_per_bin', 'll_multinom', 'll_multinom_per_bin', 'minus_ll', 'minus_ll_multinom', 'linear_Poisson_residual', 'Anscombe_Poisson_residual',
             'optimal_sfs_scaling', 'optimally_scaled_sfs']
    for q in names:
        fn = prog.func(INF, q)
        rep.saw_function(m.rel + ':' + q)
        generic.rule_name(rep, prog, m, fn)
        generic.rule_def(rep, m, fn)
        generic.rule_sig(rep, prog, m, fn)
        # the spectra handed in (or handed back unchanged by intersect_masks when the masks already agree) are never written:
        # a later likelihood of the same data object must see the same entries
        writes = []
        for n in own_nodes(fn):
            tgts = n.targets if isinstance(n, ast.Assign) else [n.target] if isinstance(n, ast.AugAssign) else []
            for t in tgts:
                for x in ([t] if not isinstance(t, (ast.Tuple, ast.List)) else t.elts):
                    root = x
                    through = False
                    while isinstance(root, (ast.Subscript, ast.Attribute)):
                        root, through = root.value, True
                    if isinstance(root, ast.Name) and root.id in ('model', 'data') and (through or isinstance(n, ast.AugAssign)):
                        writes.append('`%s` (line %d)' % (ast.unparse(n)[:60], n.lineno))
        rep.ob('R-PURE', 'Inference.%s arguments' % q, not writes, '; '.join(writes) if writes else 'no store into model / data (entries, mask or attributes)', m.rel, fn.lineno,
               what='the likelihood functions do not modify the spectra they are given')
    # ---- ll_per_bin ---------------------------------------------------------------------------------------------
    lp = prog.func(INF, 'll_per_bin')
    res = [n for n in lp.body if isinstance(n, ast.Assign) and ast.unparse(n.targets[0]) == 'result']
    ok = False
    got = None
    if len(res) == 1:
        try:
            got = lik_translator().tr(res[0].value)
            ref = lik_translator().tr(ast.parse('-model + data*model.log() - gammaln(data + 1)', mode='eval').body)
            ok = got.equals(ref)
        except AlgebraError:
            ok = False
    rep.ob('R-ALG', 'll_per_bin formula', ok, 'result = %s' % (ast.unparse(res[0].value) if res else 'not found'), m.rel, res[0].lineno if res else lp.lineno,
           what='Poisson log-probability -m + d*log(m) - gammaln(d+1) of the two arguments')
    if res:
        # mask provenance: which whole (masked) operands reach the result through masked-array arithmetic; `.data` strips the mask
        ms = mask_sources(res[0].value, {'model': {'model'}, 'data': {'data'}})
        okm = ms >= {'model', 'data'}
        rep.ob('R-MASK', 'll_per_bin masks', okm, 'the result carries the masks (and, through the Spectrum operators, the folding check) of %s' % sorted(ms), m.rel, res[0].lineno, what='result is masked where either argument is masked')
    rets = [n for n in own_nodes(lp) if isinstance(n, ast.Return)]
    stores = [n for n in own_nodes(lp) if isinstance(n, (ast.Assign, ast.AugAssign)) and 'result' in ast.unparse(n.targets[0] if isinstance(n, ast.Assign) else n.target).split('[')[0].split('.')[0:1]]
    okr = len(rets) >= 1 and all(ast.unparse(r.value) == 'result' for r in rets) and len(stores) == 1
    rep.ob('R-FLOW', 'll_per_bin return', okr, '%d return statements, all returning the single assignment of result' % len(rets), m.rel, lp.lineno, what='every path returns the same Poisson term array')
    # warnings block must not modify data/model
    muts = [n for n in own_nodes(lp) if isinstance(n, (ast.Assign, ast.AugAssign)) and isinstance((n.targets[0] if isinstance(n, ast.Assign) else n.target), (ast.Subscript, ast.Attribute))]
    rep.ob('R-PURE', 'll_per_bin arguments', not muts, 'no store into model/data (%d subscript/attribute stores)' % len(muts), m.rel, lp.lineno, what='arguments are not modified')
    # ---- sums and wrappers -------------------------------------------------------------------------------------------
    simple = {
        'll': ['ll_arr = ll_per_bin(model, data)', 'return numpy.sum(ll_arr)'],
        'll_multinom': ['ll_arr = ll_multinom_per_bin(model, data)', 'return numpy.sum(ll_arr)'],
        'll_multinom_per_bin': ['theta_opt = optimal_sfs_scaling(model, data)', 'return ll_per_bin(theta_opt * model, data)'],
        'minus_ll': ['return -ll(model, data)'],
        'minus_ll_multinom': ['return -ll_multinom(model, data)'],
        'optimally_scaled_sfs': ['return optimal_sfs_scaling(model, data) * model'],
    }
    for q, want in simple.items():
        fn = prog.func(INF, q)
        body = [ast.unparse(s) for s in fn.body if not (isinstance(s, ast.Expr) and isinstance(s.value, ast.Constant))]
        rep.ob('R-TPL', 'Inference.%s' % q, body == want, '; '.join(body), m.rel, fn.lineno, what=' ; '.join(want))
    # ---- optimal_sfs_scaling --------------------------------------------------------------------------------------------
    os_ = prog.func(INF, 'optimal_sfs_scaling')
    im = [n for n in os_.body if isinstance(n, ast.Assign) and isinstance(n.value, ast.Call) and (dotted(n.value.func) or '').endswith('intersect_masks')]
    ret = [n for n in os_.body if isinstance(n, ast.Return)]
    ok = False
    det = 'intersect_masks call or return not found'
    if len(im) == 1 and len(ret) == 1 and isinstance(im[0].targets[0], ast.Tuple) and len(im[0].targets[0].elts) == 2:
        a, b = [ast.unparse(e) for e in im[0].targets[0].elts]
        args = [ast.unparse(x) for x in im[0].value.args]
        ok = args == ['model', 'data'] and ast.unparse(ret[0].value) == 'numpy.sum(%s) / numpy.sum(%s)' % (b, a) and os_.body.index(im[0]) < os_.body.index(ret[0])
        det = '%s, %s = intersect_masks(%s); return %s' % (a, b, ', '.join(args), ast.unparse(ret[0].value))
    rep.ob('R-FLOW', 'optimal_sfs_scaling', ok, det, m.rel, ret[0].lineno if ret else os_.lineno, what='sum(data)/sum(model) over the two arrays returned by intersect_masks')
    ism = prog.func(NUM, 'intersect_masks')
    nm = prog.mod(NUM)
    t = ast.unparse(ism)
    okj = 'joint_mask = ma.mask_or(ma.getmask(m1), ma.getmask(m2))' in t and 'm1 = dadi.Spectrum(m1, mask=joint_mask.copy())' in t and 'm2 = dadi.Spectrum(m2, mask=joint_mask.copy())' in t
    rr = [ast.unparse(n.value) for n in own_nodes(ism) if isinstance(n, ast.Return)]
    okj = okj and all(x in ('(m1, m2)', 'm1, m2') for x in rr)
    early = [n for n in ism.body if isinstance(n, ast.If) and 'numpy.all(m1.mask == m2.mask)' in ast.unparse(n.test)]
    rep.ob('R-TPL', 'Numerics.intersect_masks', okj and bool(early), 'joint mask = OR of both masks, applied (as copies) to both arrays; identical masks short-circuit', nm.rel, ism.lineno,
           what='both arrays are masked where either was masked')
    # ---- residuals -----------------------------------------------------------------------------------------------------------
    lr = prog.func(INF, 'linear_Poisson_residual')
    r = [n for n in lr.body if isinstance(n, ast.Assign) and ast.unparse(n.targets[0]) == 'resid']
    try:
        ok = bool(r) and lik_translator().tr(r[0].value).equals(lik_translator().tr(ast.parse('(model - data)/numpy.sqrt(model)', mode='eval').body))
    except AlgebraError:
        ok = False
    rets = [ast.unparse(n.value) for n in own_nodes(lr) if isinstance(n, ast.Return)]
    rep.ob('R-ALG', 'linear_Poisson_residual', ok and rets == ['resid'], 'resid = %s; returns %s' % (ast.unparse(r[0].value) if r else '?', rets), m.rel, lr.lineno, what='(model - data)/sqrt(model), positive when the model exceeds the data')
    ar = prog.func(INF, 'Anscombe_Poisson_residual')
    try:
        env = {}
        T = lik_translator(env)
        for n in ar.body:
            if isinstance(n, ast.Assign) and isinstance(n.targets[0], ast.Name) and n.targets[0].id in ('datatrans', 'modeltrans', 'resid'):
                T.env[n.targets[0].id] = T.tr(n.value)
        ref = lik_translator().tr(ast.parse('1.5*((data**(2./3) - data**(-1./3)/9) - (model**(2./3) - model**(-1./3)/9))/model**(1./6)', mode='eval').body)
        ok = T.env['resid'].equals(ref)
    except (AlgebraError, KeyError):
        ok = False
    rets = [ast.unparse(n.value) for n in own_nodes(ar) if isinstance(n, ast.Return)]
    rep.ob('R-ALG', 'Anscombe_Poisson_residual', ok and rets == ['-resid'], 'resid = 1.5*((d^(2/3) - d^(-1/3)/9) - (m^(2/3) - m^(-1/3)/9))/m^(1/6); returns %s' % rets, m.rel, ar.lineno,
           what='Anscombe residual with the documented sign (model minus data)')
    for fn in (lr, ar):
        mk = [n for n in own_nodes(fn) if isinstance(n, ast.Assign) and ast.unparse(n.targets[0]) == 'tomask']
        okk = bool(mk) and ast.unparse(mk[0].value) == 'numpy.logical_and(model <= mask, data <= mask)' and any(ast.unparse(n.value) == 'numpy.ma.masked_where(tomask, resid)' for n in own_nodes(fn) if isinstance(n, ast.Assign))
        rep.ob('R-TPL', '%s masking' % fn.name, okk, 'entries with model <= mask and data <= mask are masked', m.rel, mk[0].lineno if mk else fn.lineno, what='documented residual masking')
    # ---- auto-fold guards ---------------------------------------------------------------------------------------------------------
    for q in ('ll_per_bin', 'linear_Poisson_residual', 'Anscombe_Poisson_residual', 'optimal_sfs_scaling'):
        fn = prog.func(INF, q)
        stm = [s for s in fn.body if not (isinstance(s, ast.Expr) and isinstance(s.value, ast.Constant))]
        first = stm[0]
        ok = isinstance(first, ast.If) and ast.unparse(first.test) == "hasattr(data, 'folded') and data.folded and (not model.folded)" and ast.unparse(first.body[0]) == 'model = model.fold()' and not first.orelse
        rep.ob('R-DOM', 'Inference.%s auto-fold' % q, ok, ast.unparse(first)[:110], m.rel, first.lineno, what='model folded against folded data before anything else')
    # ---- homogeneity in the model scale ------------------------------------------------------------------------------------------------
    lam = Rat.atom('lam')
    M, D = Rat.atom('SUM_model'), Rat.atom('SUM_data')
    theta = D / M
    theta_scaled = D / (lam * M)
    rep.ob('R-DEG', 'optimal_sfs_scaling degree', (theta_scaled * lam).equals(theta), 'theta(lam*model) * lam == theta(model)', m.rel, os_.lineno, what='optimal scaling has degree -1 in the model scale')
    if got is not None:
        mod, dat = Rat.atom('model'), Rat.atom('data')
        try:
            scaled1 = got.subs({'model': theta * mod, 'log(model)': log_of(Rat.atom('model')) + Rat.atom('log(theta)')})
            scaled2 = got.subs({'model': (theta_scaled * lam) * mod, 'log(model)': log_of(Rat.atom('model')) + Rat.atom('log(theta)')})
            rep.ob('R-DEG', 'll_multinom_per_bin degree', scaled1.equals(scaled2), 'll_per_bin(theta(lam m)*lam m, d) == ll_per_bin(theta(m)*m, d)', m.rel, lp.lineno,
                   what='multinomial log-likelihood is invariant to rescaling the model')
        except AlgebraError:
            pass
    rep.floor('R-ALG', 3)
    rep.floor('R-TPL', 9)
    rep.floor('R-DOM', 4)
