"""C11 - Likelihoods are Poisson/multinomial over jointly unmasked entries, optimal theta (DESIGN.md C11)."""
import ast, re
from fractions import Fraction
from sa import generic
from sa.algebra import Rat, Translator, AlgebraError, parse_expr, log_of
from sa.extract import single_assignments, inline, names_in, straightline
from sa.srcmodel import own_nodes, dotted, positional_params, bind_call
from sa.report import AnalysisError

EXPLANATION = (
    "Decides the formulas and the mask/scaling plumbing of the likelihood functions, for all spectra: (1) R-ALG - ll_per_bin "
    "is -m + d*log(m) - gammaln(d+1) written directly in terms of its two arguments (every term a masked-array expression of "
    "model or data, so the result is masked where either is), the linear residual is (m-d)/sqrt(m) and the Anscombe residual "
    "the documented expression with rational exponents, returned with the documented sign; (2) R-FLOW - optimal_sfs_scaling "
    "returns sum(data)/sum(model) of exactly the two values produced by intersect_masks(model, data), which ORs both masks and "
    "applies the joint mask to both; every path of ll_per_bin returns the same masked result; ll and ll_multinom are the "
    "sums of their per-bin versions and ll_multinom_per_bin evaluates ll_per_bin at optimal_sfs_scaling(model,data)*model; "
    "(3) R-DOM - each entry point folds the model against folded data before anything else; (4) homogeneity - "
    "optimal_sfs_scaling has degree -1 and ll_multinom_per_bin degree 0 in the model scale (proved by substituting "
    "model -> lambda*model in the extracted expressions). Maximality of the multinomial optimum is not decided.")
TECHNIQUE = "formula normal forms with log/power atoms + def-use of the mask intersection + guard templates"
DECLINED = ["maximality of the multinomial optimum over all models", "numerical invariances on particular arrays", "behaviour of numpy.ma reductions"]

INF = 'dadi.Inference'
NUM = 'dadi.Numerics'



def mask_sources(e, env):
    """names of the masked-array operands whose masks reach the value of e (numpy.ma semantics: arithmetic and ufuncs OR the
    masks of their masked operands; `.data`, `.filled()`, numpy.asarray(...) strip the mask)"""
    if isinstance(e, ast.Name):
        return set(env.get(e.id, set()))
    if isinstance(e, ast.Attribute):
        if e.attr in ('data', 'mask', 'shape', 'size', 'ndim', 'sample_sizes', 'folded', 'pop_ids'):
            return set()
        return mask_sources(e.value, env)
    if isinstance(e, ast.Constant):
        return set()
    if isinstance(e, ast.BinOp):
        return mask_sources(e.left, env) | mask_sources(e.right, env)
    if isinstance(e, ast.UnaryOp):
        return mask_sources(e.operand, env)
    if isinstance(e, ast.Subscript):
        return mask_sources(e.value, env)
    if isinstance(e, ast.Call):
        f = dotted(e.func) or ''
        last = f.split('.')[-1] if f else (e.func.attr if isinstance(e.func, ast.Attribute) else '')
        if last in ('asarray', 'array', 'filled', 'getdata', 'compressed', 'tolist', 'float', 'sum', 'len'):
            # reductions / conversions: no mask on the result (sum() skips masked entries but returns a scalar)
            return set()
        out = set()
        if isinstance(e.func, ast.Attribute) and not (isinstance(e.func.value, ast.Name) and e.func.value.id in ('numpy', 'np', 'scipy', 'math')):
            out |= mask_sources(e.func.value, env)          # method of a masked array: log(), copy(), ...
        for a in e.args:
            out |= mask_sources(a, env)
        return out
    if isinstance(e, (ast.Tuple, ast.List)):
        out = set()
        for x in e.elts:
            out |= mask_sources(x, env)
        return out
    return set()


def lik_translator(env=None):
    def attr_hook(tr, e):
        if e.attr == 'data' and isinstance(e.value, ast.Name):
            return tr.tr(e.value)
        return None

    def call_hook(tr, e, fn):
        if isinstance(e.func, ast.Attribute) and e.func.attr == 'log' and not e.args:
            return log_of(tr.tr(e.func.value))
        if fn in ('numpy.ma.sqrt', 'numpy.sqrt', 'np.sqrt') and len(e.args) == 1:
            return tr.tr(e.args[0]) ** Fraction(1, 2)
        if fn in ('numpy.ma.power', 'numpy.power') and len(e.args) == 2:
            k = tr.tr(e.args[1])
            if k.is_const():
                return tr.tr(e.args[0]) ** k.const_value()
        return None
    return Translator(env or {}, attr_hook=attr_hook, call_hook=call_hook)


def autofold_by_value(prog, q):
    """the automatic folding of the model, decided on the six worlds (data without a `folded` attribute / unfolded / folded) x (model
    unfolded / folded) by abstract execution: `model.fold()` is called exactly when the data are folded and the model is not, before
    the model is used for anything else, and nothing computed afterwards reads the unfolded model.  -> (ok, detail, line)"""
    from sa import miniexec as mx
    m = prog.mod(INF)
    fn = prog.func(INF, q)
    bad, unrec = [], []
    holder = {}
    names = [a.arg for a in fn.args.args]
    for df in (None, False, True):
        for mf in (False, True):
            tag = 'data %s, model %s' % ('without the attribute' if df is None else ('folded' if df else 'unfolded'), 'folded' if mf else 'unfolded')
            dattrs = {'folded_ancestral': False, 'folded_major': False}
            if df is not None:
                dattrs['folded'] = df
            data = mx.Sym('data', attrs=dattrs)
            model = mx.Sym('model', attrs={'folded': mf, 'folded_ancestral': False, 'folded_major': False})

            def hook(nm, args, kwargs):
                if nm == 'hasattr' and len(args) == 2 and isinstance(args[0], mx.Sym) and isinstance(args[1], str) and args[0].text in ('data', 'model'):
                    return args[1] in args[0].attrs
                if nm == 'getattr' and len(args) in (2, 3) and isinstance(args[0], mx.Sym) and isinstance(args[1], str) and args[0].text in ('data', 'model'):
                    if args[1] in args[0].attrs:
                        return args[0].attrs[args[1]]
                    if len(args) == 3:
                        return args[2]
                    return mx.Sym('%s.%s' % (args[0].text, args[1]))      # a method looked up by name
                if nm == 'model.fold' and not args:
                    holder['it'].path.events.append(('call', 'model.fold', (), {}))
                    return mx.Sym('model.fold()', attrs={'folded': True, 'folded_ancestral': False, 'folded_major': False})
                return NotImplemented
            it = mx.Interp(prog, m, call_hook=hook, symbolic_loops=True)
            holder['it'] = it
            args = {'model': model, 'data': data}
            for n in names[2:]:
                args[n] = mx.Sym(n)
            try:
                paths = it.run(fn, args)
            except mx.Undecidable as e:
                unrec.append('%s: %s' % (tag, e))
                continue
            want = bool(df) and not mf
            for outcome, events, _dec in paths:
                folds = [i for i, e in enumerate(events) if e[0] == 'call' and e[1] == 'model.fold']
                if bool(folds) != want:
                    bad.append('%s: the model is %s' % (tag, 'folded' if folds else 'not folded'))
                    break
                if want:
                    # nothing before the fold uses the model, nothing after it reads the unfolded model
                    before = [e for e in events[:folds[0]] if e[0] == 'call' and any('model' in mx.show(a) for a in list(e[2]) + list(e[3].values()))]
                    after_txt = ' '.join(mx.show(x) for e in events[folds[0] + 1:] for x in (list(e[2]) + list(e[3].values()) if e[0] == 'call' else list(e[1:]))) + ' ' + (mx.show(outcome[1]) if outcome[0] == 'return' else '')
                    stale = re.search(r'(?<![\w.])model(?!\.fold\(\))(?![\w])', after_txt.replace('model.fold()', 'MF'))
                    if before:
                        bad.append('%s: %s is evaluated on the unfolded model before the fold' % (tag, before[0][1]))
                        break
                    if stale:
                        bad.append('%s: the unfolded model is still read after the fold' % tag)
                        break
    if bad:
        return False, '; '.join(bad)[:300], fn.lineno
    if unrec:
        return False, 'not recognised: ' + '; '.join(unrec)[:300], fn.lineno
    return True, 'model.fold() exactly when the data are folded and the model is not, before any other use (6 worlds executed abstractly)', fn.lineno


def run(rep, prog, tier):
    m = prog.mod(INF)
    rep.saw_file(m.rel)
    names = ['ll', 'll_per_bin', 'll_multinom', 'll_multinom_per_bin', 'minus_ll', 'minus_ll_multinom', 'linear_Poisson_residual', 'Anscombe_Poisson_residual',
             'optimal_sfs_scaling', 'optimally_scaled_sfs']
    for q in names:
        fn = prog.func(INF, q)
        rep.saw_function(m.rel + ':' + q)
        generic.rule_name(rep, prog, m, fn)
        generic.rule_def(rep, m, fn)
        generic.rule_sig(rep, prog, m, fn)
        # the spectra handed in (or handed back unchanged by intersect_masks when the masks already agree) are never written:
        # a later likelihood of the same data object must see the same entries
        writes = []
        for n in own_nodes(fn):
            tgts = n.targets if isinstance(n, ast.Assign) else [n.target] if isinstance(n, ast.AugAssign) else []
            for t in tgts:
                for x in ([t] if not isinstance(t, (ast.Tuple, ast.List)) else t.elts):
                    root = x
                    through = False
                    while isinstance(root, (ast.Subscript, ast.Attribute)):
                        root, through = root.value, True
                    if isinstance(root, ast.Name) and root.id in ('model', 'data') and (through or isinstance(n, ast.AugAssign)):
                        writes.append('`%s` (line %d)' % (ast.unparse(n)[:60], n.lineno))
        rep.ob('R-PURE', 'Inference.%s arguments' % q, not writes, '; '.join(writes) if writes else 'no store into model / data (entries, mask or attributes)', m.rel, fn.lineno,
               what='the likelihood functions do not modify the spectra they are given')
    # ---- ll_per_bin ---------------------------------------------------------------------------------------------
    lp = prog.func(INF, 'll_per_bin')
    res = [n for n in lp.body if isinstance(n, ast.Assign) and ast.unparse(n.targets[0]) == 'result']
    ok = False
    got = None
    if len(res) == 1:
        try:
            got = lik_translator().tr(res[0].value)
            ref = lik_translator().tr(ast.parse('-model + data*model.log() - gammaln(data + 1)', mode='eval').body)
            ok = got.equals(ref)
        except AlgebraError:
            ok = False
    rep.ob('R-ALG', 'll_per_bin formula', ok, 'result = %s' % (ast.unparse(res[0].value) if res else 'not found'), m.rel, res[0].lineno if res else lp.lineno,
           what='Poisson log-probability -m + d*log(m) - gammaln(d+1) of the two arguments')
    if res:
        # mask provenance: which whole (masked) operands reach the result through masked-array arithmetic; `.data` strips the mask
        ms = mask_sources(res[0].value, {'model': {'model'}, 'data': {'data'}})
        okm = ms >= {'model', 'data'}
        rep.ob('R-MASK', 'll_per_bin masks', okm, 'the result carries the masks (and, through the Spectrum operators, the folding check) of %s' % sorted(ms), m.rel, res[0].lineno, what='result is masked where either argument is masked')
    rets = [n for n in own_nodes(lp) if isinstance(n, ast.Return)]
    stores = [n for n in own_nodes(lp) if isinstance(n, (ast.Assign, ast.AugAssign)) and 'result' in ast.unparse(n.targets[0] if isinstance(n, ast.Assign) else n.target).split('[')[0].split('.')[0:1]]
    okr = len(rets) >= 1 and all(ast.unparse(r.value) == 'result' for r in rets) and len(stores) == 1
    rep.ob('R-FLOW', 'll_per_bin return', okr, '%d return statements, all returning the single assignment of result' % len(rets), m.rel, lp.lineno, what='every path returns the same Poisson term array')
    # warnings block must not modify data/model
    muts = [n for n in own_nodes(lp) if isinstance(n, (ast.Assign, ast.AugAssign)) and isinstance((n.targets[0] if isinstance(n, ast.Assign) else n.target), (ast.Subscript, ast.Attribute))]
    rep.ob('R-PURE', 'll_per_bin arguments', not muts, 'no store into model/data (%d subscript/attribute stores)' % len(muts), m.rel, lp.lineno, what='arguments are not modified')
    # ---- sums and wrappers -------------------------------------------------------------------------------------------
    # what each wrapper returns, as a value (abstract execution; calls of other program functions stay symbolic, so temporaries,
    # nesting and the reuse of optimally_scaled_sfs do not matter)
    from sa import miniexec as mx
    from sa import alpha as _alpha
    known_ = _alpha.load_table().get('__params__', {}).get(m.rel)
    known_ = set(known_) if known_ is not None else None

    def returned(fn, enter=(), mod=m, hook=None):
        it = mx.Interp(prog, mod, known_functions=known_ if mod is m else None, enter=enter, call_hook=hook)
        paths = it.run(fn, {p_: mx.Sym(p_) for p_ in positional_params(fn)})
        return paths
    simple = {
        'll': 'numpy.sum(ll_per_bin(model, data))',
        'll_multinom': 'numpy.sum(ll_multinom_per_bin(model, data))',
        'll_multinom_per_bin': 'll_per_bin((optimal_sfs_scaling(model, data) * model), data)',
        'minus_ll': '-ll(model, data)',
        'minus_ll_multinom': '-ll_multinom(model, data)',
        'optimally_scaled_sfs': '(optimal_sfs_scaling(model, data) * model)',
    }
    for q, want in simple.items():
        fn = prog.func(INF, q)
        try:
            paths = returned(fn, enter=('optimally_scaled_sfs',) if q == 'll_multinom_per_bin' else ())
            got = [mx.show(p_[0][1]) if p_[0][0] == 'return' else 'raise %s' % p_[0][1] for p_ in paths]
        except mx.Undecidable as e:
            got = ['not recognised: %s' % e]
        rep.ob('R-TPL', 'Inference.%s' % q, got == [want] or got == ['(%s)' % want], '; '.join(got)[:160], m.rel, fn.lineno, what='returns ' + want)
    # ---- optimal_sfs_scaling --------------------------------------------------------------------------------------------
    os_ = prog.func(INF, 'optimal_sfs_scaling')
    try:
        paths = returned(os_)
        got = [mx.show(p_[0][1]) for p_ in paths if p_[0][0] == 'return']
        ok = bool(got)
        for p_ in paths:
            if p_[0][0] != 'return':
                continue
            v = p_[0][1]
            okp = isinstance(v, mx.Sym) and v.struct and v.struct[0] == 'binop' and v.struct[1] == '/'
            if okp:
                parts = []
                for side, k in ((v.struct[2], 1), (v.struct[3], 0)):
                    c_ = mx.call_of(side, 'sum')
                    x = c_[0][0] if c_ is not None and len(c_[0]) == 1 and not c_[1] else None
                    okp = okp and isinstance(x, mx.Sym) and x.struct and x.struct[0] == 'index' and x.struct[2] == k
                    parts.append(x.struct[1] if okp else None)
                if okp:
                    im_ = mx.call_of(parts[0], 'intersect_masks')
                    if im_ is not None:
                        # positional or keyword arguments, in the order of the callee's parameters
                        pp_ = positional_params(prog.func(NUM, 'intersect_masks'))
                        a_ = list(im_[0]) + [im_[1][q_] for q_ in pp_[len(im_[0]):] if q_ in im_[1]]
                        im_ = (a_, {k_: v_ for k_, v_ in im_[1].items() if k_ not in pp_})
                    okp = mx.show(parts[0]) == mx.show(parts[1]) and im_ is not None and len(im_[0]) == 2 and not im_[1] and mx.show(im_[0][1]) == 'data' and mx.show(im_[0][0]).split('.')[0] == 'model'
            ok = ok and okp
        det = '%d paths (the automatic folding of the model forks): %s' % (len(got), got[0][:110] if got else '')
    except mx.Undecidable as e:
        ok, det = False, 'optimal_sfs_scaling is not recognised: %s' % e
    rep.ob('R-FLOW', 'optimal_sfs_scaling', ok, det, m.rel, os_.lineno, what='sum(data)/sum(model) over the two arrays returned by intersect_masks')
    ism = prog.func(NUM, 'intersect_masks')
    nm = prog.mod(NUM)
    badm = []
    try:
        for a_masked in (True, False):
            for b_masked in (True, False):
                for same in ((True, False) if a_masked and b_masked else (False,)):
                    def hook(nm_, args, kwargs, a_masked=a_masked, b_masked=b_masked, same=same):
                        last = nm_.split('.')[-1]
                        if last == 'isMaskedArray' and len(args) == 1:
                            return a_masked if mx.show(args[0]) == 'm1' else b_masked
                        if last == 'all' and len(args) == 1:
                            return same
                        return NotImplemented
                    paths = returned(ism, mod=nm, hook=hook)
                    tag = 'm1 %smasked, m2 %smasked%s' % ('' if a_masked else 'un', '' if b_masked else 'un', (', masks %s' % ('equal' if same else 'different')) if a_masked and b_masked else '')
                    if len(paths) != 1 or paths[0][0][0] != 'return' or not isinstance(paths[0][0][1], tuple) or len(paths[0][0][1]) != 2:
                        badm.append('%s: %d paths' % (tag, len(paths)))
                        continue
                    r1, r2 = paths[0][0][1]
                    if (a_masked and b_masked and same) or not (a_masked or b_masked):
                        if (mx.show(r1), mx.show(r2)) != ('m1', 'm2'):
                            badm.append('%s: returns %s, %s' % (tag, mx.show(r1)[:40], mx.show(r2)[:40]))
                        continue
                    for r_, nm1 in ((r1, 'm1'), (r2, 'm2')):
                        c_ = mx.call_of(r_, 'Spectrum')
                        okr = c_ is not None and [mx.show(x) for x in c_[0]] == [nm1] and set(c_[1]) == {'mask'}
                        if okr:
                            mk = c_[1]['mask']
                            src = mx.method_call(mk, 'copy')
                            if src is None:
                                cc = mx.call_of(mk, 'copy') or mx.call_of(mk, 'array')
                                src = cc[0][0] if cc and cc[0] else None
                            mo = mx.call_of(src, 'mask_or') if src is not None else None
                            okr = mo is not None and sorted(mx.show(x) for x in mo[0]) in (['numpy.ma.getmask(m1)', 'numpy.ma.getmask(m2)'], ['ma.getmask(m1)', 'ma.getmask(m2)'], ['numpy.ma.getmaskarray(m1)', 'numpy.ma.getmaskarray(m2)'])
                        if not okr:
                            badm.append('%s: %s becomes %s' % (tag, nm1, mx.show(r_)[:70]))
    except mx.Undecidable as e:
        badm.append('intersect_masks is not recognised: %s' % e)
    rep.ob('R-TPL', 'Numerics.intersect_masks', not badm, '; '.join(badm[:2]) if badm else 'joint mask = OR of both masks, applied (as copies) to both arrays; identical masks short-circuit', nm.rel, ism.lineno,
           what='both arrays are masked where either was masked')
    # ---- residuals -----------------------------------------------------------------------------------------------------------
    lr = prog.func(INF, 'linear_Poisson_residual')
    ar = prog.func(INF, 'Anscombe_Poisson_residual')
    # what the residual functions return without and with a masking threshold: abstract execution (folding guards switched off; they
    # have their own obligations below); the residual is compared algebraically, the masking condition as a set of comparisons
    from sa import miniexec as mx
    from fractions import Fraction as _F

    def res_leaf(x):
        if isinstance(x, mx.Sym) and x.text in ('model', 'data'):
            return Rat.atom(x.text)
        c = mx.call_of(x, 'sqrt')
        if c is not None and len(c[0]) == 1:
            return Rat.atom('POW[%s,1/2]' % mx.to_rat(c[0][0], res_leaf).canon())
        c = mx.call_of(x, 'power')
        if c is not None and len(c[0]) == 2 and isinstance(c[0][1], (int, float)):
            return Rat.atom('POW[%s,%s]' % (mx.to_rat(c[0][0], res_leaf).canon(), _F(c[0][1]).limit_denominator(1000)))
        if isinstance(x, mx.Sym) and x.struct and x.struct[0] == 'binop' and x.struct[1] == '**' and isinstance(x.struct[3], (int, float)):
            return Rat.atom('POW[%s,%s]' % (mx.to_rat(x.struct[2], res_leaf).canon(), _F(x.struct[3]).limit_denominator(1000)))
        return None

    def strip(v):
        """(sign, masking condition or None, residual) of  [-] masked_where(cond, [-] r)"""
        sign = 1
        cond = None
        for _ in range(4):
            if isinstance(v, mx.Sym) and v.struct and v.struct[:3] == ('binop', '-', 0):
                sign, v = -sign, v.struct[3]
                continue
            c = mx.call_of(v, 'masked_where')
            if c is not None and len(c[0]) == 2 and cond is None:
                cond, v = c[0][0], c[0][1]
                continue
            break
        return sign, cond, v

    def cond_atoms(c):
        """the masking condition as nested and/or of comparison texts"""
        for nm_, tag_ in (('logical_and', 'and'), ('logical_or', 'or')):
            cc = mx.call_of(c, nm_)
            if cc is not None and len(cc[0]) == 2:
                return (tag_, frozenset(cond_atoms(a) for a in cc[0]))
        return mx.show(c).replace(' ', '')

    def hook(nm, args, kwargs):
        if nm == 'hasattr':
            return False
        return NotImplemented
    specs = ((lr, 'linear_Poisson_residual', 1, '(model - data)/POWM', ('and', frozenset(['(model<=mask)', '(data<=mask)']))),
             (ar, 'Anscombe_Poisson_residual', -1, None, ('or', frozenset([('and', frozenset(['(model<=mask)', '(data<=mask)'])), '(data==0)']))))
    for fn, nm_, want_sign, _ref, want_cond in specs:
        okv, okm, det = True, True, []
        for masked in (False, True):
            it = mx.Interp(prog, m, call_hook=hook)
            try:
                paths = it.run(fn, {'model': mx.Sym('model'), 'data': mx.Sym('data'), 'mask': mx.Sym('mask') if masked else None})
            except mx.Undecidable as e:
                raise AnalysisError('%s is not recognised: %s' % (nm_, e))
            if len(paths) != 1 or paths[0][0][0] != 'return':
                okv = False
                det.append('%d paths' % len(paths))
                continue
            sign, cond, r = strip(paths[0][0][1])
            try:
                got = mx.to_rat(r, res_leaf)
                M, D = Rat.atom('model'), Rat.atom('data')
                if nm_.startswith('linear'):
                    ref = (M - D) / Rat.atom('POW[%s,1/2]' % M.canon())
                else:
                    P = lambda b, e: Rat.atom('POW[%s,%s]' % (b.canon(), e))
                    ref = Rat.const(_F(3, 2)) * ((P(D, '2/3') - P(D, '-1/3') / Rat.const(9)) - (P(M, '2/3') - P(M, '-1/3') / Rat.const(9))) / P(M, '1/6')
                if not ((got.equals(ref) and sign == want_sign) or ((Rat.const(0) - got).equals(ref) and sign == -want_sign)):
                    okv = False
                    det.append('%s: returns %s%s' % ('with mask' if masked else 'no mask', '-' if sign < 0 else '', got.canon()[:90]))
            except AlgebraError as e:
                okv = False
                det.append('not evaluable: %s' % e)
            if masked:
                if cond is None or cond_atoms(cond) != want_cond:
                    okm = False
                    det.append('masking condition %s' % (mx.show(cond)[:80] if cond is not None else 'absent'))
            elif cond is not None:
                okm = False
                det.append('masks without a threshold')
        rep.ob('R-ALG', nm_, okv, '; '.join(det[:2]) if not okv else ('(model - data)/sqrt(model)' if want_sign > 0 else 'minus 1.5*((d^(2/3) - d^(-1/3)/9) - (m^(2/3) - m^(-1/3)/9))/m^(1/6)'), m.rel, fn.lineno,
               what='(model - data)/sqrt(model), positive when the model exceeds the data' if want_sign > 0 else 'Anscombe residual with the documented sign (model minus data)')
        rep.ob('R-TPL', '%s masking' % nm_, okm, '; '.join(det[:2]) if not okm else 'entries with model <= mask and data <= mask are masked', m.rel, fn.lineno, what='documented residual masking')
    # ---- auto-fold guards ---------------------------------------------------------------------------------------------------------
    for q in ('ll_per_bin', 'linear_Poisson_residual', 'Anscombe_Poisson_residual', 'optimal_sfs_scaling'):
        ok, det, line = autofold_by_value(prog, q)
        rep.ob('R-DOM', 'Inference.%s auto-fold' % q, ok, det, m.rel, line, what='model folded against folded data before anything else')
    # ---- homogeneity in the model scale ------------------------------------------------------------------------------------------------
    lam = Rat.atom('lam')
    M, D = Rat.atom('SUM_model'), Rat.atom('SUM_data')
    theta = D / M
    theta_scaled = D / (lam * M)
    rep.ob('R-DEG', 'optimal_sfs_scaling degree', (theta_scaled * lam).equals(theta), 'theta(lam*model) * lam == theta(model)', m.rel, os_.lineno, what='optimal scaling has degree -1 in the model scale')
    if got is not None:
        mod, dat = Rat.atom('model'), Rat.atom('data')
        try:
            scaled1 = got.subs({'model': theta * mod, 'log(model)': log_of(Rat.atom('model')) + Rat.atom('log(theta)')})
            scaled2 = got.subs({'model': (theta_scaled * lam) * mod, 'log(model)': log_of(Rat.atom('model')) + Rat.atom('log(theta)')})
            rep.ob('R-DEG', 'll_multinom_per_bin degree', scaled1.equals(scaled2), 'll_per_bin(theta(lam m)*lam m, d) == ll_per_bin(theta(m)*m, d)', m.rel, lp.lineno,
                   what='multinomial log-likelihood is invariant to rescaling the model')
        except AlgebraError:
            pass
    rep.floor('R-ALG', 3)
    rep.floor('R-TPL', 9)
    rep.floor('R-DOM', 4)
